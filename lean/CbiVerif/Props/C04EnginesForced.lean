import CbiVerif.Lemmas.EnginesAgreeForced
import CbiVerif.Props.C04Engines
/-! # C04 — the two multi-file engines agree on requests with `-include` files

`Props/C04Engines.lean` proves `engines_agree_partial` under `Engines.EngOK`, which excludes every command with an
`-include` file.  Here the missing induction is supplied (`Lemmas/EnginesAgreeForced.lean`): the `-include` loop of
`Model/Exclude.lean` (`runForcedRef`: `findForced` = memoised look-up + once-list test, `enterRef` without includer,
`assocTreeRef`) is simulated by the fold of `Inc.forcedWith` (look-up, ghost visit / warning, once-list test,
`insertFile`, `assocFile`) — one step (`forced_one`) from `findInclude_eq`, `enterRef_cases'` and `file_agree`, the loop
(`forced_agree`) by induction on the list with both failures sticky — and the entry / entries / configuration layers are
redone over it.

Side condition (`Engines.EngOKF`, decidable, evaluated by op `engines_f`): `EngOK` with the clause "no `-include` file"
replaced by "a command has `-include` files only if every existing file is C-family by extension" (`FindInst.AllC`,
as in `FindInst.ClassOK`): a forced include is parsed with no includer, so an extension-less one would make
`Exclude.sem` fail ("Could not determine language") where `Inc.find` parses it.  `EngOK → EngOKF`. -/
namespace CbiVerif.C04
open CbiVerif.PP CbiVerif.Engines

/-- **engine agreement with `-include` files (proved part).**  On a link-free, single-language-class request whose commands
name `-include` files only when every existing file is C-family by extension (`EngOKF`), whenever neither run fails — which
includes "neither fuel was exhausted" — the cache-free engine of ops `c08find` / `c10find` and the model of `finder.find`
the C04 / C13 / C18 theorems are about attribute exactly the same (file, node, platform) triples.  Full statement:
`ExcludeEngineEqFindInc` (`Props/C04Engines.lean`). -/
theorem engines_agree_forced_partial (fs : Inc.FS) (cb : List String) (cfg : List (String × List Entry)) (n fuel : Nat)
    (hok : EngOKF fs cfg = true)
    (hx : (runExclude fs cfg n).err = none) (hi : (Inc.find fs cb cfg fuel).err = none) :
    ∀ f i p, Has (runExclude fs cfg n).assoc f i p ↔ Has (Inc.find fs cb cfg fuel).assoc f i p := by
  rcases find_top_f fs cb cfg n fuel treesOK hok with h | h | ⟨_, _, h⟩
  · exact absurd hx h
  · exact absurd hi h
  · exact h

/-- … in the form the driver evaluates (op `engines_f`: fields `eng_okf`, `both_ok`, `agree`) -/
theorem engines_agree_forced_checked (fs : Inc.FS) (cb : List String) (cfg : List (String × List Entry)) (n fuel : Nat)
    (hok : EngOKF fs cfg = true) (hb : bothOk fs cb cfg n fuel = true) : agree fs cb cfg n fuel = true := by
  simp only [bothOk, bothOkOf, Bool.and_eq_true, Option.isNone_iff_eq_none] at hb
  exact (sameSet_iff _ _).mpr (engines_agree_forced_partial fs cb cfg n fuel hok hb.1 hb.2)

/-- the side condition of `engines_agree_partial` is the special case without `-include` files -/
theorem engOK_imp_engOKF (fs : Inc.FS) (cfg : List (String × List Entry)) (h : EngOK fs cfg = true) :
    EngOKF fs cfg = true := engOKF_of_engOK fs cfg h

/-- **`C04.include_semantics_find` transfers to the engine ops `c08find` / `c10find` execute, `-include` files included**
(proved part: `EngOKF`; full statement `IncludeSemanticsExcludeEngine`).  For well-nested files, whenever neither run fails,
the engine of `Model/Exclude.lean` attributes exactly the triples the reference analysis does (`Inc.findSpec`: flat ISO C
conditional-group machine, textual inclusion — the `-include` files first, in order, each unless on the once-list —, the
compiler's search rule evaluated afresh at every include). -/
theorem include_semantics_exclude_engine_forced_partial (fs : Inc.FS) (cb : List String)
    (cfg : List (String × List Entry)) (n fuel : Nat) (hok : EngOKF fs cfg = true)
    (hwf : Inc.WFparsed (Inc.parseAll fs))
    (hx : (runExclude fs cfg n).err = none) (hs : (Inc.findSpec fs cb cfg fuel).err = none) :
    ∀ f i p, Has (runExclude fs cfg n).assoc f i p ↔ Has (Inc.findSpec fs cb cfg fuel).assoc f i p := by
  rw [← include_semantics_find fs cb cfg fuel hwf] at hs ⊢
  exact engines_agree_forced_partial fs cb cfg n fuel hok hx hs

/-- … and to the run with the shared parse cache (`Exclude.find`, what op `c10find` returns), when it logs no
language-mixing event and the up-front parse succeeds (`C10.find_eq_ref`) -/
theorem include_semantics_cached_engine_forced_partial (fs : Inc.FS) (cb cb' : List String)
    (cfg : List (String × List Entry)) (n fuel : Nat) (hok : EngOKF fs cfg = true)
    (hwf : Inc.WFparsed (Inc.parseAll fs))
    (hpre : C10.PreOK (Exclude.sem fs.files) cb' cfg) (hmix : C10.NoMix (Exclude.sem fs.files) n cb' cfg)
    (hx : (Exclude.find (Exclude.sem fs.files) n cb' cfg).loc.err = none) (hs : (Inc.findSpec fs cb cfg fuel).err = none) :
    ∀ f i p, Has (Exclude.find (Exclude.sem fs.files) n cb' cfg).loc.assoc f i p ↔ Has (Inc.findSpec fs cb cfg fuel).assoc f i p := by
  rw [C10.find_eq_ref _ n cb' cfg hpre hmix] at hx ⊢
  exact include_semantics_exclude_engine_forced_partial fs cb cfg n fuel hok hwf hx hs

/-! ### non-vacuity -/

/-- a `#pragma once` prefix header that defines a macro, named twice by `-include` (the second is stopped by the
once-list), a second prefix header without guard named twice (processed twice), one `-include` that does not resolve
(warning on the side of `Inc.find`), and a source file that includes the first header again; two platforms -/
def engFsF : Inc.FS := { files := [
  ("/r/inc/pre.h", "#pragma once\n#ifdef A\n#define P 1\n#else\n#define P 2\n#endif\n"),
  ("/r/inc/q.h", "#if P == 1\nint q1;\n#else\nint q2;\n#endif\n"),
  ("/r/a.c", "#include \"inc/pre.h\"\n#if P == 1\nint x;\n#endif\n")] }
def engCfgF : List (String × List Entry) :=
  [("cpu", [{ file := "/r/a.c", defines := ["A"], includePaths := ["/r/inc"],
              includeFiles := ["inc/pre.h", "pre.h", "q.h", "nope.h", "q.h"] }]),
   ("gpu", [{ file := "/r/a.c", defines := [], includePaths := ["/r/inc"], includeFiles := ["q.h", "inc/pre.h"] }])]

/-- the hypotheses of `engines_agree_forced_partial` / `engines_agree_forced_checked` hold there (kernel-checked),
although `EngOK` does not … -/
example : EngOKF engFsF engCfgF = true ∧ EngOK engFsF engCfgF = false ∧
    bothOk engFsF ["/r/a.c"] engCfgF 200 4 = true := by decide +kernel

/-- … both runs are non-trivial and of the same size … -/
example : ((runExclude engFsF engCfgF 200).assoc.map (·.2.length)).sum =
      ((Inc.find engFsF ["/r/a.c"] engCfgF 4).assoc.map (·.2.length)).sum ∧
    10 ≤ ((runExclude engFsF engCfgF 200).assoc.map (·.2.length)).sum := by decide +kernel

/-- … and the well-formedness hypothesis of the transfer theorem holds -/
example : Inc.WFparsed (Inc.parseAll engFsF) := WFparsed_of_check _ (by decide +kernel)

/-- the new clause is not vacuous: with an existing extension-less file a command with `-include` files falsifies
`EngOKF`, a command without does not; links and Fortran headers still falsify it -/
example : EngOKF { files := ("/r/inc/vector", "int v;\n") :: engFsF.files } engCfgF = false ∧
    EngOKF { files := ("/r/inc/vector", "int v;\n") :: engFs.files } engCfg = true ∧
    EngOKF { engFsF with links := [("/r/l", "/r/inc")] } engCfgF = false ∧
    EngOKF { files := ("/r/m.f90", "") :: engFsF.files } engCfgF = false := by decide +kernel

/-- the clause is needed: an extension-less `-include` file makes the engine of `Model/Exclude.lean` fail ("Could not
determine language") where `Inc.find` succeeds -/
example : (runExclude { files := ("/r/inc/vector", "int v;\n") :: engFsF.files }
      [("p", [{ file := "/r/a.c", defines := [], includePaths := ["/r/inc"], includeFiles := ["vector"] }])] 200).err.isSome = true ∧
    (Inc.find { files := ("/r/inc/vector", "int v;\n") :: engFsF.files } ["/r/a.c"]
      [("p", [{ file := "/r/a.c", defines := [], includePaths := ["/r/inc"], includeFiles := ["vector"] }])] 4).err = none := by
  decide +kernel

end CbiVerif.C04
