import CbiVerif.PP.Analyse
import CbiVerif.Lemmas.TreeDefine
import CbiVerif.Lemmas.TreeParse
/-! Lemmas tying the *executed* functions `PP.analyseFile` / `PP.referenceFile` (driver op `c01`) to the
generic theorems: the label list is normalised, and the `-D` prologue (`initWorld`) with CBI's
keep-first `define` equals the one with C's `define` unless the redefinition diagnostic is raised. -/
namespace CbiVerif.PP
open CbiVerif.Cond

theorem labels_normal (nodes : List PNode) : ∀ l ∈ labels nodes, l.normal := by
  intro l hl
  simp only [labels, List.mem_map] at hl
  obtain ⟨⟨n, i⟩, _, rfl⟩ := hl
  intro hk
  simp only at hk ⊢
  cases hkk : kindOf n.kind <;> simp_all [payOf]

def initStep (define : MacroWorld → String → Macro → MacroWorld) (w : MacroWorld) (d : String) : Except Err MacroWorld := do
  let m ← macroFromDefinitionString d
  return define w m.name m

theorem initWorld_eq (define : MacroWorld → String → Macro → MacroWorld) (defs : List String) :
    initWorld define defs = defs.foldlM (initStep define) {} := rfl

theorem initFold_diag_mono (defs : List String) (w w2 : MacroWorld) (hw : w.diag = true)
    (h : defs.foldlM (initStep MWorld.defineC) w = .ok w2) : w2.diag = true := by
  induction defs generalizing w with
  | nil => simp only [List.foldlM_nil, pure, Except.pure, Except.ok.injEq] at h; subst h; exact hw
  | cons d ds ih =>
    simp only [List.foldlM_cons, bind, Except.bind, initStep] at h
    cases hm : macroFromDefinitionString d with
    | error e => simp [hm] at h
    | ok m =>
      simp only [hm, pure, Except.pure] at h
      exact ih _ (defineC_diag_mono w m.name m hw) h

theorem initFold_sync (defs : List String) (w w2 : MacroWorld)
    (h : defs.foldlM (initStep MWorld.defineC) w = .ok w2) (hd : w2.diag = false) :
    defs.foldlM (initStep MWorld.defineCBI) w = .ok w2 := by
  induction defs generalizing w with
  | nil => exact h
  | cons d ds ih =>
    simp only [List.foldlM_cons, bind, Except.bind, initStep] at h ⊢
    cases hm : macroFromDefinitionString d with
    | error e => simp [hm] at h
    | ok m =>
      simp only [hm, pure, Except.pure] at h ⊢
      rcases define_agree w m.name m with hx | hx
      · have := initFold_diag_mono ds _ w2 hx h
        rw [this] at hd; cases hd
      · rw [hx]; exact ih _ h

theorem initWorld_sync (defs : List String) (w2 : MacroWorld)
    (h : initWorld MWorld.defineC defs = .ok w2) (hd : w2.diag = false) :
    initWorld MWorld.defineCBI defs = .ok w2 := initFold_sync defs {} w2 h hd

end CbiVerif.PP
