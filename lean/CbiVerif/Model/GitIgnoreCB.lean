import CbiVerif.Model.CodeBase
import CbiVerif.Spec.GitIgnore
/-! # `CodeBase` with the gitignore semantics inside the model (C09)

`CB.Cfg.ignored` — so far a parameter — instantiated with the executable reference of git's pattern
language: `GitIgnoreSpec.from_lines(exclude_patterns).match_file(path.relative_to(root))` is modelled as
`GitIgnore.ignoredStr exclude_patterns (components of the root-relative path) false` (a member is a regular
file, never a directory).  Core Lean only. -/
namespace CbiVerif.CBGit
open CbiVerif.CB

def gitCfg (patterns : List String) (catchLoop : Bool) : Cfg :=
  { ignored := fun rel => CbiVerif.GitIgnore.ignoredStr patterns rel false, catchLoop := catchLoop }

end CbiVerif.CBGit
