"""C12 — compiler emulation: aliases, implicit options, modes and passes.

Implementation: codebasin.config._load_compilers / ArgumentParser(argv0).parse_args(argv) /
                load_database, codebasin.finder.find   (cwd = a scratch directory holding `.cbi/config`)
Model (Lean):   CbiVerif.Compilers (Model/Compilers.lean) through driver op "c12"; the built-in table is
                Generated/Compilers.lean, re-extracted from the *.toml files on every run
Spec (Python):  an independent reading of the property on the *meaning* of a generated command line
                (a list of items: define / include dir / flag of rule k with value v / ...), never on its
                spelling: aliases resolve transitively, loops / unknown targets are reported; implicit
                options are further items at the end; a flag contributes exactly what is declared for it;
                one configuration for the default pass plus one per selected, declared pass; the user
                file extends the built-in one; a line belongs to a platform iff some pass of some of its
                commands uses it.

Streams: built-in (every documented flag combination of the four *.toml files), random `.cbi/config`
files x command lines over every subset of the resolved compiler's flags ("tame" lines: impl vs spec vs
model) and "wild" lines (abbreviations, clusters, junk: impl vs model only), implicit == explicit
(metamorphic, on the implementation), hash-seed stability (D34), end-to-end attribution of files guarded
by _OPENMP / __CUDA_ARCH__ / __SYCL_DEVICE_ONLY__ and by user-declared modes.
"""
from __future__ import annotations

import argparse
import contextlib
import io
import itertools
import json
import logging
import os
import re
import signal
import string
import subprocess
import sys
import tomllib

from harness import core

BUILTIN_COMPILERS = ["gcc", "g++", "clang", "clang++", "icx", "icpx", "nvcc"]
TIME_LIMIT = 1.0  # seconds for one ArgumentParser() + parse_args(); an alias walk that hangs trips it


# --------------------------------------------------------------------------
# the implementation, observed through its public entry points and its logger
# --------------------------------------------------------------------------
class _Cap(logging.Handler):
    def __init__(self):
        super().__init__(level=logging.DEBUG)
        self.records = []

    def emit(self, r):
        self.records.append((r.levelname, r.getMessage()))


@contextlib.contextmanager
def capture():
    lg = logging.getLogger("codebasin.config")
    h = _Cap()
    old = (lg.level, lg.propagate)
    lg.addHandler(h)
    lg.setLevel(logging.INFO)
    lg.propagate = False
    try:
        yield h.records
    finally:
        lg.removeHandler(h)
        lg.setLevel(old[0])
        lg.propagate = old[1]


class Hang(Exception):
    pass


@contextlib.contextmanager
def time_limit(sec):
    def handler(signum, frame):
        raise Hang()

    old = signal.signal(signal.SIGPROF, handler)   # CPU time of this process: a loaded machine must not look like a hang
    signal.setitimer(signal.ITIMER_PROF, sec)
    try:
        yield
    finally:
        signal.setitimer(signal.ITIMER_PROF, 0)
        signal.signal(signal.SIGPROF, old)


def _exc_name(e):
    if isinstance(e, argparse.ArgumentError):
        return "ArgumentError"
    if isinstance(e, SystemExit):
        return "SystemExit"
    if isinstance(e, Hang):
        return "HANG"
    return type(e).__name__


RES_PATTERNS = [
    (re.compile(r"^Compiler '(.*)' not recognized\.$", re.S), lambda m: ["notRecognized"]),
    (re.compile(r"^Compiler '(.*)' alias results in a loop\.$", re.S), lambda m: ["loop"]),
    (re.compile(r"^Compiler '(.*)' aliases unrecognized '(.*)'\.$", re.S), lambda m: ["unknownTarget", m.group(2)]),
    (re.compile(r"^Compiler '(.*)' recognized; aliases '(.*)'\.$", re.S), lambda m: ["found", m.group(2)]),
]


def _resolution(records):
    """what ArgumentParser.__init__ reported: found <end of chain> / notRecognized / loop / unknownTarget"""
    out = None
    for _, msg in records:
        for pat, f in RES_PATTERNS:
            m = pat.match(msg)
            if m:
                out = f(m)
    return out


def _cfgs(cfgs):
    return sorted(
        ({"pass": c.pass_name, "defines": list(c.defines), "include_paths": list(c.include_paths),
          "include_files": list(c.include_files)} for c in cfgs),
        key=lambda c: c["pass"],
    )


def _dump_compilers(config):
    acts = {config._StoreSplitAction: "store_split", config._ExtendMatchAction: "extend_match"}
    out = []
    for name, c in (config._compilers or {}).items():
        out.append([name, {
            "alias_of": c.alias_of,
            "options": list(c.options),
            "parser": [{"flags": list(o["flags"]), "action": o["action"] if isinstance(o["action"], str) else acts.get(o["action"], "?"),
                        "dest": o.get("dest")} for o in c.parser],
            "modes": [[k, {"defines": m.defines, "include_paths": m.include_paths, "include_files": m.include_files}] for k, m in c.modes.items()],
            "passes": [[k, {"defines": p.defines, "include_paths": p.include_paths, "include_files": p.include_files}, p.modes] for k, p in c.passes.items()],
        }])
    return out


class Impl:
    """runs the real code with cwd = one scratch directory whose `.cbi/config` is rewritten per case"""

    def __init__(self, d):
        self.d = str(d)
        core.import_codebasin()
        from codebasin import config

        self.config = config
        os.makedirs(os.path.join(self.d, ".cbi"), exist_ok=True)

    def load(self, text):
        p = os.path.join(self.d, ".cbi", "config")
        if text is None:
            if os.path.exists(p):
                os.unlink(p)
        else:
            with open(p, "w") as f:
                f.write(text)
        old = os.getcwd()
        os.chdir(self.d)
        try:
            with capture() as rec:
                try:
                    self.config._load_compilers()
                    exc = None
                except Exception as e:  # noqa
                    exc = _exc_name(e)
        finally:
            os.chdir(old)
        logs = sorted([lv, msg] for lv, msg in rec if lv in ("WARNING", "ERROR"))
        return {"load_logs": logs, "load_exc": exc, "map": _dump_compilers(self.config)}

    def emulate(self, argv0, argv):
        res = {}
        with capture() as rec, contextlib.redirect_stderr(io.StringIO()):
            try:
                with time_limit(TIME_LIMIT):
                    parser = self.config.ArgumentParser(argv0)
                    n_init = len(rec)
                    cfgs = parser.parse_args(list(argv))
                res["ok"] = _cfgs(cfgs)
                res["npass"] = len(cfgs)
            except BaseException as e:  # noqa  (SystemExit from argparse's error())
                if isinstance(e, KeyboardInterrupt):
                    raise
                res["exc"] = _exc_name(e)
                n_init = len(rec)
        res["resolved"] = _resolution(rec)
        res["logs"] = sorted([lv, msg] for lv, msg in rec if lv in ("WARNING", "ERROR"))
        return res

    def case(self, text, cmds):
        out = self.load(text)
        out["results"] = [self.emulate(c["argv0"], c["argv"]) for c in cmds]
        return out


# --------------------------------------------------------------------------
# the model (driver) side
# --------------------------------------------------------------------------
def user_json(text):
    if text is None:
        return {"kind": "absent"}, None
    try:
        toml = tomllib.loads(text)
    except tomllib.TOMLDecodeError:
        return {"kind": "broken"}, None
    if "compiler" not in toml:
        return {"kind": "nokey"}, toml
    return {"kind": "defs", "defs": [[k, v] for k, v in toml["compiler"].items()]}, toml


def all_rules(builtin, toml):
    for f in builtin:
        for d in f.get("compiler", {}).values():
            yield from d.get("parser", [])
    if toml:
        for d in toml.get("compiler", {}).values():
            if isinstance(d, dict):
                yield from d.get("parser", [])


def candidates(args):
    out = set()
    for a in args:
        out.add(a)
        if "=" in a:
            out.add(a.split("=", 1)[1])
        if len(a) > 2:
            out.add(a[2:])
    return out


_RE_SUPPORTED = {}   # pattern -> does the model compute findall itself (driver op re_supported)
RE_STATS = {"patterns_computed_by_model": set(), "patterns_on_table_path": set(), "table_rows_sent": 0}


def model_computes(drv, pats):
    todo = [p for p in pats if p not in _RE_SUPPORTED]
    if todo and drv is not None:
        rep = drv.ask({"op": "re_supported", "patterns": todo})["supported"]
        for p_, ok in zip(todo, rep):
            _RE_SUPPORTED[p_] = bool(ok)
    return {p_: _RE_SUPPORTED.get(p_, False) for p_ in pats}


def match_table(builtin, toml, cmds, drv=None):
    """`re.findall` results for the patterns the model does NOT compute itself (outside the fragment of
    Model/Regex.lean, or two and more groups); for all other patterns nothing is supplied"""
    pats = {}
    for r in all_rules(builtin, toml):
        if r.get("action") == "extend_match" and "pattern" in r and r.get("flags"):
            pats[r["flags"][0]] = r["pattern"]
    if not pats:
        return []
    sup = model_computes(drv, sorted(set(pats.values())))
    for p_, ok in sup.items():
        RE_STATS["patterns_computed_by_model" if ok else "patterns_on_table_path"].add(p_)
    pats = {f0: p_ for f0, p_ in pats.items() if not sup[p_]}
    if not pats:
        return []
    extra = []
    for f in builtin:
        for d in f.get("compiler", {}).values():
            extra += d.get("options", [])
    if toml:
        for d in toml.get("compiler", {}).values():
            if isinstance(d, dict):
                extra += d.get("options", [])
    cands = candidates(list(itertools.chain.from_iterable(c["argv"] for c in cmds)) + extra)
    tab = []
    for f0, pat in pats.items():
        rx = re.compile(pat)
        for v in sorted(cands):
            ms = rx.findall(v)
            if ms:
                tab.append([f0, v, [m if isinstance(m, str) else str(m) for m in ms]])
    RE_STATS["table_rows_sent"] += len(tab)
    return tab


LOG_RENDER = {
    "notRecognized": lambda a: ["WARNING", f"Compiler '{a[0]}' not recognized."],
    "aliasLoop": lambda a: ["ERROR", f"Compiler '{a[0]}' alias results in a loop."],
    "aliasUnknown": lambda a: ["ERROR", f"Compiler '{a[0]}' aliases unrecognized '{a[1]}'."],
    "unrecognizedArgs": lambda a: ["WARNING", "Unrecognized arguments: '" + " ".join(a[0]) + "'"],
    "badPass": lambda a: ["ERROR", f"Unrecognized compiler pass: {a[0]}"],
    "badMode": lambda a: ["ERROR", f"Unrecognized compiler mode: {a[0]}"],
    "redefinedAsAlias": lambda a: ["WARNING", f"{a[0]} redefined as alias of {a[1]}."],
    "overridesAlias": lambda a: ["WARNING", f"definition of {a[0]} in .cbi/config overrides alias."],
    "modeRedefined": lambda a: ["WARNING", f"compiler mode '{a[0]}' redefined"],
    "passRedefined": lambda a: ["WARNING", f"compiler pass '{a[0]}' redefined"],
}


def render_logs(logs):
    out = []
    for l in logs:
        if l[0] == "invalidConfig":
            out.append(["ERROR", None])  # text of the schema / TOML error is not modelled
        else:
            out.append(LOG_RENDER[l[0]](l[1:]))
    return sorted(out, key=lambda x: (x[0], x[1] or ""))


def model_case(drv, builtin, text, cmds):
    uj, toml = user_json(text)
    req = {"op": "c12", "user": uj, "matches": match_table(builtin, toml, cmds, drv), "dump": True,
           "cmds": [{"argv0": os.path.basename(c["argv0"]), "argv": c["argv"], "file": c.get("file", ""), "filedir": c.get("filedir", "")} for c in cmds]}
    rep = drv.ask(req)
    out = {"load_logs": render_logs(rep["load_logs"]), "map": rep.get("map"), "results": []}
    for r in rep["results"]:
        m = {"resolved_kind": r["resolved"] if isinstance(r["resolved"], str) else r["resolved"][0]}
        if "exc" in r:
            m["exc"] = r["exc"]
        else:
            m["ok"] = sorted(r["ok"], key=lambda c: c["pass"])
            m["entries"] = r["entries"]
            m["logs"] = render_logs(r["logs"])
        out["results"].append(m)
    return out


def same_logs(impl_logs, model_logs):
    """model log lines with text None (schema error) match any ERROR record"""
    a = sorted(impl_logs, key=lambda x: (x[0], x[1] or ""))
    b = list(model_logs)
    if len(a) != len(b):
        return False
    rest = list(a)
    for lv, msg in b:
        if msg is None:
            k = next((i for i, x in enumerate(rest) if x[0] == lv), None)
        else:
            k = next((i for i, x in enumerate(rest) if x[0] == lv and x[1] == msg), None)
        if k is None:
            return False
        rest.pop(k)
    return True


# --------------------------------------------------------------------------
# the property, read independently of the code: works on item lists (meanings), not on spellings
# --------------------------------------------------------------------------
def load_builtin_toml():
    """the four built-in definition files as data (what is *declared*)"""
    d = core.REPO / "codebasin" / "compilers"
    return [tomllib.loads(p.read_text()) for p in sorted(d.glob("*.toml"))]


def _norm(d):
    return {"options": list(d.get("options", [])), "parser": [dict(r) for r in d.get("parser", [])],
            "modes": {m["name"]: m for m in d.get("modes", [])}, "passes": {p["name"]: p for p in d.get("passes", [])}}


def spec_valid_table(d):
    """schema: a compiler table is an alias (only alias_of) or a definition (anything but alias_of), never both / neither"""
    return isinstance(d, dict) and (("alias_of" in d) != bool(set(d) - {"alias_of"}))


def spec_load(builtin, text):
    """'a user configuration extends the built-in one'; an unreadable / invalid user file leaves the built-ins"""
    comps = {}
    for f in builtin:
        for name, d in f.get("compiler", {}).items():
            comps[name] = {"alias_of": d["alias_of"]} if "alias_of" in d else _norm(d)
    if text is None:
        return comps, True
    try:
        toml = tomllib.loads(text)
    except tomllib.TOMLDecodeError:
        return comps, False
    user = toml.get("compiler")
    if user is None:
        return comps, True
    if not all(spec_valid_table(d) for d in user.values()):
        return comps, False
    for name, d in user.items():
        if "alias_of" in d:
            comps[name] = {"alias_of": d["alias_of"]}
        elif name not in comps or "alias_of" in comps[name]:
            comps[name] = _norm(d)
        else:
            n = _norm(d)
            c = comps[name]
            c["options"] += n["options"]
            c["parser"] += n["parser"]
            c["modes"].update(n["modes"])
            c["passes"].update(n["passes"])
    return comps, True


def spec_resolve(comps, name):
    if name not in comps:
        return ["notRecognized"]
    seen = [name]
    cur = name
    while "alias_of" in comps[cur]:
        t = comps[cur]["alias_of"]
        if t in seen:
            return ["loop"]
        if t not in comps:
            return ["unknownTarget", t]
        seen.append(t)
        cur = t
    return ["found", cur]


def _fmt(fmt, v):
    return string.Template(fmt).substitute(value=v) if fmt else v


def spec_configs(comp, items):
    """configurations demanded by the property for a compiler definition and the meaning of its command line
    (explicit items followed by the items of the implicit options)."""
    lists = {"defines": [], "include_paths": [], "system_include_paths": [], "include_files": [], "modes": [], "passes": []}
    rules = comp["parser"] if comp else []
    rule_passes = {}
    used = set()
    for i, r in enumerate(rules):
        if r["action"] in ("store_split", "extend_match") and r.get("dest") == "passes" and "default" in r:
            rule_passes[i] = [r["default"]] if isinstance(r["default"], str) else list(r["default"])
    for it in items:
        k = it[0]
        if k == "D":
            lists["defines"].append(it[1])
        elif k == "U":
            # -U NAME cancels the definitions of NAME made so far on the command line (not what modes / passes add later)
            lists["defines"] = [d for d in lists["defines"] if re.split(r"[=(]", d, 1)[0] != it[1]]
        elif k == "I":
            lists["include_paths"].append(it[1])
        elif k == "isystem":
            lists["system_include_paths"].append(it[1])
        elif k == "include":
            lists["include_files"].append(it[1])
        elif k == "rule":
            i, val = it[1], it[3]
            r = rules[i]
            act, dest = r["action"], r.get("dest")
            if act == "append_const":
                lists.setdefault(dest, []).append(r["const"])
            elif act == "append":
                lists.setdefault(dest, []).append(val)
            elif act == "store_split":
                vals = [_fmt(r.get("format"), v) for v in val.split(r.get("sep"))]
                if dest == "passes":
                    rule_passes[i] = vals
                else:
                    lists[dest] = vals
            elif act == "extend_match":
                vals = [_fmt(r.get("format"), v) for v in re.findall(r["pattern"], val)]
                if dest == "passes":
                    if r.get("override") and i not in used:
                        rule_passes[i] = vals
                    else:
                        rule_passes[i] = rule_passes.get(i, []) + vals
                elif r.get("override"):
                    lists[dest] = vals
                else:
                    lists.setdefault(dest, []).extend(vals)
            used.add(i)
    passes = []
    for p in lists["passes"] + [p for i in sorted(rule_passes) for p in rule_passes[i]] + ["default"]:
        if p not in passes:
            passes.append(p)
    active = []
    for m in lists["modes"]:
        if m not in active:
            active.append(m)
    out = {}
    modes_decl = comp["modes"] if comp else {}
    passes_decl = comp["passes"] if comp else {}
    for p in passes:
        cfg = {"defines": list(lists["defines"]), "include_paths": lists["include_paths"] + lists["system_include_paths"],
               "include_files": list(lists["include_files"])}
        if p == "default":
            ms = active
        elif p in passes_decl:
            pd = passes_decl[p]
            for k in cfg:
                cfg[k] += pd.get(k, [])
            ms = pd.get("modes", [])
        else:
            continue  # an undeclared pass contributes no configuration (and is reported)
        for m in ms:
            if m in modes_decl:
                for k in cfg:
                    cfg[k] += modes_decl[m].get(k, [])
        out[p] = cfg
    return out, active


def render(items, rules):
    argv = []
    for it in items:
        k = it[0]
        if k == "D":
            argv += ["-D" + it[1]] if it[2] else ["-D", it[1]]
        elif k == "U":
            argv += ["-U" + it[1]] if it[2] else ["-U", it[1]]
        elif k == "I":
            argv += ["-I" + it[1]] if it[2] else ["-I", it[1]]
        elif k == "isystem":
            argv += ["-isystem", it[1]]
        elif k == "include":
            argv += ["-include", it[1]]
        elif k == "file":
            argv += [it[1]]
        elif k == "raw":
            argv += list(it[1])
        elif k == "rule":
            _, i, spelling, val, form = it
            if val is None:
                argv += [spelling]
            elif form == "eq":
                argv += [f"{spelling}={val}"]
            else:
                argv += [spelling, val]
    return argv


# --------------------------------------------------------------------------
# generators
# --------------------------------------------------------------------------
def tq(s):
    return json.dumps(s)  # a JSON string is a valid TOML basic string for printable ASCII


def toml_text(defs):
    """[(name, definition dict)] -> TOML text with the table layout of the built-in files"""
    L = []
    for name, d in defs:
        L.append(f"[compiler.{tq(name)}]")
        if "alias_of" in d:
            L.append(f"alias_of = {tq(d['alias_of'])}")
        if "options" in d:
            L.append("options = [" + ", ".join(tq(o) for o in d["options"]) + "]")
        L.append("")
        for key in ("parser", "modes", "passes"):
            for row in d.get(key, []):
                L.append(f"[[compiler.{tq(name)}.{key}]]")
                for k, v in row.items():
                    if isinstance(v, bool):
                        L.append(f"{k} = {'true' if v else 'false'}")
                    elif isinstance(v, str):
                        L.append(f"{k} = {tq(v)}")
                    else:
                        L.append(f"{k} = [" + ", ".join(tq(x) for x in v) + "]")
                L.append("")
    return "\n".join(L) + "\n"


USER_NAMES = ["cc", "c++", "mycc", "xlc", "k1", "k2", "k3", "k4", "mpicc"]
MODE_NAMES = ["m1", "m2", "m3", "openmp", "sycl", "fast"]
PASS_NAMES = ["p1", "p2", "dev-a", "dev-b", "sm_70", "sm_80", "sycl-spir64", "host2"]
MACROS = ["M1", "M2", "M3", "SHARED", "_OPENMP", "__CUDA_ARCH__", "__SYCL_DEVICE_ONLY__"]
CONST_FLAGS = ["-fmode1", "-fmode2", "-fmode3", "--long-a", "--long-b", "-x", "-y", "-qopenmp", "-fsycl", "-fopenmp", "-mfast"]
VALUE_FLAGS = ["-ftargets", "--targets", "-march", "--offload-arch", "-fsycl-targets", "--gpu-architecture", "-gencode", "-Xarch"]
# one regular expression per flag spelling, so that the harness-supplied match table is unambiguous
FLAG_PATTERN = {"-ftargets": r"[a-z]+\d*", "--targets": r"t(\d)", "-march": r"(?:sm_|compute_)(\d+)", "--offload-arch": r"[a-z0-9_]+",
                "-fsycl-targets": r"spir64\w*", "--gpu-architecture": r"(?:sm_|compute_)(\d+)", "-gencode": r"(?:sm_|compute_)(\d+)", "-Xarch": r"^x(\d)"}  # `^` is outside the fragment of Model/Regex.lean: this flag keeps the table path alive
VALUES = ["a,b", "a", "b:c", "t1,t2", "sm_70", "sm_80,sm_70", "arch=compute_80,code=sm_80", "x1 x2", "spir64,spir64_gen", "dev-a,dev-b", "p1", "p1,p2", "1,2", "", "zz"]


def gen_lists(rng, heavy=False):
    out = {}
    if rng.random() < (0.85 if heavy else 0.6):
        out["defines"] = [rng.choice(MACROS) + rng.choice(["", "", "=1", "=2", "=800"]) for _ in range(rng.randint(1, 2))]
    if rng.random() < 0.35:
        out["include_paths"] = [rng.choice(["/opt/m/inc", "minc", "/usr/x"]) for _ in range(rng.randint(1, 2))]
    if rng.random() < 0.3:
        out["include_files"] = [rng.choice(["pre_a.h", "pre_b.h"])]
    return out


def gen_definition(rng, name, taken_flags, hazards):
    """a non-alias compiler table + the item list of its implicit options; `hazards` collects what makes
    the case ill-formed for the spec (crash-prone configuration the property says nothing about)"""
    d = {}
    modes = rng.sample(MODE_NAMES, rng.randint(0, 3))
    passes = rng.sample(PASS_NAMES, rng.randint(0, 3))
    rules = []
    flags_here = set(taken_flags)
    for _ in range(rng.randint(0, 4)):
        act = rng.choice(["append_const", "append_const", "store_split", "extend_match", "append"])
        pool = CONST_FLAGS if act == "append_const" else VALUE_FLAGS
        avail = [f for f in pool if f not in flags_here]
        if not avail:
            continue
        fl = rng.sample(avail, min(len(avail), rng.choice([1, 1, 1, 2])))
        if rng.random() < 0.03 and flags_here:
            fl = [rng.choice(sorted(flags_here))]  # conflicting option string
            hazards.add("conflict")
        flags_here.update(fl)
        r = {"flags": fl, "action": act}
        if act == "append_const":
            r["dest"] = rng.choice(["modes", "modes", "modes", "defines", "passes", "include_paths", "include_files", "other"])
            if r["dest"] == "modes":
                r["const"] = rng.choice(modes + ["ghost"]) if (modes and rng.random() < 0.9) else "ghost"
            elif r["dest"] == "passes":
                r["const"] = rng.choice(passes + ["nopass"]) if (passes and rng.random() < 0.85) else "nopass"
            elif r["dest"] == "defines":
                r["const"] = rng.choice(MACROS) + rng.choice(["", "=7"])
            else:
                r["const"] = rng.choice(["cdir", "/c/abs", "cfile.h"])
        elif act == "append":
            r["dest"] = rng.choice(["defines", "include_paths", "include_files", "passes", "modes"])
        else:
            r["dest"] = rng.choice(["passes", "passes", "passes", "defines", "modes", "include_paths"])
            fmt = rng.choice([None, None, "$value", "p-$value", "${value}_s", "$$$value", "dev-$value", "sm_$value"])
            if rng.random() < 0.02:
                fmt = rng.choice(["$other", "$", "${value"])
                hazards.add("template")
            if fmt is not None:
                r["format"] = fmt
            if act == "store_split":
                sep = rng.choice([",", ",", ":", None, ","])
                if rng.random() < 0.02:
                    sep = ""
                    hazards.add("emptysep")
                if sep is not None:
                    r["sep"] = sep
            else:
                r["pattern"] = FLAG_PATTERN.get(fl[0], r"[a-z]+")
                if rng.random() < 0.5:
                    r["override"] = rng.random() < 0.7
            if r["dest"] == "passes" and rng.random() < 0.6:
                if rng.random() < 0.06:
                    r["default"] = rng.choice(["p1", "ab"])  # a string default: list("p1") == ["p", "1"]
                else:
                    r["default"] = [rng.choice(passes + ["ghostpass"]) if passes else "ghostpass" for _ in range(rng.randint(1, 2))]
        rules.append(r)
    if rules:
        d["parser"] = rules
    if modes:
        d["modes"] = [dict(name=m, **gen_lists(rng, heavy=True)) for m in modes]
        if rng.random() < 0.05:
            d["modes"].append(dict(name=modes[0], **gen_lists(rng, heavy=True)))  # duplicate name inside one table
    if passes:
        d["passes"] = []
        for p in passes:
            row = dict(name=p, **gen_lists(rng, heavy=True))
            if rng.random() < 0.6:
                row["modes"] = [rng.choice(modes + ["ghost"]) if modes else "ghost" for _ in range(rng.randint(1, 2))]
            d["passes"].append(row)
    opt_items = []
    if rng.random() < 0.6:
        for _ in range(rng.randint(1, 3)):
            c = rng.random()
            if c < 0.45:
                opt_items.append(("D", rng.choice(["IMP1", "IMP2=3", "SHARED=9", "__MYCC__"]), rng.random() < 0.7))
            elif c < 0.6:
                opt_items.append(("I", rng.choice(["/opt/imp/inc", "impinc"]), rng.random() < 0.7))
            elif c < 0.7:
                opt_items.append(("isystem", "/sys/imp"))
            elif c < 0.8:
                opt_items.append(("include", "imp.h"))
            elif rules:
                i = rng.randrange(len(rules))
                opt_items.append(("ruleidx", i))
        # rule references are resolved (absolute index in the merged rule list) by the caller
    if not d and not opt_items:
        d["options"] = []
    return d, opt_items


def rule_item(rng, rules, i, spelling=None):
    r = rules[i]
    sp = spelling or rng.choice(r["flags"])
    if r["action"] == "append_const":
        return ("rule", i, sp, None, None)
    val = rng.choice(VALUES)
    if r["action"] == "store_split" and r.get("sep") == ":":
        val = val.replace(",", ":")
    form = rng.choice(["eq", "sep"])
    if val == "" or val.startswith("-"):
        form = "eq"
    return ("rule", i, sp, val, form)


def gen_config(rng, builtin):
    """random user configuration: returns (defs, option_items {compiler name: items}, hazards)"""
    hazards = set()
    builtin_defs = {}
    for f in builtin:
        builtin_defs.update(f.get("compiler", {}))
    n = rng.randint(1, 5)
    names = rng.sample(USER_NAMES + BUILTIN_COMPILERS, n)
    defs = []
    opt_items = {}
    shape = rng.random()
    for idx, name in enumerate(names):
        if rng.random() < 0.45:
            pool = names + BUILTIN_COMPILERS + ["nope"]
            if shape < 0.3 and idx + 1 < len(names):
                tgt = names[idx + 1]  # forward chain
            elif shape < 0.45 and idx > 0:
                tgt = names[rng.randrange(idx + 1)]  # back edge: loops, rho shapes, self loops
            else:
                tgt = rng.choice(pool)
            if rng.random() < 0.02:
                tgt = ""
            defs.append((name, {"alias_of": tgt}))
        else:
            base = builtin_defs.get(name, {})
            taken = set()
            if "alias_of" not in base:
                for r in base.get("parser", []):
                    taken.update(r["flags"])
            d, items = gen_definition(rng, name, taken, hazards)
            nb = 0 if "alias_of" in base else len(base.get("parser", []))
            rules_all = ([] if "alias_of" in base else list(base.get("parser", []))) + d.get("parser", [])
            resolved = []
            for it in items:
                if it[0] == "ruleidx":
                    resolved.append(rule_item(rng, rules_all, nb + it[1]))
                else:
                    resolved.append(it)
            if resolved:
                d["options"] = render(resolved, rules_all)
            opt_items[name] = resolved
            defs.append((name, d))
    r = rng.random()
    if r < 0.03:
        defs.append(("badboth", {"alias_of": "gcc", "options": ["-DX"]}))
        hazards.add("invalid")
    elif r < 0.05:
        defs.append(("empty", {}))
        hazards.add("invalid")
    return defs, opt_items, hazards


def fixed_items(rng):
    out = []
    for _ in range(rng.randint(0, 3)):
        c = rng.random()
        if c < 0.4:
            out.append(("D", rng.choice(["A", "B=2", "SHARED=1", "M1=5", "_OPENMP=1"]), rng.random() < 0.7))
        elif c < 0.48:
            out.append(("U", rng.choice(["A", "B", "SHARED", "M1", "_OPENMP"]), rng.random() < 0.7))
        elif c < 0.6:
            out.append(("I", rng.choice(["inc", "/abs/inc", "src/util"]), rng.random() < 0.6))
        elif c < 0.7:
            out.append(("isystem", rng.choice(["/sys/a", "sysb"])))
        elif c < 0.8:
            out.append(("include", rng.choice(["f.h", "g.h"])))
        else:
            out.append(("raw", rng.choice([["-O2"], ["-o", "x.o"], ["-g"], ["-c"], ["-O"]])))
    return out


WILD = ["-DA", "-D", "A=1", "-UA", "-U", "A", "-I", "inc", "-Iinc", "-isystem", "sys", "-include", "f.h", "-O2", "-O", "-o", "x.o", "-c", "-g", "-g3", "-ggdb",
        "x.c", "y.c", "-Wall", "-std=c++17", "-", "-1", "-i", "-is", "-in", "-isystem=q", "-I=r", "a b", "-fopenmp", "-fopen", "-fsycl",
        "-fsycl-targets=spir64,spir64_gen", "-fsycl-targets", "spir64_x86_64", "--gpu-architecture=sm_80", "-gencode", "arch=compute_75,code=sm_75",
        "--gpu-code=sm_90,sm_70", "-fsycl-is-device", "-fsyc", "", "-xy", "-yx", "-x1", "-fmode", "-fmode1=", "--long", "--long-a=1", "-march", "-march=sm_70",
        "-ftarget", "--targets=t1t2", "-mfastx", "-xfoo", "-qopenmp", "--offload-arch=gfx90a", "-Xarch=x1x2", "-fmode1", "--long-b", "-y"]


def flag_subsets(rng, n, cap):
    idx = list(range(n))
    if 2 ** n <= cap:
        return [[i for i in idx if (m >> i) & 1] for m in range(2 ** n)]
    seen = {(), tuple(idx)}
    while len(seen) < cap:
        seen.add(tuple(i for i in idx if rng.random() < 0.5))
    return [list(s) for s in seen]


# --------------------------------------------------------------------------
# comparison
# --------------------------------------------------------------------------
def cfg_map(ok):
    return {c["pass"]: {k: c[k] for k in ("defines", "include_paths", "include_files")} for c in ok}


def d34_explains(comp, active, want_default, got_default):
    """the observed default-pass configuration equals the expected one for *another order* of the
    (>= 2) simultaneously active, declared modes — set iteration order, finding D34"""
    decl = [m for m in active if comp and m in comp["modes"]]
    if len(decl) < 2 or len(decl) > 6:
        return False
    base = {}
    n = {k: sum(len(comp["modes"][m].get(k, [])) for m in decl) for k in want_default}
    for k in want_default:
        base[k] = want_default[k][: len(want_default[k]) - n[k]]
    for perm in itertools.permutations(decl):
        if all(base[k] + [x for m in perm for x in comp["modes"][m].get(k, [])] == got_default[k] for k in want_default):
            return True
    return False


def d31_applies(comp, items):
    """a store_split rule selecting passes is used through a spelling other than its first one, or through two spellings"""
    if not comp:
        return False
    seen = {}
    for it in items:
        if it[0] == "rule":
            r = comp["parser"][it[1]]
            if r["action"] == "store_split" and r.get("dest") == "passes" and len(r["flags"]) > 1:
                seen.setdefault(it[1], set()).add(it[2])
    for i, sp in seen.items():
        r = comp["parser"][i]
        if len(sp) > 1 or (sp != {r["flags"][0]} and "default" in r):
            return True
    return False


def d31_extra(comp, items):
    """passes finding D31 can leave selected: the default of a multi-spelling store_split rule and the values
    given through any of its spellings"""
    out = set()
    if not comp:
        return out
    for i, r in enumerate(comp["parser"]):
        if r["action"] == "store_split" and r.get("dest") == "passes" and len(r["flags"]) > 1:
            d = r.get("default", [])
            out.update([d] if isinstance(d, str) else d)
            for it in items:
                if it[0] == "rule" and it[1] == i:
                    try:
                        out.update(_fmt(r.get("format"), v) for v in it[3].split(r.get("sep")))
                    except (ValueError, KeyError):
                        pass
    return out


def string_default(comp):
    return bool(comp) and any(r["action"] in ("store_split", "extend_match") and r.get("dest") == "passes" and isinstance(r.get("default"), str)
                              for r in comp["parser"])


class Checker:
    def __init__(self, ctx, drv, impl, builtin):
        self.ctx, self.drv, self.impl, self.builtin = ctx, drv, impl, builtin

    def run_case(self, case, replay=False):
        """case = {"stream", "config": text|None, "cmds": [{"argv0","argv","items"?,"tame"?}], "hazards": [...]}"""
        ctx = self.ctx
        if len(ctx.violations) >= 20 and not replay:
            return None  # enough failing inputs recorded; do not spend the budget on more
        text, cmds = case["config"], case["cmds"]
        hazards = set(case.get("hazards", []))
        got = self.impl.case(text, cmds)
        comps, valid = spec_load(self.builtin, text)
        model = model_case(self.drv, self.builtin, text, cmds) if self.drv is not None else None
        report = {"impl": got, "model": model, "spec": []}
        # ---- loading: user file extends the built-ins (model vs impl on the whole table)
        if got["load_exc"]:
            ctx.violation(f"_load_compilers raised {got['load_exc']}", case)
        if model is not None:
            mm = [[k, v] for k, v in model["map"]]
            gm = got["map"]
            if json.dumps(mm, sort_keys=True) != json.dumps(gm, sort_keys=True):
                ctx.corr_break("c12.load", {"config": text}, gm, mm)
            if not same_logs(got["load_logs"], model["load_logs"]):
                ctx.corr_break("c12.load_logs", {"config": text}, got["load_logs"], model["load_logs"])
        if text is not None and not valid and not any(lv == "ERROR" for lv, _ in got["load_logs"]):
            ctx.violation("an unreadable / schema-invalid .cbi/config was not reported", case)
        # spec: names and shapes of the loaded table
        want_names = list(comps)
        got_names = [k for k, _ in got["map"]]
        if sorted(want_names) != sorted(got_names):
            ctx.violation(f"compilers known after loading: {sorted(got_names)} expected {sorted(want_names)}", case)
        for ci, (cmd, g) in enumerate(zip(cmds, got["results"])):
            name = os.path.basename(cmd["argv0"])
            sub = {"stream": case["stream"], "config": text, "cmds": [cmd], "hazards": sorted(hazards)}
            want_res = spec_resolve(comps, name)
            comp = comps[want_res[1]] if want_res[0] == "found" else None
            key = f"{case['stream']}:{want_res[0]}"
            ctx.count(key=key)
            # ---- resolution: reported, never hanging / crashing
            if g.get("exc") == "HANG":
                ctx.violation(f"ArgumentParser('{name}') did not return within {TIME_LIMIT}s (alias walk does not terminate); expected {want_res}", sub)
                continue
            empty_alias = any("alias_of" in c and c["alias_of"] == "" for c in comps.values())
            if g["resolved"] != want_res:
                ctx.classify(sub, f"alias resolution of '{name}': implementation reports {g['resolved']}, expected {want_res}",
                             [("F-C12-3", lambda c, ea=empty_alias: ea)])
                if not empty_alias:
                    continue
            # ---- model vs implementation
            m = model["results"][ci] if model is not None else None
            d34_seen = False
            if m is not None:
                if "exc" in g or "exc" in m:
                    if g.get("exc") != m.get("exc"):
                        ctx.corr_break("c12.parse_exc", sub, g.get("exc", "ok"), m.get("exc", "ok"))
                else:
                    if g["ok"] != m["ok"]:
                        gm, mm = cfg_map(g["ok"]), cfg_map(m["ok"])
                        same_but_default = set(gm) == set(mm) and all(gm[p] == mm[p] for p in gm if p != "default") and len(g["ok"]) == len(m["ok"])
                        active = spec_active_from_model(comp, mm, gm)
                        if same_but_default and comp and "default" in gm and any(
                                d34_explains(comp, list(a), mm["default"], gm["default"]) for a in active):
                            d34_seen = True
                        else:
                            ctx.corr_break("c12.parse", sub, g["ok"], m["ok"])
                    if not same_logs(g["logs"], m["logs"]):
                        ctx.corr_break("c12.logs", sub, g["logs"], m["logs"])
            # ---- implementation vs property (tame command lines of well-formed configurations only)
            items = cmd.get("items")
            spec_rec = {"resolved": want_res}
            if items is not None and valid and not hazards and want_res[0] in ("found", "notRecognized", "loop", "unknownTarget"):
                its = [tuple(i) for i in items]
                rules_now = comp["parser"] if comp else []
                if any(i[0] == "rule" and (i[1] >= len(rules_now) or i[2] not in rules_now[i[1]]["flags"]) for i in its):
                    # a stored case whose items refer to rules the (changed) tables no longer have: no spec verdict
                    spec_rec["skipped"] = "items refer to parser rules that no longer exist"
                    report["spec"].append(spec_rec)
                    continue
                if comp is not None:
                    imp = implicit_items(comp)
                    if imp is None:
                        spec_rec["skipped"] = "implicit options of the resolved compiler have no item form"
                        report["spec"].append(spec_rec)
                        continue
                    its = its + [tuple(i) for i in imp]
                try:
                    want, active = spec_configs(comp, its)
                except (KeyError, ValueError) as e:
                    # a `format` that string.Template cannot substitute in a configuration without generated hazards
                    # (e.g. an edited shipped rule): the flag cannot contribute what is declared for it
                    ctx.violation(f"'{name}' {cmd['argv']}: the format of a parser rule cannot be substituted ({type(e).__name__}: {e}); "
                                  f"implementation: {g.get('exc', 'no exception')}", sub)
                    spec_rec["skipped"] = "format of a rule cannot be substituted"
                    report["spec"].append(spec_rec)
                    continue
                spec_rec["configs"] = want
                nontriv = len(want) > 1 or any(len(v["defines"]) > sum(1 for i in its if i[0] == "D") for v in want.values())
                if nontriv:
                    ctx.nontrivial.add(json.dumps([text, cmd["argv0"], cmd["argv"]]))
                if "exc" in g:
                    ctx.violation(f"parse_args raised {g['exc']} on a well-formed command line {cmd['argv']} of '{name}'", sub)
                else:
                    gm = cfg_map(g["ok"])
                    if len(g["ok"]) != len(gm):
                        ctx.violation(f"more than one configuration for one pass: {[c['pass'] for c in g['ok']]}", sub)
                    elif gm != want:
                        what = f"'{name}' {cmd['argv']}: configurations {json.dumps(gm, sort_keys=True)} expected {json.dumps(want, sort_keys=True)}"
                        # known findings may combine: D31 adds configurations for passes the flag should have
                        # replaced, D34 permutes the mode contributions of the default pass
                        reasons = []
                        g2 = dict(gm)
                        if string_default(comp):
                            reasons.append("F-C12-4")
                            g2 = want
                        if g2 != want and d31_applies(comp, its) and set(want) < set(g2) and set(g2) - set(want) <= d31_extra(comp, its) and all(g2[p] == want[p] for p in want if p != "default"):
                            reasons.append("D31")
                            g2 = {p: g2[p] for p in want}
                        if g2 != want and set(g2) == set(want) and "default" in g2 and all(g2[p] == want[p] for p in g2 if p != "default") \
                                and d34_explains(comp, active, want["default"], g2["default"]):
                            reasons.append("D34")
                            g2 = want
                        if g2 != want or not reasons:
                            ctx.violation(what, sub)
                        else:
                            for fid in reasons:
                                ctx.classify(sub, what, [(fid, lambda c: True)])
                    elif d34_seen:
                        pass
            report["spec"].append(spec_rec)
            nshown = sum(1 for x in ctx.samples if x.get("stream") == case["stream"])
            if nshown < 3 and (len(g.get("ok", [])) > 1 or want_res[0] != "found"):
                ctx.sample({"stream": case["stream"], "argv0": cmd["argv0"], "argv": cmd["argv"], "resolved": want_res,
                            "passes": [c["pass"] for c in g.get("ok", [])]}, cap=16)
        return report


def spec_active_from_model(comp, mm, gm):
    """candidate sets of active modes for the D34 tolerance of the model comparison: every subset order is tried
    inside d34_explains; here we only need the set of declared modes that could be active"""
    if not comp:
        return []
    names = list(comp["modes"])
    out = []
    for k in range(2, min(len(names), 4) + 1):
        for sub in itertools.combinations(names, k):
            out.append(sub)
    return out


# --------------------------------------------------------------------------
# streams
# --------------------------------------------------------------------------
def merged_rules(comps, name):
    res = spec_resolve(comps, name)
    if res[0] != "found":
        return res, None
    return res, comps[res[1]]


def items_of_argv(args, rules):
    """left-to-right reading of a list of option strings as items (the property's reading of implicit options);
    None when an element is not of a form whose meaning is fixed by the property"""
    const = {f: i for i, r in enumerate(rules) if r["action"] == "append_const" for f in r["flags"]}
    valued = {f: i for i, r in enumerate(rules) if r["action"] != "append_const" for f in r["flags"]}
    out = []
    k = 0
    while k < len(args):
        a = args[k]
        nxt = args[k + 1] if k + 1 < len(args) else None
        if a in const:
            out.append(("rule", const[a], a, None, None))
        elif a in valued:
            if nxt is None or nxt.startswith("-"):
                return None
            out.append(("rule", valued[a], a, nxt, "sep"))
            k += 1
        elif "=" in a and a.split("=", 1)[0] in valued:
            f, v = a.split("=", 1)
            out.append(("rule", valued[f], f, v, "eq"))
        elif a in ("-D", "-I", "-isystem", "-include", "-U"):
            if nxt is None or nxt.startswith("-"):
                return None
            out.append(({"-D": "D", "-I": "I", "-isystem": "isystem", "-include": "include", "-U": "U"}[a], nxt, False))
            k += 1
        elif a.startswith("-D") or a.startswith("-I") or a.startswith("-U"):
            out.append((a[1], a[2:], True))
        else:
            return None
        k += 1
    return [tuple(i[:2]) if i[0] in ("isystem", "include") else i for i in out]


def implicit_items(comp):
    return items_of_argv(comp["options"], comp["parser"]) if comp else []


def tame_cmds(rng, comps, name, cap, argv0=None):
    res, comp = merged_rules(comps, name)
    cmds = []
    rules = comp["parser"] if comp else []
    usable = [i for i, r in enumerate(rules) if r["action"] in ("append_const", "append", "store_split", "extend_match")]
    for sub in flag_subsets(rng, len(usable), cap):
        items = fixed_items(rng)
        for k in sub:
            items.insert(rng.randint(0, len(items)), rule_item(rng, rules, usable[k]))
            if rng.random() < 0.2:
                items.insert(rng.randint(0, len(items)), rule_item(rng, rules, usable[k]))  # the same rule used twice
        items.append(("file", rng.choice(["a.c", "src/b.cpp"])))
        cmds.append({"argv0": argv0 or rng.choice([name, "/usr/bin/" + name, "bin/" + name]), "argv": render(items, rules),
                     "items": [list(i) for i in items]})
    return cmds


def stream_corpus(ck):
    """minimised past failures and the witnesses of the recorded findings, replayed first"""
    d = core.VERIF / "corpus" / "C12"
    for f in sorted(d.glob("*.json")):
        case = json.loads(f.read_text())
        # tame items of the finding witnesses are not stored: give the spec the items it can read off safely
        ck.run_case(case)


def stream_builtin(ck, rng):
    """the four built-in files with every documented flag combination, both spellings of flag values"""
    ctx = ck.ctx
    comps, _ = spec_load(ck.builtin, None)
    cmds = []
    targets = ["spir64", "spir64_x86_64", "spir64_gen", "spir64_fpga", "nvptx64-nvidia-cuda", "amdgcn"]
    archs = ["sm_70", "sm_75", "sm_80", "sm_89", "sm_90", "compute_80", "sm_60"]
    for name in BUILTIN_COMPILERS + ["cl", "/opt/bin/g++"]:
        res, comp = merged_rules(comps, os.path.basename(name))
        rules = comp["parser"] if comp else []
        per_rule = []
        for i, r in enumerate(rules):
            alts = [None]
            if r["action"] == "append_const":
                alts += [("rule", i, f, None, None) for f in r["flags"]]
            elif r["action"] == "store_split":
                vals = [",".join(c) for k in (1, 2, 3) for c in itertools.combinations(targets, k)]
                if not ctx.thorough():
                    vals = rng.sample(vals, min(len(vals), 10))
                alts += [("rule", i, f, v, form) for f in r["flags"] for v in vals for form in ("eq", "sep")]
            elif r["action"] == "extend_match":
                vals = archs + [a + "," + b for a in archs[:4] for b in archs[2:6]] + ["arch=compute_75,code=sm_75", "arch=compute_80,code=[sm_80,sm_90]"]
                if not ctx.thorough():
                    vals = rng.sample(vals, min(len(vals), 6))
                one = [("rule", i, f, v, form) for f in r["flags"] for v in vals for form in ("eq", "sep")]
                alts += [(o,) for o in one]
                alts += [(a, b) for a in rng.sample(one, min(len(one), ctx.n(5, 30))) for b in rng.sample(one, min(len(one), ctx.n(3, 10)))]
            per_rule.append(alts)
        combos = itertools.product(*per_rule) if per_rule else [()]
        combos = list(combos)
        limit = ctx.n(220, 6000)
        if len(combos) > limit:
            combos = rng.sample(combos, limit)
        for combo in combos:
            items = [("D", "USER", True)]
            for alt in combo:
                if alt is None:
                    continue
                if alt and alt[0] == "rule":
                    items.append(alt)
                else:
                    items.extend(alt)
            rng.shuffle(items)
            items.append(("file", "t.cpp"))
            cmds.append({"argv0": name, "argv": render(items, rules), "items": [list(i) for i in items]})
    for k in range(0, len(cmds), 60):
        ck.run_case({"stream": "builtin", "config": None, "cmds": cmds[k:k + 60], "hazards": []})


def stream_random(ck, rng, n_cfg, per_cfg):
    for _ in range(n_cfg):
        defs, opt_items, hazards = gen_config(rng, ck.builtin)
        text = toml_text(defs)
        if rng.random() < 0.02:
            text = "this is [not toml\n"
            hazards.add("invalid")
        comps, valid = spec_load(ck.builtin, text)
        if not valid:
            opt_items = {}
        cmds = []
        names = [n for n, _ in defs] + rng.sample(BUILTIN_COMPILERS, 2) + ["unknowncc"]
        for name in names:
            cmds += tame_cmds(rng, comps, name, cap=per_cfg)
            for _ in range(max(2, per_cfg // 3)):
                cmds.append({"argv0": name, "argv": [rng.choice(WILD) for _ in range(rng.randint(0, 6))]})
        ck.run_case({"stream": "random", "config": text, "cmds": cmds, "hazards": sorted(hazards)})


def stream_implicit(ck, rng, n_cfg):
    """implicit == explicit, on the implementation itself: the same user compiler with its `options` removed
    and the options appended to every command line must give the same configurations"""
    ctx = ck.ctx
    for _ in range(n_cfg):
        defs, opt_items, hazards = gen_config(rng, ck.builtin)
        if hazards:
            continue
        victims = [(n, d) for n, d in defs if "alias_of" not in d and d.get("options") and n not in ("nvcc",)]
        if not victims:
            continue
        comps, _ = spec_load(ck.builtin, toml_text(defs))
        name, d = rng.choice(victims)
        defs2 = [(n, ({k: v for k, v in dd.items() if k != "options"} or {"options": []}) if n == name else dd) for n, dd in defs]
        cmds = tame_cmds(rng, comps, name, cap=6, argv0=name)
        cmds += [{"argv0": name, "argv": [rng.choice(WILD) for _ in range(rng.randint(0, 5))]} for _ in range(4)]
        a = ck.impl.case(toml_text(defs), cmds)
        b = ck.impl.case(toml_text(defs2), [{"argv0": c["argv0"], "argv": c["argv"] + d["options"]} for c in cmds])
        for c, ra, rb in zip(cmds, a["results"], b["results"]):
            ctx.count(key="implicit==explicit")
            ka = ra.get("exc") or cfg_map(ra["ok"])
            kb = rb.get("exc") or cfg_map(rb["ok"])
            if ka != kb:
                case = {"stream": "implicit", "config": toml_text(defs), "config_without_options": toml_text(defs2),
                        "cmds": [c], "options": d["options"], "hazards": []}
                # modes are applied in set order (D34): tolerate a permutation of mode contributions only
                if isinstance(ka, dict) and isinstance(kb, dict) and set(ka) == set(kb) and all(
                        sorted(ka[p][k]) == sorted(kb[p][k]) for p in ka for k in ka[p]) and all(ka[p] == kb[p] for p in ka if p != "default"):
                    ctx.classify(case, "implicit vs explicit options differ in the order of mode contributions", [("D34", lambda c: True)])
                else:
                    ctx.violation(f"implicit options {d['options']} of '{name}' do not behave as if appended: {ka} vs {kb} for {c['argv']}", case)


D34_SNIPPET = r"""
import sys, json
sys.path.insert(0, sys.argv[1])
import logging; logging.disable(logging.CRITICAL)
import warnings; warnings.simplefilter("ignore")
from codebasin import config
out = []
for argv0, argv in json.loads(sys.argv[2]):
    cfgs = config.ArgumentParser(argv0).parse_args(argv)
    out.append(sorted([c.pass_name, c.defines, c.include_paths, c.include_files] for c in cfgs))
print(json.dumps(out))
"""


def stream_hashseed(ck):
    """the same command line in fresh interpreters with different string-hash seeds (D34: `set(args.modes)`)"""
    ctx = ck.ctx
    cmds = [["icx", ["-fopenmp", "-fsycl", "x.cpp"]], ["icpx", ["-fsycl", "-fopenmp", "-fsycl-targets=spir64_gen", "x.cpp"]]]
    outs = {}
    with core.Scratch() as d:
        for seed in range(ctx.n(6, 16)):
            env = dict(os.environ, PYTHONHASHSEED=str(seed))
            p = subprocess.run([sys.executable, "-c", D34_SNIPPET, str(core.REPO), json.dumps(cmds)], cwd=str(d), env=env,
                               capture_output=True, text=True, timeout=120)
            ctx.count(key="hashseed")
            if p.returncode != 0:
                ctx.notes.append("hash-seed probe failed: " + p.stderr[-300:])
                return
            outs.setdefault(p.stdout.strip(), []).append(seed)
    if len(outs) > 1:
        variants = [json.loads(k) for k in outs]
        same_multiset = all(
            [[c[0], sorted(c[1]), c[2], c[3]] for cmd in v for c in cmd] == [[c[0], sorted(c[1]), c[2], c[3]] for cmd in variants[0] for c in cmd]
            for v in variants)
        case = {"stream": "hashseed", "cmds": cmds, "seeds_by_output": list(outs.values())}
        ctx.classify(case, f"configurations of {cmds[0]} differ between PYTHONHASHSEED values {list(outs.values())}",
                     [("D34", lambda c: same_multiset)])


# ---- end to end: per-line attribution through load_database + finder.find
def _num(d, k):
    try:
        return int(d.get(k, "0"))
    except ValueError:
        return 0


# the conditionals the generated sources use, with their meaning on a table {macro: value}
CONDS = {
    "#ifdef _OPENMP": lambda d: "_OPENMP" in d,
    "#ifndef _OPENMP": lambda d: "_OPENMP" not in d,
    "#ifdef __SYCL_DEVICE_ONLY__": lambda d: "__SYCL_DEVICE_ONLY__" in d,
    "#if defined(__CUDA_ARCH__)": lambda d: "__CUDA_ARCH__" in d,
    "#if __CUDA_ARCH__ >= 800": lambda d: _num(d, "__CUDA_ARCH__") >= 800,
    "#if defined(__CUDA_ARCH__) && __CUDA_ARCH__ < 800": lambda d: "__CUDA_ARCH__" in d and _num(d, "__CUDA_ARCH__") < 800,
    "#if defined(SYCL_LANGUAGE_VERSION) && !defined(__SYCL_DEVICE_ONLY__)": lambda d: "SYCL_LANGUAGE_VERSION" in d and "__SYCL_DEVICE_ONLY__" not in d,
    "#ifdef __NVCC__": lambda d: "__NVCC__" in d,
    "#ifdef M1": lambda d: "M1" in d,
    "#if defined(M2) || defined(IMP1)": lambda d: "M2" in d or "IMP1" in d,
    "#ifdef HDR_A": lambda d: "HDR_A" in d,
    "#ifdef HDR_C": lambda d: "HDR_C" in d,
    "#ifdef CFG_A": lambda d: "CFG_A" in d,
    "#if defined(CFG_B) && !defined(CFG_A)": lambda d: "CFG_B" in d and "CFG_A" not in d,
    "#ifdef USER": lambda d: "USER" in d,
    "#if defined(_OPENMP) && defined(__SYCL_DEVICE_ONLY__)": lambda d: "_OPENMP" in d and "__SYCL_DEVICE_ONLY__" in d,
    "#if defined(EXTRA_NV) && __CUDA_ARCH__ == 750": lambda d: "EXTRA_NV" in d and _num(d, "__CUDA_ARCH__") == 750,
}


def gen_guarded_source(rng):
    """lines `int L<k>;` nested in conditionals over the macros that modes / passes / implicit options define"""
    lines = []
    counter = [0]
    conds = sorted(CONDS)

    def block(depth):
        for _ in range(rng.randint(1, 3)):
            if depth > 0 and rng.random() < 0.6:
                lines.append(rng.choice(conds))
                block(depth - 1)
                if rng.random() < 0.5:
                    lines.append("#else")
                    block(depth - 1)
                lines.append("#endif")
            else:
                counter[0] += 1
                lines.append(f"int L{counter[0]};")

    block(2)
    return lines


def active_lines(lines, d):
    """physical numbers of the `int L<k>;` lines a C preprocessor keeps for the macro table d"""
    out = set()
    stack = []  # (parent active, this branch active)
    for no, ln in enumerate(lines, 1):
        cur = all(a for _, a in stack) if stack else True
        if ln in CONDS:
            stack.append((cur, CONDS[ln](d)))
        elif ln == "#else":
            par, a = stack.pop()
            stack.append((par, not a))
        elif ln == "#endif":
            stack.pop()
        elif cur:
            out.add(no)
    return out


def defs_dict(defines):
    out = {}
    for s in defines:
        n, _, v = s.partition("=")
        out.setdefault(n, v if "=" in s else "1")  # the first definition of a name is the one in force
    return out


E2E_USER = """
[compiler.mycc]
options = ["-DIMP1"]

[[compiler.mycc.parser]]
flags = ["-fmode1"]
action = "append_const"
dest = "modes"
const = "m1"

[[compiler.mycc.parser]]
flags = ["-ftargets", "--targets"]
action = "store_split"
sep = ","
format = "dev-$value"
dest = "passes"

[[compiler.mycc.modes]]
name = "m1"
defines = ["M1"]
include_files = ["pre_a.h"]

[[compiler.mycc.passes]]
name = "dev-a"
defines = ["M2", "__CUDA_ARCH__=900"]

[[compiler.mycc.passes]]
name = "dev-b"
defines = ["__SYCL_DEVICE_ONLY__"]
modes = ["m1"]

[[compiler.mycc.passes]]
name = "dev-c"
include_files = ["pre_c.h"]

[compiler.mpicc]
alias_of = "mycc"

[compiler.nvcc]
options = ["-DEXTRA_NV"]
"""
E2E_HEADERS = {"pre_a.h": "#define HDR_A 1\n", "pre_c.h": "#define HDR_C 1\n"}
# `#include <cfg.h>` (first line of some sources) is found in the first -I directory that has it
E2E_INCDIRS = {"inc_a": "#define CFG_A 1\n", "inc_b": "#define CFG_B 1\n"}
CFG_INCLUDE = "#include <cfg.h>"


def gen_e2e(rng, builtin, force_twin=False):
    """force_twin: every command gets a twin that differs from it only in what it includes, and every source includes the
    configuration header (so the include directories decide which lines are used)"""
    comps, _ = spec_load(builtin, E2E_USER)
    case = {"stream": "e2e", "config": E2E_USER, "sources": {}, "platforms": {}}
    for k in range(rng.randint(1, 2)):
        case["sources"][f"s{k}.cpp"] = ([CFG_INCLUDE] if (force_twin or rng.random() < 0.6) else []) + gen_guarded_source(rng)
    for pname in rng.sample(["cpu", "gpu", "fpga", "host"], rng.randint(1, 3)):
        entries = []
        for _c in range(rng.randint(1, 2)):
            nm = rng.choice(sorted(case["sources"]))
            comp_name = rng.choice(["gcc", "clang++", "icpx", "icx", "nvcc", "mycc", "mpicc", "unknowncc"])
            _res, comp = merged_rules(comps, comp_name)
            rules = comp["parser"] if comp else []
            items = []
            if rng.random() < 0.4:
                items.append(("D", "USER", True))
            for i, r in enumerate(rules):
                if rng.random() < 0.5:
                    if r["action"] == "append_const":
                        items.append(("rule", i, rng.choice(r["flags"]), None, None))
                    elif r["action"] == "store_split":
                        pool = ["a", "b", "a,b", "c", "a,c", "c,b"] if comp_name in ("mycc", "mpicc") else ["spir64", "spir64_gen,nvptx64-nvidia-cuda", "spir64_x86_64"]
                        items.append(("rule", i, r["flags"][0], rng.choice(pool), rng.choice(["eq", "sep"])))
                    elif r["action"] == "extend_match":
                        items.append(("rule", i, rng.choice(r["flags"]), rng.choice(["sm_80", "sm_70,sm_90", "arch=compute_75,code=sm_75"]), "eq"))
            for dname in rng.sample(sorted(E2E_INCDIRS), rng.choice([0, 0, 1, 1, 2])):
                items.append(("I", dname, rng.random() < 0.5))
            rng.shuffle(items)
            items.append(("raw", ["-c"]))
            items.append(("file", nm))
            cname = rng.choice([comp_name, "/usr/bin/" + comp_name])
            entries.append({"file": nm, "compiler": cname, "argv": render(items, rules), "items": [list(i) for i in items]})
            if force_twin or rng.random() < 0.35:
                # a second command for the same file that differs from the first only in what it includes
                # (other -I directories, or a flag whose passes declare include files only)
                twin = [i for i in items if i[0] != "I" and not (i[0] == "rule" and rules[i[1]]["action"] == "store_split")]
                extra = [("I", dn, rng.random() < 0.5) for dn in rng.sample(sorted(E2E_INCDIRS), rng.randint(1 if force_twin else 0, 2))]
                if comp_name in ("mycc", "mpicc") and rng.random() < 0.6:
                    i_split = next(i for i, r in enumerate(rules) if r["action"] == "store_split")
                    extra.append(("rule", i_split, rules[i_split]["flags"][0], "c", rng.choice(["eq", "sep"])))
                twin = extra + twin
                entries.append({"file": nm, "compiler": cname, "argv": render(twin, rules), "items": [list(i) for i in twin]})
        case["platforms"][pname] = entries
    return case


def e2e_case(ck, case):
    """'A line is attributed to a platform if any pass of any of its commands uses it.'"""
    ctx = ck.ctx
    from codebasin import CodeBase, config, finder
    from harness.gen import codebase as cbgen

    comps, _ = spec_load(ck.builtin, case["config"])
    srcs = case["sources"]
    want = {nm: {no: set() for no in _code_lines(lines)} for nm, lines in srcs.items()}
    spec_entries = []
    for pname, entries in case["platforms"].items():
        for e in entries:
            _res, comp = merged_rules(comps, os.path.basename(e["compiler"]))
            try:
                cfgs, _a = spec_configs(comp, [tuple(i) for i in e["items"]] + list(implicit_items(comp) or []))
            except (KeyError, ValueError) as ex:
                ctx.violation(f"e2e: the format of a parser rule of '{e['compiler']}' cannot be substituted ({type(ex).__name__}: {ex})", case)
                return {"skipped": "format of a rule cannot be substituted"}
            for p, cfg in cfgs.items():
                dd = defs_dict(cfg["defines"])
                for h in cfg["include_files"]:
                    for m in re.findall(r"#define (\w+)", E2E_HEADERS.get(h, "")):
                        dd.setdefault(m, "1")
                if srcs[e["file"]][0] == CFG_INCLUDE:
                    for ip in cfg["include_paths"]:
                        if ip in E2E_INCDIRS:
                            for m in re.findall(r"#define (\w+)", E2E_INCDIRS[ip]):
                                dd.setdefault(m, "1")
                            break
                for no in active_lines(srcs[e["file"]], dd):
                    if no in want[e["file"]]:
                        want[e["file"]][no].add(pname)
                spec_entries.append([e["file"], p, cfg["defines"], cfg["include_paths"], cfg["include_files"]])
    report = {"spec": {nm: {no: sorted(v) for no, v in a.items()} for nm, a in want.items()}}
    with core.Scratch() as d:
        root = os.path.realpath(str(d))
        os.makedirs(os.path.join(root, ".cbi"))
        with open(os.path.join(root, ".cbi", "config"), "w") as f:
            f.write(case["config"])
        for h, t in E2E_HEADERS.items():
            with open(os.path.join(root, h), "w") as f:
                f.write(t)
        for dn, t in E2E_INCDIRS.items():
            os.makedirs(os.path.join(root, dn))
            with open(os.path.join(root, dn, "cfg.h"), "w") as f:
                f.write(t)
        for nm, lines in srcs.items():
            with open(os.path.join(root, nm), "w") as f:
                f.write("\n".join(lines) + "\n")
        old = os.getcwd()
        os.chdir(root)
        all_cmds = []
        try:
            config._compilers = None
            cfg = {}
            impl_entries = []
            for pname, entries in case["platforms"].items():
                dbp = os.path.join(root, f"{pname}.json")
                with open(dbp, "w") as f:
                    json.dump([{"directory": root, "file": e["file"], "arguments": [e["compiler"]] + e["argv"]} for e in entries], f)
                for e in entries:
                    all_cmds.append({"argv0": e["compiler"], "argv": e["argv"], "file": e["file"], "filedir": root})
                with time_limit(20):
                    cfg[pname] = config.load_database(dbp, root)
                impl_entries += cfg[pname]
            with time_limit(60):
                st = finder.find(root, CodeBase(root), cfg, summarize_only=False)
            got = cbgen.attribution([os.path.join(root, nm) for nm in srcs], st, root)
        except BaseException as e:  # noqa
            if isinstance(e, KeyboardInterrupt):
                raise
            ctx.violation(f"end-to-end analysis raised {_exc_name(e)}: {e}", case)
            report["impl"] = _exc_name(e)
            return report
        finally:
            os.chdir(old)
            config._compilers = None
        ctx.count(key="e2e")
        report["impl"] = {nm: {no: sorted(got.get(nm, {}).get(no, ())) for no in a} for nm, a in want.items()}
        bad = []
        for nm, a in want.items():
            for no, w in a.items():
                g = set(got.get(nm, {}).get(no, ()))
                if g != w:
                    bad.append(f"{nm}:{no} attributed to {sorted(g)}, expected {sorted(w)}")
        nplat = len(case["platforms"])
        if any(0 < len(v) < max(nplat, 2) for a in want.values() for v in a.values()):
            ctx.nontrivial.add(json.dumps(case["platforms"], sort_keys=True))
        if bad:
            ctx.violation("per-line attribution: " + "; ".join(bad[:3]), case)
        # entries of load_database: one per declared pass (spec), and the model's entries
        ge = sorted(([os.path.relpath(e["file"], root), e["pass_name"], e["defines"], e["include_paths"], e["include_files"]] for e in impl_entries), key=json.dumps)

        def loose(rows):
            return sorted(([a, b, sorted(c), dd, sorted(e)] for a, b, c, dd, e in rows), key=json.dumps)

        se = [[a, b, c, [os.path.join(root, x) if not x.startswith("/") else x for x in dd], e] for a, b, c, dd, e in spec_entries]
        if loose(ge) != loose(se):
            ctx.violation(f"load_database entries {ge} expected (one per pass) {sorted(se, key=json.dumps)}", case)
        if ck.drv is not None:
            uj, toml = user_json(case["config"])
            rep = ck.drv.ask({"op": "c12", "user": uj, "matches": match_table(ck.builtin, toml, all_cmds, ck.drv), "db": True,
                              "cmds": [{"argv0": os.path.basename(c["argv0"]), "argv": c["argv"], "file": c["file"], "filedir": c["filedir"]} for c in all_cmds]})
            me = sorted(([e["file"], e["cfg"]["pass"], e["cfg"]["defines"], e["cfg"]["include_paths"], e["cfg"]["include_files"]]
                         for e in rep.get("db_entries", [])), key=json.dumps)
            report["model_entries"] = me
            if ge != me:
                if loose(ge) == loose(me) and any(k["id"] == "D34" for k in ctx.known):
                    ctx.known_finding("D34", next(k["what_fails"] for k in ctx.known if k["id"] == "D34"))
                else:
                    ctx.corr_break("c12.db", case, ge, me)
            # attribution = union over entries: `uses` observed on the real code one entry at a time, combined by the model
            if ctx.dist["e2e.attr_model"] >= ctx.n(10, 120):
                return report
            ctx.dist["e2e.attr_model"] += 1
            os.chdir(root)
            try:
                uses, conf, k = [], [], 0
                for pname, entries in cfg.items():
                    ids = []
                    for e in entries:
                        st1 = finder.find(root, CodeBase(root), {pname: [e]}, summarize_only=False)
                        a1 = cbgen.attribution([os.path.join(root, nm) for nm in srcs], st1, root)
                        uses.append([str(k), [f"{nm}:{no}" for nm in sorted(a1) for no, ps in sorted(a1[nm].items()) if ps]])
                        ids.append(str(k))
                        k += 1
                    conf.append([pname, ids])
            finally:
                os.chdir(old)
            nodes = [f"{nm}:{no}" for nm in sorted(got) for no in sorted(got[nm])]
            ra = ck.drv.ask({"op": "c12attr", "nodes": nodes, "config": conf, "uses": uses})
            mpairs = sorted(set(map(tuple, ra["pairs"])))
            gpairs = sorted((f"{nm}:{no}", p) for nm in got for no, ps in got[nm].items() for p in ps)
            if mpairs != gpairs:
                ctx.corr_break("c12.attr", case, gpairs, mpairs)
        if sum(1 for x in ctx.samples if x.get("stream") == "e2e") < 2:
            ctx.sample({"stream": "e2e", "platforms": {p: [[e["compiler"]] + e["argv"] for e in es] for p, es in case["platforms"].items()}}, cap=16)
    return report


def _code_lines(lines):
    return {no for no, ln in enumerate(lines, 1) if ln.startswith("int L")}


def stream_e2e(ck, rng, n):
    for k in range(n):
        e2e_case(ck, gen_e2e(rng, ck.builtin, force_twin=(k % 3 == 0)))


# --------------------------------------------------------------------------
# entry points
# --------------------------------------------------------------------------
def shipped_case(ck, case, g=None):
    """documented meaning of the shipped value rules vs the implementation (closed forms of Props/C12Regex.lean):
    nvcc --gpu-architecture / --gpu-code / -gencode V  selects pass sm_N for every sm_N / compute_N in V (driver op
    nv_arch = CompilersRe.nvArchs), replacing the default device pass; icx -fsycl-targets=a,b selects sycl-a, sycl-b.
    A pass yields a configuration iff it is declared in the *.toml (the pass tables themselves may be edited)."""
    ctx = ck.ctx
    cmd = case["cmds"][0]
    kind, value = case["kind"], case["value"]
    comps, _ = spec_load(ck.builtin, None)
    res, comp = merged_rules(comps, os.path.basename(cmd["argv0"]))
    if comp is None:
        return {"skipped": "compiler not in the built-in table"}
    if g is None:
        g = ck.impl.case(None, [cmd])["results"][0]
    if kind == "nvcc-arch":
        archs = ck.drv.ask({"op": "nv_arch", "values": [value]})["results"][0]
        selected = ["sm_" + a for a in archs]
    else:
        selected = ["sycl-" + t for t in value.split(",")]
    if case.get("theorem_selected") is not None and case["theorem_selected"] != selected:
        # Props/C12RegexComplete.lean (nvcc_passes_comma_list / sycl_targets_selects) gives the passes of a comma-joined list in closed form
        ctx.corr_break("c12.comma_list_theorem", case, case["theorem_selected"], selected)
    declared = set(comp["passes"])
    want = sorted({p_ for p_ in selected if p_ in declared} | {"default"})
    rep = {"impl": g, "selected_by_closed_form": selected, "expected_passes": want}
    ctx.count(key=f"shipped:{kind}")
    if len(want) > 1:
        ctx.nontrivial.add(json.dumps(["shipped", cmd["argv"]]))
    if "exc" in g:
        ctx.violation(f"parse_args raised {g['exc']} on {cmd['argv0']} {cmd['argv']}", case)
        return rep
    got = sorted(c["pass"] for c in g["ok"])
    if got != want:
        ctx.violation(f"{cmd['argv0']} {cmd['argv']}: configurations for passes {got}, the documented meaning of the flag selects {want} "
                      f"(value names {selected})", case)
    bad = sorted(m.split(": ", 1)[1] for lv, m in g["logs"] if m and m.startswith("Unrecognized compiler pass"))
    want_bad = sorted({p_ for p_ in selected if p_ not in declared})
    if bad != want_bad:
        ctx.violation(f"{cmd['argv0']} {cmd['argv']}: passes reported as unrecognized {bad}, expected {want_bad}", case)
    return rep


def stream_shipped(ck, rng, n):
    if ck.drv is None:
        return
    from harness.props import c12_regex as R
    comps, _ = spec_load(ck.builtin, None)
    cases = []
    for name, kind in (("nvcc", "nvcc-arch"), ("icx", "sycl-targets"), ("icpx", "sycl-targets")):
        res, comp = merged_rules(comps, name)
        if comp is None:
            continue
        for r in comp["parser"]:
            if kind == "nvcc-arch" and r["action"] == "extend_match" and r.get("dest") == "passes":
                vals = [R.gen_option_value(rng, VALUES) for _ in range(n)]
            elif kind == "sycl-targets" and r["action"] == "store_split" and r.get("dest") == "passes":
                tg = ["spir64", "spir64_x86_64", "spir64_gen", "spir64_fpga", "nvptx64-nvidia-cuda", "amdgcn", "x", "spir64 ", "a:b", ""]
                vals = [",".join(rng.choice(tg) for _ in range(rng.randint(1, 3))) for _ in range(n // 2)]
            else:
                continue
            vals = [(v, None) for v in vals]
            # the shapes of the all-values theorems (comma-joined lists, up to 12 names; empty / odd target names)
            for _ in range(max(4, n // 8)):
                if kind == "nvcc-arch":
                    v, ds = R.gen_arch_list(rng)
                    vals.append((v, ["sm_" + d for d in ds]))
                else:
                    fs = [rng.choice(["spir64", "spir64_x86_64", "spir64_gen", "spir64_fpga", "nvptx64-nvidia-cuda", "amdgcn", "", " ", "a b", "x$y", "spir64"])
                          for _ in range(rng.randint(1, 8))]
                    if fs != [""]:
                        vals.append((",".join(fs), ["sycl-" + x for x in fs]))
            for v, thm in vals:
                if v.startswith("-") or v.startswith(" ") or (kind == "sycl-targets" and v == ""):
                    continue
                f = rng.choice(r["flags"])
                argv = [f + "=" + v, "x.cu"] if (rng.random() < 0.5 or v == "") else [f, v, "x.cu"]
                cases.append({"stream": "shipped", "kind": kind, "value": v, "config": None, "theorem_selected": thm,
                              "cmds": [{"argv0": name, "argv": argv}], "hazards": []})
    got = ck.impl.case(None, [c["cmds"][0] for c in cases])["results"]
    for c, g in zip(cases, got):
        shipped_case(ck, c, g)


def stream_models(ck, rng):
    """Lean regex / template / split models vs CPython (harness/props/c12_regex.py)"""
    if ck.drv is None:
        return
    from harness.props import c12_regex as R
    ctx = ck.ctx
    R.stream_findall(ctx, ck.drv, rng, ck.builtin, FLAG_PATTERN, VALUES, ctx.n(3000, 20000), ctx.n(60, 500))
    R.stream_spec(ctx, ck.drv, rng, ck.builtin, FLAG_PATTERN, VALUES, ctx.n(2000, 12000), ctx.n(60, 400))
    R.stream_template(ctx, ck.drv, rng, ctx.n(400, 4000))
    R.stream_split(ctx, ck.drv, rng, ctx.n(400, 4000))


RULE = ("non-trivial = the command line selects at least one pass besides `default` or a mode / pass / implicit option "
        "contributes at least one definition beyond the -D options (distinct by configuration text + argv); "
        "end-to-end cases (1-2 sources, 1-3 platforms, user compiler with modes / passes incl. an include-only pass, -I directories holding "
        "the same header name, twin commands that differ only in what they include): at least one line is attributed to a proper, "
        "non-empty subset of the platforms")
ASSUMPTIONS = [
    "re.findall is computed by the model (Model/Regex.lean: back-tracking matcher, proved sound, complete and equal to the priority specification Spec/RegexPrio.lean on every parsed pattern; matcher and specification are tied to CPython's re by the `regex` / `regex_spec` parts of the `models` stream) for patterns of the supported fragment with at most one group; for any other pattern the harness supplies the findall results as a table (counted in extra.regex_use)",
    "string.Template, str.split (tied by the `template` / `split` streams), tomllib, jsonschema and CPython 3.12 argparse are modelled, not verified; characters are ASCII (Python's \\d \\w \\s and str.split() are Unicode aware)",
    "the shipped value rules are additionally judged against their documented meaning (nvcc: every sm_N / compute_N in the value of --gpu-architecture / --gpu-code / -gencode selects pass sm_N; icx: -fsycl-targets=a,b selects sycl-a, sycl-b): the closed forms proved in Props/C12Regex.lean",
    "command lines contain no `--` element and no option value starting with `-` (C11's recorded classes D22 / D23)",
    "set iteration order of passes is abstracted: configurations are compared as a map pass name -> configuration; the order of simultaneously active modes is finding D34",
    "include paths are clean (no `.` / `..` / `//`): normalisation belongs to C13",
    "spec-checked ('tame') command lines use exact flag spellings in `flag value` / `flag=value` form; abbreviations, clusters and junk are compared model vs implementation only",
]


def _run(ctx, drv, scale=1.0):
    ctx.rule = RULE
    ctx.assumptions = ASSUMPTIONS
    builtin = load_builtin_toml()
    with core.Scratch() as d:
        impl = Impl(d)
        ck = Checker(ctx, drv, impl, builtin)
        rng = ctx.rng
        try:
            import time as _t
            timing = {}
            for name, f in (("corpus", lambda: stream_corpus(ck)), ("builtin", lambda: stream_builtin(ck, rng)),
                            ("random", lambda: stream_random(ck, rng, ctx.n(110, 1200), 8 if not ctx.thorough() else 16)),
                            ("implicit", lambda: stream_implicit(ck, rng, ctx.n(40, 400))), ("hashseed", lambda: stream_hashseed(ck)),
                            ("e2e", lambda: stream_e2e(ck, rng, ctx.n(25, 300))),
                            ("models", lambda: stream_models(ck, rng)), ("shipped", lambda: stream_shipped(ck, rng, ctx.n(200, 2000)))):
                t0 = _t.time()
                f()
                timing[name] = round(_t.time() - t0, 1)
            ctx.extra["stream_seconds"] = timing
            ctx.extra["regex_use"] = {"patterns_computed_by_model": sorted(RE_STATS["patterns_computed_by_model"]),
                                      "patterns_on_table_path": sorted(RE_STATS["patterns_on_table_path"]),
                                      "table_rows_sent": RE_STATS["table_rows_sent"]}
        finally:
            impl.config._compilers = None


def run(ctx, drv):
    _run(ctx, drv)


def search(ctx, drv):
    """failing-input search: the same generators with the larger budget (ctx.budget_scale) — every stream
    judges the implementation directly against the property, so a found input is a replayable violation"""
    _run(ctx, None if drv is None else drv)


def replay(ctx, drv, case):
    builtin = load_builtin_toml()
    if case.get("stream") == "hashseed":
        stream_hashseed(Checker(ctx, drv, None, builtin))
        return {"violations": [w for w, _ in ctx.violations], "known": sorted(ctx.known_seen)}
    if case.get("stream") == "e2e":
        core.import_codebasin()
        rep = e2e_case(Checker(ctx, drv, None, builtin), case)
        rep["violations"] = [w for w, _ in ctx.violations]
        rep["correspondence_breaks"] = ctx.corr_breaks
        return rep
    with core.Scratch() as d:
        impl = Impl(d)
        ck = Checker(ctx, drv, impl, builtin)
        if case.get("stream") == "shipped":
            try:
                rep = shipped_case(ck, case)
            finally:
                impl.config._compilers = None
            rep["violations"] = [w for w, _ in ctx.violations]
            return rep
        try:
            rep = ck.run_case(case, replay=True)
        finally:
            impl.config._compilers = None
    rep["violations"] = [w for w, _ in ctx.violations]
    rep["known_findings"] = sorted(ctx.known_seen)
    rep["correspondence_breaks"] = ctx.corr_breaks
    rep["impl"].pop("map", None)
    if rep["model"]:
        rep["model"].pop("map", None)
    return rep
