import CbiVerif.Generated.ArgTable
/-! C11 — model of `shlex.split(s)` (CPython 3.12: `posix=True`, `whitespace_split=True`,
`commenters=''`, no punctuation characters), i.e. of `CompileCommand.arguments` for an entry
given by its `command` string.  Core Lean only.

`read_token` is a character-driven state machine with states `' '` (between tokens), `'a'` (in a
word), `'` / `"` (inside quotes) and `\` (after an escape character, remembering where to return).
A token is emitted when white space or the end of input is met in state `'a'`; an empty token
is emitted only if it was quoted (which is exactly when state `'a'` is reached with an empty token). -/
namespace CbiVerif.Shlex
open CbiVerif.Gen

abbrev Arg := List Char

inductive ShErr
  | noClosingQuotation   -- ValueError("No closing quotation")
  | noEscapedCharacter   -- ValueError("No escaped character")
  | unsupported          -- the split call left the modelled mode (posix=False, comments=True, str.split ...)
deriving DecidableEq, Repr, Inhabited

inductive Mode
  | ws        -- state ' '
  | word      -- state 'a'
  | sq        -- state "'"
  | dq        -- state '"'
  | escWord   -- state '\\', escapedstate 'a'
  | escDq     -- state '\\', escapedstate '"'
deriving DecidableEq, Repr, Inhabited

/-- `shlex.whitespace` -/
def isWs (c : Char) : Bool := c = ' ' || c = '\t' || c = '\r' || c = '\n'

/-- `go mode token emitted input` -/
def go : Mode → Arg → List Arg → List Char → Except ShErr (List Arg)
  | .ws, _, acc, [] => .ok acc
  | .word, tok, acc, [] => .ok (acc ++ [tok])
  | .sq, _, _, [] => .error .noClosingQuotation
  | .dq, _, _, [] => .error .noClosingQuotation
  | .escWord, _, _, [] => .error .noEscapedCharacter
  | .escDq, _, _, [] => .error .noEscapedCharacter
  | .ws, _, acc, c :: cs =>
    if isWs c then go .ws [] acc cs
    else if c = '\\' then go .escWord [] acc cs
    else if c = '\'' then go .sq [] acc cs
    else if c = '"' then go .dq [] acc cs
    else go .word [c] acc cs
  | .word, tok, acc, c :: cs =>
    if isWs c then go .ws [] (acc ++ [tok]) cs
    else if c = '\'' then go .sq tok acc cs
    else if c = '"' then go .dq tok acc cs
    else if c = '\\' then go .escWord tok acc cs
    else go .word (tok ++ [c]) acc cs
  | .sq, tok, acc, c :: cs =>
    if c = '\'' then go .word tok acc cs else go .sq (tok ++ [c]) acc cs
  | .dq, tok, acc, c :: cs =>
    if c = '"' then go .word tok acc cs
    else if c = '\\' then go .escDq tok acc cs
    else go .dq (tok ++ [c]) acc cs
  | .escWord, tok, acc, c :: cs => go .word (tok ++ [c]) acc cs
  | .escDq, tok, acc, c :: cs =>
    -- inside double quotes only the quote and the escape character can be escaped
    if c ≠ '\\' && c ≠ '"' then go .dq (tok ++ ['\\', c]) acc cs else go .dq (tok ++ [c]) acc cs

/-- `shlex.split(s)` -/
def shlexSplit (s : List Char) : Except ShErr (List Arg) := go .ws [] [] s

/-- the split call found in `CompileCommand.arguments` is the modelled one -/
def splitOK : Bool :=
  ArgTable.splitFn == ['s','h','l','e','x','.','s','p','l','i','t'] && ArgTable.splitPosix && !ArgTable.splitComments

/-- `CompileCommand(command=s).arguments` -/
def commandArguments (s : List Char) : Except ShErr (List Arg) :=
  if splitOK then shlexSplit s else .error .unsupported

end CbiVerif.Shlex
