import CbiVerif.Lemmas.MacroStrSim
import CbiVerif.Lemmas.MacroStrCongr
import CbiVerif.Lemmas.MacroFunSpecC
/-! # C03 — function-like macros with `#` and `##` (model = extended reference)

Model `M` = `CbiVerif.MX.cbiExpand` (the step machine the driver executes).  Reference = `CbiVerif.MX.RefS`: the recursive reference of
`Props/C03FunLike.lean` with the substituted replacement list given by the model of `MacroFunction.replace` itself
(`MX.replaceFn`: the `#` / `##` pass `strcatPass`, then `substArgs`), applied to the argument list `process_args` builds (an
argument that is only an operand of `#` / `##` is not macro-expanded).  No hypothesis about the table is left: any mix of
object-like macros and function-like macros with `#`, `##` (chains, empty operands, multi-token operands; `#` as repaired for
finding D10, see `Props/C03Stringify.lean`) — they are part of `replaceFn`; variadic macros may be defined but not called.

* `strcat_partial` — model = `RefS` on the decidable fragment `fitsbS` (every enabled function-like macro name met during the run
  is followed, in the same token list, by a complete call on which `replaceFn` succeeds, or by a token other than `(`; no
  `defined`; nesting budget not exhausted);
* `terminates_strcat_partial`, `no_backstop_strcat` — `costS + 2` loop iterations suffice; the `max_level` backstop plays no role.

What this isolates: against the specification only the *non-recursive* function `replaceFn` remains to be compared with
`Spec.Prosser.subst` (6.10.3.2 / 6.10.3.3) — not proved here (`StrcatConformsFull`); the recursion, rescanning, painting and
argument pre-expansion around it are discharged. -/
namespace CbiVerif.C03
open CbiVerif.PP CbiVerif.MX

/-- **macros with `#` / `##`, model side**: for every table, every nesting budget `d` with `d + 1 < max_level` and every text inside
    the fragment for that budget (`fitsbS`), whenever the granted fuel covers the reference's iteration bound, the stack machine
    returns exactly the recursive expansion `RefS` started with no name disabled — no error, no backstop, fuel not exhausted. -/
theorem strcat_partial (tbl : Table) (ts : List Tok) (d : Nat) (hfit : fitsbS tbl d [] ts = true)
    (hd : d + 1 < CbiVerif.Gen.maxLevel) (hfuel : costS tbl d [] ts + 2 ≤ fuelFor tbl ts) :
    cbiExpand tbl ts = .ok (RefS tbl d [] ts) := by
  unfold cbiExpand
  rw [← RefS_top]
  exact expandWith_str realCfg tbl rfl d ts (by rw [fitsbS_top]; exact hfit) hd (fuelFor tbl ts) (by rw [costS_top]; exact hfuel)

/-- **termination (macros with `#` / `##`)**: `costS tbl d [] ts + 2` loop iterations suffice -/
theorem terminates_strcat_partial (tbl : Table) (ts : List Tok) (d : Nat) (hfit : fitsbS tbl d [] ts = true)
    (hd : d + 1 < CbiVerif.Gen.maxLevel) (fuel : Nat) (hfuel : costS tbl d [] ts + 2 ≤ fuel) :
    expandWith realCfg tbl fuel ts = .ok (RefS tbl d [] ts) := by
  rw [← RefS_top]
  exact expandWith_str realCfg tbl rfl d ts (by rw [fitsbS_top]; exact hfit) hd fuel (by rw [costS_top]; exact hfuel)

/-- **no backstop (macros with `#` / `##`)**: the run with nesting limit `d + 2` gives the same result as the real limit -/
theorem no_backstop_strcat (tbl : Table) (ts : List Tok) (d : Nat) (hfit : fitsbS tbl d [] ts = true)
    (hd : d + 1 < CbiVerif.Gen.maxLevel) (hfuel : costS tbl d [] ts + 2 ≤ fuelFor tbl ts) :
    cbiExpand tbl ts = expandWith { lim := d + 2 } tbl (fuelFor tbl ts) ts := by
  rw [strcat_partial tbl ts d hfit hd hfuel, ← RefS_top]
  exact (expandWith_str { lim := d + 2 } tbl rfl d ts (by rw [fitsbS_top]; exact hfit) (by simp) (fuelFor tbl ts)
    (by rw [costS_top]; exact hfuel)).symm

/-- the fragment on concrete definitions and texts (lexer and `#define` parser included): all hypotheses of `strcat_partial` hold
    with budget `d`, and machine and reference have the spellings `expect` -/
def inStrcatFragment (defs : List String) (text : String) (d : Nat) (expect : List String) : Bool :=
  match buildTable [] defs with
  | .ok tbl =>
    let ts := tokenize text
    fitsbS tbl d [] ts && decide (d + 1 < CbiVerif.Gen.maxLevel) && decide (costS tbl d [] ts + 2 ≤ fuelFor tbl ts) &&
      (match cbiExpand tbl ts with | .ok r => r.map spellTok == expect | _ => false) &&
      (RefS tbl d [] ts).map spellTok == expect
  | .error _ => false

/-- non-vacuity, `#`: the operand is not macro-expanded (`STR(N)`), one level of indirection expands it first (`XSTR(N)`),
    multi-token operands, a string literal operand is escaped -/
example : inStrcatFragment ["STR(x) #x", "XSTR(x) STR(x)", "N 3"] "STR(N) XSTR(N) STR(a + b) STR(\"q\")" 4
    ["\"N\"", "\"3\"", "\"a + b\"", "\"\\\"q\\\"\""] = true := by decide +kernel

/-- non-vacuity, `##`: single-token operands, a chain, empty operands (placemarkers), an operand that is not macro-expanded
    (`CAT(N,N)` gives `NN`), the pasted identifier is rescanned (`CAT(N,1)` gives `N1`, a macro), a non-parameter operand -/
example : inStrcatFragment ["CAT(a,b) a##b", "CAT3(a,b,c) q a##b##c", "N 3", "N1 7", "PRE(x) p_##x + x"] "CAT(x,y) CAT(N,N) CAT(N,1) CAT(,z) CAT3(,,) CAT3(u,,w) PRE(N)" 4
    ["xy", "NN", "7", "z", "q", "q", "uw", "p_N", "+", "3"] = true := by decide +kernel

/-- non-vacuity, `#` and `##` in one replacement list; the parameter used plainly is macro-expanded, the operands are not -/
example : inStrcatFragment ["M(x,y) #x x##y x", "k 5"] "M(k, 2) M(a b, c)" 3
    ["\"k\"", "k2", "5", "\"a b\"", "a", "bc", "a", "b"] = true := by decide +kernel

/-- **what remains open** for macros with `#` / `##` (kept visible, not claimed): on the syntactic fragment "simple" with `#` / `##`
    allowed in replacement lists (macros keyed by name, no function-like macro name in a replacement list; every call in the text
    complete, with exactly as many arguments as parameters, arguments without macro names) whatever the specification assigns is what the machine produces (finding D10 being repaired, no
    exclusion of white space or character constants in `#` operands is left; `Props/C03Stringify.lean` has the statements about
    `stringify` itself).  By `strcat_partial` what is
    missing is a statement about the non-recursive function `replaceFn` against `Spec.Prosser.subst` (it needs the two lexers to
    agree on pasted and stringified spellings), plus the hide-set bookkeeping of `Lemmas/MacroFunSpecB.lean` for tokens made by
    `#` / `##`. -/
def StrcatConformsFull : Prop :=
  ∀ (tbl : Table) (ts : List Tok) (out : List CbiVerif.Spec.Prosser.T),
    (∀ n m, tbl.get n = some m → m.name = n ∧ m.variadic = false ∧ ∀ t ∈ m.replacement, ObjTok tbl t) →
    simpleText tbl ts = true → exactArity tbl ts = true →
    CbiVerif.Spec.Prosser.prosserToks (specTableF tbl) (ts.map (toSpec [])) = .ok out →
    ∃ r, cbiExpand tbl ts = .ok r ∧ r.map spellTok = out.map (·.text)

end CbiVerif.C03
