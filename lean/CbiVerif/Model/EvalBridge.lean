import CbiVerif.Model.Eval
import CbiVerif.Spec.CExpr
/-!
C02: how a parse tree of the specification (`CExpr.Ast`) is presented to the evaluator model —
the token list the evaluator receives after lexing and macro expansion (`render`), the same tree as a
tree of the generic climbing definition (`toClimb`), the embedding of specification values into model
values (`mval`), and the recorded known-finding classes as predicates on the tree.

Core Lean only: the driver uses `render` to check that the tokens it obtained from the expression
text by `tokenize` + `runExpand` are exactly the tokens the theorems speak about.
-/
namespace CbiVerif.EvalBridge
open CbiVerif.PP CbiVerif.Climb CbiVerif.CExpr CbiVerif.Eval

/-- a C value as the evaluator represents it: `np.uint64(toNat)` / `np.int64(toInt)` -/
def mval (v : CExpr.Val) : Eval.Val :=
  ⟨v.unsigned, if v.unsigned then (v.bits.toNat : Int) else v.bits.toInt⟩

def numTok (s : String) : Tok := ⟨.num, s, false, true⟩
def chrTok (s : String) : Tok := ⟨.chr, s, false, true⟩
def identTok (s : String) : Tok := ⟨.ident, s, false, true⟩

/-- `defined X` has been replaced by the expander with the numerical constant `1` or `0` -/
def definedTok (env : Env) (n : String) : Tok := numTok (if env n then "1" else "0")

/-- what `term()` of the model returns for the leaf's token -/
def litVal (l : Lit) : Eval.Val := match Eval.literal l.spell with | .ok v => v | .error _ => default
def chrVal (c : CharLit) : Eval.Val := match characterValue c.chars with | .ok n => ⟨false, n⟩ | .error _ => default

def toClimb (env : Env) : CExpr.Ast → Climb.Ast Eval.Val
  | .lit l => .leaf [numTok l.spell] (litVal l)
  | .chr c => .leaf [chrTok (String.ofList c.chars)] (chrVal c)
  | .ident n => .leaf [identTok n] Eval.zero
  | .defd n _ => .leaf [definedTok env n] ⟨false, if env n then 1 else 0⟩
  | .paren a => .paren (toClimb env a)
  | .un op a => .un op.sym (toClimb env a)
  | .bin op l r => .bin op.sym op.prec (toClimb env l) (toClimb env r)
  | .tern c t e => .tern (toClimb env c) (toClimb env t) (toClimb env e)

/-- the expanded token list of the expression (flags erased: the evaluator reads kind and text only) -/
def render (env : Env) (a : CExpr.Ast) : List Tok := (toClimb env a).render

/-- the evaluator's eager value of the tree -/
def meval (env : Env) (a : CExpr.Ast) : Eval.Val := (toClimb env a).eval (opsN 0)

/-- source spelling of the tokens (before expansion), for the driver: `defined X` / `defined(X)` -/
def renderSrc : CExpr.Ast → List Tok
  | .lit l => [numTok l.spell]
  | .chr c => [chrTok (String.ofList c.chars)]
  | .ident n => [identTok n]
  | .defd n p => if p then [identTok "defined", lpTok, identTok n, rpTok] else [identTok "defined", identTok n]
  | .paren a => lpTok :: (renderSrc a ++ [rpTok])
  | .un op a => opTok op.sym :: renderSrc a
  | .bin op l r => renderSrc l ++ opTok op.sym :: renderSrc r
  | .tern c t e => renderSrc c ++ opTok "?" :: (renderSrc t ++ opTok ":" :: renderSrc e)

/-! ### input classes: escaped character constants (former D6), recorded known finding D8 (DESIGN section 6) -/

/-- a character constant written with an escape sequence (the class of the former finding D6, repaired in the
    code; kept as a descriptor of the generated inputs, no theorem excludes it any more) -/
def usesEscapedChar : CExpr.Ast → Bool
  | .chr c => match c with | .plain _ => false | _ => true
  | .lit _ | .ident _ | .defd _ _ => false
  | .paren a => usesEscapedChar a
  | .un _ a => usesEscapedChar a
  | .bin _ l r => usesEscapedChar l || usesEscapedChar r
  | .tern c t e => usesEscapedChar c || usesEscapedChar t || usesEscapedChar e

/-- D8: an integer constant without `u` suffix whose value exceeds INTMAX_MAX (C: unsigned when
    octal/hex/binary) -/
def usesBigUnsuffixed : CExpr.Ast → Bool
  | .lit l => !l.suffix.isUnsigned && decide ((l.value : Int) > intMax)
  | .chr _ | .ident _ | .defd _ _ => false
  | .paren a => usesBigUnsuffixed a
  | .un _ a => usesBigUnsuffixed a
  | .bin _ l r => usesBigUnsuffixed l || usesBigUnsuffixed r
  | .tern c t e => usesBigUnsuffixed c || usesBigUnsuffixed t || usesBigUnsuffixed e

end CbiVerif.EvalBridge
