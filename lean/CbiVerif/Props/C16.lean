import CbiVerif.Lemmas.Dups
/-! # C16 — the duplicates report lists exactly the sets of byte-identical files

All theorems are about `CbiVerif.Dups.findDuplicates hash choose files`, the definition the native
driver executes (op `dups`), for EVERY hash function of the content (also a constant one), EVERY
`set.pop()` strategy `choose` and every enumeration `files`.  `filecmp.cmp(shallow=False)` is content
equality; `Functional files` (a path denotes one file) is the only hypothesis, needed where the
statement speaks about a file by its path.
-/
namespace CbiVerif.C16
open CbiVerif.Dups

set_option linter.unusedSectionVars false
variable {C H H' : Type} [DecidableEq C] [DecidableEq H] [DecidableEq H']

/-- only regular code-base files are listed -/
theorem listed_regular (hash : C → H) (choose : List (File C) → Nat) (files : List (File C)) :
    ∀ g ∈ findDuplicates hash choose files, ∀ a ∈ g, a ∈ files ∧ Regular a :=
  fun _ hg _ ha => mem_candidates (findDups_sub hg ha)

/-- symbolic links are never listed -/
theorem symlinks_never_listed (hash : C → H) (choose : List (File C) → Nat) (files : List (File C)) :
    ∀ g ∈ findDuplicates hash choose files, ∀ a ∈ g, a.isSymlink = false :=
  fun g hg a ha => (listed_regular hash choose files g hg a ha).2.2

/-- files outside the code base (excluded, unrecognised extension, outside the root) are never listed -/
theorem nonmembers_never_listed (hash : C → H) (choose : List (File C) → Nat) (files : List (File C)) :
    ∀ g ∈ findDuplicates hash choose files, ∀ a ∈ g, a.isMember = true :=
  fun g hg a ha => (listed_regular hash choose files g hg a ha).2.1

/-- every group has at least two files -/
theorem two_or_more (hash : C → H) (choose : List (File C) → Nat) (files : List (File C)) :
    ∀ g ∈ findDuplicates hash choose files, 2 ≤ g.length :=
  fun _ hg => findDups_size hg

/-- no path occurs twice in the whole report (so groups are sets, and pairwise disjoint) -/
theorem no_repeat (hash : C → H) (choose : List (File C) → Nat) (files : List (File C)) :
    ((findDuplicates hash choose files).flatten.map File.path).Nodup :=
  no_repeat_of_flatten_pairwise
    (findDups_flatten_pairwise (fun h => Ne.symm h) File.content hash choose _ (candidates_pairwise files))

/-- the at least two files of a group have pairwise different paths -/
theorem group_paths_distinct (hash : C → H) (choose : List (File C) → Nat) (files : List (File C)) :
    ∀ g ∈ findDuplicates hash choose files, (g.map File.path).Nodup :=
  fun _ hg => List.pairwise_map.mpr (group_paths_of_no_repeat (no_repeat hash choose files) hg)

/-- groups are pairwise disjoint -/
theorem groups_pairwise_disjoint (hash : C → H) (choose : List (File C) → Nat) (files : List (File C)) :
    (findDuplicates hash choose files).Pairwise (fun g₁ g₂ => ∀ a ∈ g₁, ∀ b ∈ g₂, a.path ≠ b.path) :=
  groups_disjoint_of_no_repeat (no_repeat hash choose files)

/-- files within a group have identical content -/
theorem within_identical (hash : C → H) (choose : List (File C) → Nat) (files : List (File C)) :
    ∀ g ∈ findDuplicates hash choose files, ∀ a ∈ g, ∀ b ∈ g, a.content = b.content :=
  fun _ hg => findDups_same hg

/-- files in different groups differ -/
theorem across_differ (hash : C → H) (choose : List (File C) → Nat) (files : List (File C)) :
    (findDuplicates hash choose files).Pairwise
      (fun g₁ g₂ => ∀ a ∈ g₁, ∀ b ∈ g₂, a.content ≠ b.content) :=
  findDups_differ File.content hash choose _

/-- two distinct regular code-base files with equal content are in a common group -/
theorem twins_listed (hash : C → H) (choose : List (File C) → Nat) (files : List (File C))
    (hf : Functional files) :
    ∀ a ∈ files, Regular a → ∀ b, Twin files a b →
      ∃ g ∈ findDuplicates hash choose files, a ∈ g ∧ b ∈ g := by
  intro a ha hra b ⟨hb, hrb, hne, hc⟩
  exact findDups_complete File.content hash choose _ a b
    (mem_candidates_of_functional hf ha hra) (mem_candidates_of_functional hf hb hrb)
    (fun h => hne (h ▸ rfl)) hc.symm

/-- no file with unique content is listed -/
theorem unique_not_listed (hash : C → H) (choose : List (File C) → Nat) (files : List (File C)) :
    ∀ a, (∀ b, ¬ Twin files a b) → ∀ g ∈ findDuplicates hash choose files, a ∉ g := by
  intro a hu g hg ha
  obtain ⟨b, hb, hne⟩ := exists_other (two_or_more hash choose files g hg)
    (group_paths_of_no_repeat (no_repeat hash choose files) hg) a
  have hbr := listed_regular hash choose files g hg b hb
  exact hu b ⟨hbr.1, hbr.2, hne, within_identical hash choose files g hg b hb a ha⟩

/-- **C16.main**: for every hash, every pop strategy and every enumeration the result is an exact
    duplicates report -/
theorem main (hash : C → H) (choose : List (File C) → Nat) (files : List (File C))
    (hf : Functional files) : ExactReport files (findDuplicates hash choose files) where
  listed_regular := listed_regular hash choose files
  two_or_more := two_or_more hash choose files
  no_repeat := no_repeat hash choose files
  within_identical := within_identical hash choose files
  across_differ := across_differ hash choose files
  twins_listed := twins_listed hash choose files hf
  unique_not_listed := unique_not_listed hash choose files

/-- every group of an exact report is a complete class: it contains every regular member with that content -/
theorem full_class {files : List (File C)} {R : List (List (File C))} (hf : Functional files)
    (hR : ExactReport files R) :
    ∀ g ∈ R, ∀ a ∈ g, ∀ x ∈ files, (x ∈ g ↔ Regular x ∧ x.content = a.content) := by
  intro g hg a ha x hx
  constructor
  · intro hxg
    exact ⟨(hR.listed_regular g hg x hxg).2, hR.within_identical g hg x hxg a ha⟩
  · intro ⟨hxr, hxc⟩
    have har := hR.listed_regular g hg a ha
    by_cases hp : x.path = a.path
    · rw [hf x hx a har.1 hp]
      exact ha
    · obtain ⟨g', hg', hag', hxg'⟩ := hR.twins_listed a har.1 har.2 x ⟨hx, hxr, hp, hxc⟩
      rw [same_group_of_no_repeat hR.no_repeat hg hg' ha hag']
      exact hxg'

/-- the groups of the computed report are complete classes -/
theorem group_is_full_class (hash : C → H) (choose : List (File C) → Nat) (files : List (File C))
    (hf : Functional files) :
    ∀ g ∈ findDuplicates hash choose files, ∀ a ∈ g, ∀ x ∈ files,
      (x ∈ g ↔ Regular x ∧ x.content = a.content) :=
  full_class hf (main hash choose files hf)

/-- a file is listed iff it is a regular member having an identical twin -/
theorem listed_iff (hash : C → H) (choose : List (File C) → Nat) (files : List (File C))
    (hf : Functional files) (a : File C) (ha : a ∈ files) :
    (∃ g ∈ findDuplicates hash choose files, a ∈ g) ↔ (Regular a ∧ ∃ b, Twin files a b) := by
  constructor
  · intro ⟨g, hg, hag⟩
    refine ⟨(listed_regular hash choose files g hg a hag).2, ?_⟩
    apply Classical.byContradiction
    intro hno
    exact unique_not_listed hash choose files a (fun b hb => hno ⟨b, hb⟩) g hg hag
  · intro ⟨hr, b, hb⟩
    obtain ⟨g, hg, hag, _⟩ := twins_listed hash choose files hf a ha hr b hb
    exact ⟨g, hg, hag⟩

theorem exact_report_unique_half {files files' : List (File C)} {R R' : List (List (File C))}
    (hf : Functional files) (hf' : Functional files') (hmem : ∀ x, x ∈ files ↔ x ∈ files')
    (hR : ExactReport files R) (hR' : ExactReport files' R') :
    ∀ g ∈ R, ∃ g' ∈ R', g.Perm g' := by
  intro g hg
  have hpw := group_paths_of_no_repeat hR.no_repeat hg
  have hlen := hR.two_or_more g hg
  obtain ⟨a, ha⟩ : ∃ a, a ∈ g := by
    match g, hlen with
    | a :: _, _ => exact ⟨a, List.mem_cons_self⟩
  obtain ⟨b, hb, hne⟩ := exists_other hlen hpw a
  have har := hR.listed_regular g hg a ha
  have hbr := hR.listed_regular g hg b hb
  have hcb : b.content = a.content := hR.within_identical g hg b hb a ha
  obtain ⟨g', hg', hag', _⟩ :=
    hR'.twins_listed a ((hmem a).mp har.1) har.2 b ⟨(hmem b).mp hbr.1, hbr.2, hne, hcb⟩
  refine ⟨g', hg', ?_⟩
  have hpw' := group_paths_of_no_repeat hR'.no_repeat hg'
  apply (List.perm_ext_iff_of_nodup (nodup_of_paths hpw) (nodup_of_paths hpw')).mpr
  intro x
  have hc := full_class hf hR g hg a ha
  have hc' := full_class hf' hR' g' hg' a hag'
  constructor
  · intro hx
    have hxF := (hR.listed_regular g hg x hx).1
    exact (hc' x ((hmem x).mp hxF)).mpr ((hc x hxF).mp hx)
  · intro hx
    have hxF' := (hR'.listed_regular g' hg' x hx).1
    exact (hc x ((hmem x).mpr hxF')).mpr ((hc' x hxF').mp hx)

/-- an exact report is unique as a set of sets: it depends only on the set of enumerated files -/
theorem exact_report_unique {files files' : List (File C)} {R R' : List (List (File C))}
    (hf : Functional files) (hmem : ∀ x, x ∈ files ↔ x ∈ files')
    (hR : ExactReport files R) (hR' : ExactReport files' R') : SameSetOfSets R R' := by
  have hf' : Functional files' := fun a ha b hb h => hf a ((hmem a).mpr ha) b ((hmem b).mpr hb) h
  exact ⟨exact_report_unique_half hf hf' hmem hR hR',
    exact_report_unique_half hf' hf (fun x => (hmem x).symm) hR' hR⟩

/-- the result, as a set of sets, does not depend on the enumeration order, on the hash function
    (of whatever type, even a constant), or on the order in which `set.pop()` hands out files -/
theorem independent_of_order_hash_choose (hash : C → H) (hash' : C → H')
    (choose choose' : List (File C) → Nat) (files files' : List (File C))
    (hperm : files.Perm files') (hf : Functional files) :
    SameSetOfSets (findDuplicates hash choose files) (findDuplicates hash' choose' files') := by
  have hmem : ∀ x, x ∈ files ↔ x ∈ files' := fun x => hperm.mem_iff
  have hf' : Functional files' := fun a ha b hb h => hf a ((hmem a).mpr ha) b ((hmem b).mpr hb) h
  exact exact_report_unique hf hmem (main hash choose files hf) (main hash' choose' files' hf')

/-- in particular a constant hash (every file in one bucket) gives the same report as an injective one:
    the result never relies on the hash -/
theorem hash_irrelevant (hash : C → H) (choose : List (File C) → Nat) (files : List (File C))
    (hf : Functional files) :
    SameSetOfSets (findDuplicates hash choose files) (findDuplicates (fun _ => ()) choose files) :=
  independent_of_order_hash_choose hash (fun _ => ()) choose choose files files (List.Perm.refl _) hf

/-- the confirmation loop terminates by itself: the iteration bound used by the executable model (the
    bucket size) is not a restriction, any larger bound gives the same groups -/
theorem loop_fuel_irrelevant {F : Type} (content : F → C) (choose : List F → Nat) (n : Nat) (l : List F)
    (h : l.length ≤ n) : confirm content choose n l = confirm content choose l.length l :=
  confirm_fuel content choose n l.length l h (Nat.le_refl _)

/-! ## Non-vacuity: a concrete enumeration satisfying `Functional`, with classes of size 3, 2 and 1,
    a symlinked twin, an excluded twin and a path enumerated twice -/

def exFiles : List (File Nat) :=
  [⟨"r/a.c", false, true, 1⟩, ⟨"r/l.c", true, true, 1⟩, ⟨"r/b.c", false, true, 2⟩,
   ⟨"r/s/a.c", false, true, 1⟩, ⟨"r/x.c", false, false, 1⟩, ⟨"r/u.c", false, true, 3⟩,
   ⟨"r/s/b.h", false, true, 2⟩, ⟨"r/a.c", false, true, 1⟩, ⟨"r/e.c", false, true, 1⟩]

example : Functional exFiles := by unfold Functional; decide

example : (findDuplicates (fun _ : Nat => 0) (fun _ => 0) exFiles).map (·.map File.path)
    = [["r/a.c", "r/s/a.c", "r/e.c"], ["r/b.c", "r/s/b.h"]] := by decide

example : (findDuplicates (fun c : Nat => c % 2) (fun l => l.length - 1) exFiles.reverse).map (·.map File.path)
    = [["r/s/a.c", "r/e.c", "r/a.c"], ["r/b.c", "r/s/b.h"]] := by decide

example : ExactReport exFiles (findDuplicates (fun c : Nat => c) (fun l => l.length / 2) exFiles) :=
  main _ _ _ (by unfold Functional; decide)

example : Twin exFiles ⟨"r/a.c", false, true, 1⟩ ⟨"r/e.c", false, true, 1⟩ := by
  refine ⟨by decide, ⟨rfl, rfl⟩, by decide, rfl⟩

-- hypotheses of `exact_report_unique` / `listed_iff` / `unique_not_listed` on the concrete enumeration
example : ∀ x, x ∈ exFiles ↔ x ∈ exFiles.reverse := fun _ => List.mem_reverse.symm

example : (⟨"r/s/b.h", false, true, 2⟩ : File Nat) ∈ exFiles := by decide

/-- `r/u.c` has unique content among the regular members (its only content-3 file) -/
example : ∀ b, ¬ Twin exFiles ⟨"r/u.c", false, true, 3⟩ b := by
  intro b ⟨hb, _, hne, hc⟩
  simp only [exFiles, List.mem_cons, List.not_mem_nil, or_false] at hb
  rcases hb with h | h | h | h | h | h | h | h | h <;> subst h <;> simp at hne hc

example : exFiles.Perm exFiles.reverse := (List.reverse_perm _).symm

example : SameSetOfSets (findDuplicates (fun c : Nat => c) (fun _ => 0) exFiles)
    (findDuplicates (fun _ : Nat => ()) (fun l => l.length - 1) exFiles.reverse) :=
  independent_of_order_hash_choose _ _ _ _ _ _ (List.reverse_perm _).symm (by unfold Functional; decide)

example : ([1, 2, 3] : List Nat).length ≤ 7 := by decide  -- hypothesis of `loop_fuel_irrelevant`

/-- `Functional` cannot be dropped from `twins_listed`: if one path is enumerated with two different
    contents (the file changed during the walk) only its first record reaches the hash table -/
example : findDuplicates (fun c : Nat => c) (fun _ => 0)
    [⟨"p", false, true, 1⟩, ⟨"p", false, true, 2⟩, ⟨"q", false, true, 2⟩] = [] := by decide

end CbiVerif.C16
