import CbiVerif.Model.CCleanCells
import CbiVerif.Generated.CCleanTable
/-!
# The hand-written `c_cleaner` model against the table regenerated from `process()`

`Generated/CCleanTable.lean` is produced on every run by `tools/gen/cleaner.py`, which *executes* the real
`c_cleaner.process` / `logical_newline` of the checkout on every (reachable stack, buffer category,
character) cell and records the successor stack and what is done to the line buffer; the character
partition is computed from the observed behaviour of every ASCII character.  This file decodes the table's
vocabulary (state numbers = discovery order, class numbers = order of the smallest member) and states the
finite comparisons as `Bool` functions closed by kernel `decide`.  `Props/C05Table.lean` holds the theorems.
-/
namespace CbiVerif.CClean.Regen
open CbiVerif.CClean

theorem mem_allCls (k : Cls) : k ∈ allCls := by cases k <;> simp [allCls]

def lookup (row : List (List Entry)) (b : Bool) (k : Cls) : Option Entry :=
  (row[b.toNat]?).bind (·[clsIdx k]?)

/-- one row = one reachable stack: the model's `step` gives the recorded entry for both buffer categories
    and all nine model classes -/
def rowOK (row : List Nat × List (List Entry)) : Bool :=
  encode (decode row.1) == row.1 &&
  [false, true].all fun b => allCls.all fun k => lookup row.2 b k == some (entryOf k (step (decode row.1) b k))

theorem stepRows_ok : Gen.CCleanTable.step.all rowOK = true := by decide

def nlRowOK (row : List Nat × Entry) : Bool :=
  encode (decode row.1) == row.1 && row.2 == entryOf .other (logicalNewline (decode row.1))

theorem newlineRows_ok : Gen.CCleanTable.newline.all nlRowOK = true := by decide

/-- the table is closed: it starts at `[TOPLEVEL]`, and every successor stack is again a row -/
def keys : List (List Nat) := Gen.CCleanTable.step.map (·.1)

def closedOK : Bool :=
  keys.contains [0] && Gen.CCleanTable.newline.map (·.1) == keys &&
  (Gen.CCleanTable.step.all fun row => row.2.all fun es => es.all fun e => e.1 || keys.contains e.2.1) &&
  (Gen.CCleanTable.newline.all fun row => row.2.1 || keys.contains row.2.2.1)

theorem closed_ok : closedOK = true := by decide

/-- every probed character is classified by the model as the code classifies it -/
def classOK (p : Nat × Nat) : Bool := clsIdx (classify (Char.ofNat p.1)) == p.2

theorem classes_ok : Gen.CCleanTable.charClass.all classOK = true := by decide

/-- all 128 ASCII characters are listed, in order -/
theorem ascii_listed : (Gen.CCleanTable.charClass.take 128).map (·.1) = List.range 128 := by decide

theorem shape_ok : Gen.CCleanTable.stateNames.length = 9 ∧ Gen.CCleanTable.classReps = [0, 9, 34, 35, 39, 42, 47, 92] := by decide

/-! ## `c_file_source` on one physical line, `one_space_line.category` / `join` -/

def lineRowOK (row : List Nat × List (List Nat × LineEntry)) : Bool :=
  encode (decode row.1) == row.1 && row.2.all fun p => p.2 == lineObs (decode row.1) (chars p.1)

set_option maxRecDepth 20000 in
theorem lineRows_ok : Gen.CCleanTable.lines.all lineRowOK = true := by decide

/-- the same stacks as in the step table, and for each the same bodies: nothing, one character of every
    class, the same followed by a backslash -/
def lineShapeOK : Bool :=
  Gen.CCleanTable.lines.map (·.1) == keys &&
  Gen.CCleanTable.lines.all fun row => row.2.map (·.1) ==
    [] :: (Gen.CCleanTable.classReps.map fun r => [r]) ++ (Gen.CCleanTable.classReps.map fun r => [r, 92])

theorem lineShape_ok : lineShapeOK = true := by decide

def catRowOK (p : List Nat × Nat) : Bool := catCode (catOf ((chars p.1).map classify)) == p.2

set_option maxRecDepth 20000 in
theorem catRows_ok : Gen.CCleanTable.category.all catRowOK = true := by decide

def joinRowOK (p : List Nat × Bool × List Nat × Bool × List Nat × Bool) : Bool :=
  let r := Buf.join ⟨(chars p.1).map pchar, p.2.1⟩ ⟨(chars p.2.2.1).map pchar, p.2.2.2.1⟩
  r.text.map Char.toNat == p.2.2.2.2.1 && r.trailing == p.2.2.2.2.2

set_option maxRecDepth 20000 in
theorem joinRows_ok : Gen.CCleanTable.join.all joinRowOK = true := by decide

end CbiVerif.CClean.Regen
