import Lean.Data.Json
import CbiVerif.Drv.Include
import CbiVerif.Model.ReachInc
/-! driver op for C13 (closure): `reachinc` — same request as `findinc`; reply: for every platform of the configuration
the files that `Inc.find` attributes to it (`PState.attributedFiles`, the definition `C13.attributed_files_reachable`
is about) and the roots of its entries (real path of the entry's file, real paths of what its `-include` names
resolve to by `IncMemo.resolveM`, the resolution function of `Inc.ForcedRoot`). -/
open Lean
namespace CbiVerif.Drv.Reach
open CbiVerif.PP CbiVerif.Inc CbiVerif.Drv.Include

def forcedRoots (fs : FS) (e : Entry) : List String :=
  e.includeFiles.filterMap fun inc =>
    (IncMemo.resolveM fs.env e.includePaths ⟨inc, dirnameK e.file, false⟩).map fs.realpath

def handleReach (j : Json) : Json :=
  let files : FSMap := match j.getObjVal? "files" with
    | .ok (Json.obj kvs) => kvs.toList.map fun (k, v) => (k, jstr v)
    | _ => []
  let links := (arrOf j "links").map fun l => (jstr (jnth l 0), jstr (jnth l 1))
  let fs : FS := { files := files, links := links }
  let config : List (String × List Entry) := (arrOf j "config").map fun pj =>
    (getS pj "name", (arrOf pj "entries").map fun e =>
      ({ file := getS e "file", defines := strs e "defines", includePaths := strs e "include_paths",
         includeFiles := strs e "include_files" } : Entry))
  let fuel := (j.getObjValAs? Nat "fuel").toOption.getD 64
  let st := find fs (strs j "codebase") config fuel
  match st.err with
  | some e => Json.mkObj [("exc", toString (repr e))]
  | none =>
    Json.mkObj [
      ("attributed", Json.mkObj (config.map fun pe => (pe.1, Json.arr ((st.attributedFiles pe.1).map Json.str).toArray))),
      ("roots", Json.mkObj (config.map fun pe => (pe.1, Json.arr ((pe.2.flatMap fun e =>
          fs.realpath e.file :: forcedRoots fs e).map Json.str).toArray))),
      ("inserted", Json.arr (st.inserted.map Json.str).toArray)]

def handlers : List (String × (Json → Json)) := [("reachinc", handleReach)]

end CbiVerif.Drv.Reach
