import CbiVerif.Model.Setmap
import CbiVerif.Spec.C06
import CbiVerif.Model.FileTree
import CbiVerif.Model.Coverage
import CbiVerif.Model.Summary
import CbiVerif.Lemmas.Setmap
import CbiVerif.Lemmas.FileTree
import CbiVerif.Lemmas.C06
import Mathlib.Tactic.Ring
import Mathlib.Tactic.FieldSimp
import Mathlib.Algebra.Order.Field.Basic

/-!
# C06 — every counted line lands in exactly one platform set; all reports agree

Property theorems only (helper lemmas: `CbiVerif/Lemmas/{Setmap,FileTree,C06}.lean`).
The definitions the theorems speak about (`SM.getSetmap`, `SM.fileSetmap`, `FTm.insertRoot`,
`FTm.build`, `FTm.filesTree`, `FTm.print`, `Cov.split`, `Summary.rows`) are the ones the native
driver executes against the real code (`Drv/C06.lean`).

A dict `setmap` is read through `SM.get` (the count of a key, 0 if absent) and `SM.has`
(is the key present); together with distinct keys (`*_nodup`) equality of both is dict equality.
-/
namespace CbiVerif.C06
open CbiVerif.SM CbiVerif.FTm

/-! ## the setmap: every counted line lands in exactly one platform set -/

/-- **setmap_total.**  For every analysis result (any files, any nodes):
* the row of platform set `k` is the sum of `num_lines` over the nodes of the non-symlink files whose set is
  exactly `k`, which is also the sum over the files of their own setmaps' rows (Σ setmap = Σ files Σ nodes);
* the keys are distinct and `k` is a key iff some node of a non-symlink file carries it;
* the total is the sum of the rows over the keys, and the sum of `num_lines` over all those nodes. -/
theorem setmap_total (fs : List FileRec) :
    (∀ k, get (getSetmap fs) k = ((fs.filter fun f => !f.link).map fun f => nodeSum f.nodes k).sum) ∧
    (∀ k, get (getSetmap fs) k = ((fs.filter fun f => !f.link).map fun f => get (fileSetmap f) k).sum) ∧
    (keys (getSetmap fs)).Nodup ∧
    (∀ k, has (getSetmap fs) k = (fs.filter fun f => !f.link).any fun f => f.nodes.any fun n => decide (n.plats = k)) ∧
    total (getSetmap fs) = ((keys (getSetmap fs)).map (get (getSetmap fs))).sum ∧
    total (getSetmap fs) = ((fs.filter fun f => !f.link).map fun f => (f.nodes.map (·.numLines)).sum).sum := by
  refine ⟨fun k => ?_, fun k => ?_, ?_, fun k => ?_, ?_, ?_⟩
  · unfold getSetmap; rw [getSetmap_fold]; simp [SM.get]
  · unfold getSetmap; rw [getSetmap_fold]
    simp only [SM.get, Nat.zero_add]
    congr 1
    apply List.map_congr_left
    intro f _
    unfold fileSetmap; rw [get_addNodes]; simp [SM.get]
  · unfold getSetmap; exact getSetmap_nodup_fold fs [] (by simp [keys])
  · unfold getSetmap; rw [getSetmap_has_fold]; simp [has]
  · apply total_eq_sum_get
    unfold getSetmap; exact getSetmap_nodup_fold fs [] (by simp [keys])
  · unfold getSetmap; rw [getSetmap_total_fold]; simp [total, CbiVerif.Metrics.total]

/-- **setmap_lines** (the "sum over lines" reference).  When `num_lines = len(lines)` for every node, the row of `k` is
    the number of counted lines whose platform set is exactly `k`, and the total is the SLOC of the code base. -/
theorem setmap_lines (fs : List FileRec) (hwf : NodesWF fs) :
    (∀ k, get (getSetmap fs) k = specCount fs k) ∧ total (getSetmap fs) = specSloc fs := by
  have hwf' : ∀ f ∈ fs.filter (fun f => !f.link), ∀ n ∈ f.nodes, n.numLines = n.lines.length :=
    fun f hf => hwf f (List.mem_filter.mp hf).1
  constructor
  · intro k
    rw [(setmap_total fs).1 k]
    unfold specCount allLines
    generalize fs.filter (fun f => !f.link) = gs at hwf'
    induction gs with
    | nil => rfl
    | cons g gs ih =>
      simp only [List.map_cons, List.sum_cons, List.flatMap_cons, List.countP_append]
      rw [ih (fun f hf => hwf' f (List.mem_cons_of_mem _ hf))]
      congr 1
      exact nodeSum_eq_countP g.nodes k (hwf' g (List.mem_cons_self ..))
  · rw [(setmap_total fs).2.2.2.2.2]
    unfold specSloc allLines
    generalize fs.filter (fun f => !f.link) = gs at hwf'
    induction gs with
    | nil => rfl
    | cons g gs ih =>
      simp only [List.map_cons, List.sum_cons, List.flatMap_cons, List.length_append]
      rw [ih (fun f hf => hwf' f (List.mem_cons_of_mem _ hf))]
      congr 1
      exact numLines_sum_eq_length g.nodes (hwf' g (List.mem_cons_self ..))

/-- a concrete analysis result (two platforms, a symlink, an unused file) satisfying `NodesWF` -/
def exFiles : List FileRec :=
  [⟨["src", "a.c"], false, [⟨["cpu", "gpu"], 2, [1, 2]⟩, ⟨["cpu"], 1, [4]⟩, ⟨[], 1, [6]⟩]⟩,
   ⟨["src", "l.c"], true, [⟨["cpu", "gpu"], 2, [1, 2]⟩, ⟨["cpu"], 1, [4]⟩, ⟨[], 1, [6]⟩]⟩,
   ⟨["u.c"], false, [⟨[], 3, [1, 2, 3]⟩]⟩]

example : NodesWF exFiles := by
  intro f hf n hn
  simp only [exFiles, List.mem_cons, List.not_mem_nil, or_false] at hf
  rcases hf with rfl | rfl | rfl <;> simp at hn <;> (try rcases hn with rfl | rfl | rfl) <;> (try subst hn) <;> rfl

/-! ## the coverage export: used ⊎ unused = the counted lines of the file -/

/-- **lines_partition.**  For every node list of a file: `used_lines ++ unused_lines` is a rearrangement of all
    counted lines of the file (nothing dropped, nothing duplicated); a line is listed as used iff it belongs to a node
    whose platform set is non-empty, as unused iff it belongs to a node whose set is empty; and when the nodes' line lists
    are disjoint (the parser's invariant) no line is listed twice or on both sides. -/
theorem lines_partition (ns : List NodeRec) :
    ((CbiVerif.Cov.split ns).used ++ (CbiVerif.Cov.split ns).unused).Perm (CbiVerif.Cov.fileLines ns) ∧
    (∀ l, l ∈ (CbiVerif.Cov.split ns).used ↔ ∃ n ∈ ns, l ∈ n.lines ∧ n.plats ≠ []) ∧
    (∀ l, l ∈ (CbiVerif.Cov.split ns).unused ↔ ∃ n ∈ ns, l ∈ n.lines ∧ n.plats = []) ∧
    ((CbiVerif.Cov.fileLines ns).Nodup →
      ((CbiVerif.Cov.split ns).used ++ (CbiVerif.Cov.split ns).unused).Nodup ∧
      ∀ l, l ∈ (CbiVerif.Cov.split ns).used → l ∉ (CbiVerif.Cov.split ns).unused) := by
  rw [CbiVerif.Cov.split_eq]
  have hperm : (((ns.filter fun n => !n.plats.isEmpty).flatMap (·.lines)) ++
      ((ns.filter fun n => n.plats.isEmpty).flatMap (·.lines))).Perm (CbiVerif.Cov.fileLines ns) := by
    unfold CbiVerif.Cov.fileLines
    rw [← List.flatMap_append]
    apply List.Perm.flatMap_right
    have := List.filter_append_perm (fun n : NodeRec => !n.plats.isEmpty) ns
    simpa using this
  refine ⟨hperm, ?_, ?_, ?_⟩
  · intro l
    simp only [List.mem_flatMap, List.mem_filter, Bool.not_eq_true', List.isEmpty_eq_false_iff]
    constructor
    · rintro ⟨n, ⟨hn, hp⟩, hl⟩; exact ⟨n, hn, hl, hp⟩
    · rintro ⟨n, hn, hl, hp⟩; exact ⟨n, ⟨hn, hp⟩, hl⟩
  · intro l
    simp only [List.mem_flatMap, List.mem_filter, List.isEmpty_iff]
    constructor
    · rintro ⟨n, ⟨hn, hp⟩, hl⟩; exact ⟨n, hn, hl, hp⟩
    · rintro ⟨n, hn, hl, hp⟩; exact ⟨n, ⟨hn, hp⟩, hl⟩
  · intro hnd
    have hnd' := hperm.symm.nodup hnd
    refine ⟨hnd', ?_⟩
    intro l hu hun
    rw [List.nodup_append] at hnd'
    exact hnd'.2.2 l hu l hun rfl

example : (CbiVerif.Cov.fileLines [⟨["cpu", "gpu"], 2, [1, 2]⟩, ⟨["cpu"], 1, [4]⟩, ⟨[], 1, [6]⟩]).Nodup := by decide

/-! ## the tree: every directory is the sum of the files beneath it -/

/-- **tree_sums.**  After ANY sequence of `FileTree.insert`s of pairwise prefix-incomparable, non-empty paths
    (distinct files of one file system) into an empty tree:
1. for every directory node of the tree (the root included) and every platform set `k`, the directory's count of `k`
   is the sum of the counts of the non-symlink files listed beneath it, and `k` is one of its keys iff it is a key of
   such a file;
2. the files listed in the tree are exactly the inserted ones (with their setmaps);
3. in particular the root's setmap is the sum over all non-symlink insertions, with distinct keys. -/
theorem tree_sums (root : String) (ins : List (Ins Setmap)) (hok : PathsOK (ins.map (·.path))) :
    (∀ n v ks, T.dir n v ks ∈ nodes (build merge [] root ins) → ∀ k,
        get v k = ((leavesL [] ks).map fun i => if i.link then 0 else get i.v k).sum ∧
        has v k = (leavesL [] ks).any fun i => !i.link && has i.v k) ∧
    (leavesL [] (build merge [] root ins).kids).Perm ins ∧
    (∀ k, get (build merge [] root ins).val k = (ins.map fun i => if i.link then 0 else get i.v k).sum ∧
          has (build merge [] root ins).val k = ins.any fun i => !i.link && has i.v k) ∧
    (keys (build merge [] root ins).val).Nodup := by
  have hdir : ∀ n v ks, T.dir n v ks ∈ nodes (build merge [] root ins) → ∀ k,
      get v k = ((leavesL [] ks).map fun i => if i.link then 0 else get i.v k).sum ∧
      has v k = (leavesL [] ks).any fun i => !i.link && has i.v k := by
    intro n v ks hmem k
    constructor
    · obtain ⟨v', kids', he, hinv, _, _⟩ := build_spec (getMeas k) root ins hok
      have he' : build merge [] root ins = T.dir root v' kids' := he
      rw [he'] at hmem
      have hd := inv_nodes (getMeas k) _ hinv _ hmem
      simp only [FTm.Inv] at hd
      have h1 : get v k = leafSumL (getMeas k) ks := hd.1
      rw [h1, leafSumL_leaves (getMeas k) ks [], msum_get]
      congr 1
    · obtain ⟨v', kids', he, hinv, _, _⟩ := build_spec (hasMeas k) root ins hok
      have he' : build merge [] root ins = T.dir root v' kids' := he
      rw [he'] at hmem
      have hd := inv_nodes (hasMeas k) _ hinv _ hmem
      simp only [FTm.Inv] at hd
      have h1 : has v k = leafSumL (hasMeas k) ks := hd.1
      rw [h1, leafSumL_leaves (hasMeas k) ks [], msum_has, List.any_map]
      congr 1
      funext i
      show gain (hasMeas k) i.v i.link = (!i.link && has i.v k)
      cases i.link <;> rfl
  obtain ⟨v', kids', he, hinv, _, hl⟩ := build_spec (getMeas []) root ins hok
  have he' : build merge [] root ins = T.dir root v' kids' := he
  refine ⟨hdir, ?_, ?_, ?_⟩
  · rw [he']; exact hl
  · intro k
    have hroot := hdir root v' kids' (by rw [he']; simp [nodes]) k
    rw [he']
    have hp1 : ((leavesL [] kids').map fun i => if i.link then 0 else get i.v k).Perm
        (ins.map fun i => if i.link then 0 else get i.v k) := hl.map _
    constructor
    · show get v' k = _
      rw [hroot.1, ← msum_get k, ← msum_get k]
      exact msum_perm (getMeas k) hp1
    · show has v' k = _
      rw [hroot.2]
      exact perm_any _ hl
  · unfold build
    rw [build_val]
    exact nodup_fold_merge ins [] (by simp [keys])

/-- the paths of the example are admissible -/
example : PathsOK (exFiles.map (·.path)) := by
  refine ⟨by intro p hp; simp [exFiles] at hp; rcases hp with rfl | rfl | rfl <;> simp, ?_⟩
  simp [exFiles, Incomp, List.cons_prefix_cons]

/-- **tree_root_eq_summary.**  The unpruned tree `report.files` builds for an analysis result has, at its root, the same
    dict as `get_setmap`: the same keys, the same counts. -/
theorem tree_root_eq_summary (root : String) (fs : List FileRec) (hok : PathsOK (fs.map (·.path))) :
    ∀ k, get (filesTree root false fs).val k = get (getSetmap fs) k ∧
         has (filesTree root false fs).val k = has (getSetmap fs) k := by
  intro k
  have hfilter : fs.filter (kept false) = fs := by
    apply List.filter_eq_self.mpr; intro f _; exact kept_false f
  rw [filesTree_eq_build, hfilter]
  have hok' : PathsOK ((fs.map toIns).map (·.path)) := by
    simpa [List.map_map, Function.comp_def, toIns] using hok
  obtain ⟨_, _, hroot, _⟩ := tree_sums root (fs.map toIns) hok'
  rw [(hroot k).1, (hroot k).2, (setmap_total fs).2.1 k, (setmap_total fs).2.2.2.1 k]
  simp only [List.map_map, Function.comp_def, toIns, List.any_map]
  constructor
  · exact sum_nonlink fs (fun f => SM.get (fileSetmap f) k)
  · rw [any_nonlink fs (fun f => has (fileSetmap f) k)]
    congr 1
    funext f
    exact has_fileSetmap f k

/-! ## `--prune` and `--levels` -/

/-- **prune_exact.**  The pruned tree is the unpruned tree of exactly the files some platform uses
    (`usedFile`: some node of the file is associated with a platform); consequently (for admissible paths) the files it
    lists are exactly those, each with its own setmap, and every figure obeys `tree_sums`. -/
theorem prune_exact (root : String) (fs : List FileRec) :
    filesTree root true fs = filesTree root false (fs.filter usedFile) ∧
    (∀ f, usedFile f = true ↔ ∃ n ∈ f.nodes, n.plats ≠ []) ∧
    (PathsOK (fs.map (·.path)) →
      (leavesL [] (filesTree root true fs).kids).Perm ((fs.filter usedFile).map toIns)) := by
  have hk : fs.filter (kept true) = fs.filter usedFile := by
    congr 1; funext f; exact kept_true f
  have hk2 : (fs.filter usedFile).filter (kept false) = fs.filter usedFile := by
    apply List.filter_eq_self.mpr; intro f _; exact kept_false f
  refine ⟨?_, ?_, ?_⟩
  · rw [filesTree_eq_build, filesTree_eq_build, hk, hk2]
  · intro f
    unfold usedFile
    simp only [List.any_eq_true, Bool.not_eq_true', List.isEmpty_eq_false_iff]
  · intro hok
    rw [filesTree_eq_build, hk]
    have hsub : PathsOK (((fs.filter usedFile).map toIns).map (·.path)) := by
      have hmap : ((fs.filter usedFile).map toIns).map (·.path) = (fs.filter usedFile).map (·.path) := by
        simp [List.map_map, Function.comp_def, toIns]
      rw [hmap]
      refine ⟨fun p hp => hok.1 p ?_, ?_⟩
      · obtain ⟨f, hf, rfl⟩ := List.mem_map.mp hp
        exact List.mem_map.mpr ⟨f, (List.mem_filter.mp hf).1, rfl⟩
      · exact (hok.2.sublist ((List.filter_sublist).map _))
    exact (tree_sums root _ hsub).2.1

/-- **levels_only_hide.**  For every tree and every `levels`: the rows printed with `levels = L` are the rows printed
    without a limit, filtered by `depth ≤ L` — the same rows, in the same order, with the same connectors and figures.
    (`L = 0` is Python-falsy and hides nothing; `cbi-tree` rejects it.) -/
theorem levels_only_hide {V : Type} (t : T V) (L : Nat) :
    print (some L) t = (print none t).filter (fun r => L == 0 || decide (r.depth ≤ L)) := by
  unfold print
  rw [print_hide_node (some L) t 0 "" "" true]
  congr 1
  funext r
  simp only [FTm.hidden]
  have hb : (L != 0) = !(L == 0) := rfl
  rw [hb]
  by_cases h0 : L = 0
  · simp [h0]
  · have h0' : (L == 0) = false := by simpa using h0
    by_cases h1 : r.depth ≤ L
    · simp [h0', h1, Nat.not_lt.mpr h1]
    · simp [h0', h1, Nat.lt_of_not_le h1]

/-- no limit hides nothing; rows beyond the limit are exactly the hidden ones -/
theorem levels_none_all {V : Type} (t : T V) (L : Nat) (hL : L ≠ 0) :
    ∀ r, r ∈ print (some L) t ↔ r ∈ print none t ∧ r.depth ≤ L := by
  intro r
  rw [levels_only_hide, List.mem_filter]
  have : (L == 0) = false := by simpa using hL
  simp [this]

/-! ## the summary table -/

theorem sum_div_mul (l : List (Key × Nat)) (T : ℚ) :
    (l.map fun e => (e.2 : ℚ) / T * 100).sum = (((l.map (·.2)).sum : ℕ) : ℚ) / T * 100 := by
  induction l with
  | nil => simp
  | cons e l ih =>
    simp only [List.map_cons, List.sum_cons, ih]
    push_cast
    ring

theorem perm_sum_nat {a b : List Nat} (h : a.Perm b) : a.sum = b.sum := by
  induction h with
  | nil => rfl
  | cons x _ ih => simp [ih]
  | swap x y l => simp; omega
  | trans _ _ ih1 ih2 => exact ih1.trans ih2

/-- **percent.**  Whenever `summary` prints a table (`rows sm = some rows`; it raises `ZeroDivisionError` exactly when
    the setmap is non-empty with total 0):
* the rows are the items of the setmap, each exactly once (a rearrangement), named `{p1, p2, …}` with sorted names;
* every row's percentage is `count / total * 100` as a rational, where `total = sum(setmap.values())`;
* `Total SLOC` is that total;
* with a non-zero total the percentages add up to 100;
* with distinct keys a row's count is the dict's value for its key. -/
theorem percent (sm : Setmap) (rows : List CbiVerif.Summary.Row) (h : CbiVerif.Summary.rows sm = some rows) :
    (rows.map fun r => (r.key, r.count)).Perm sm ∧
    (∀ r ∈ rows, r.percent = (r.count : ℚ) / (total sm : ℚ) * 100 ∧ r.name = CbiVerif.Summary.rowName r.key) ∧
    CbiVerif.Summary.totalCount sm = total sm ∧
    (total sm ≠ 0 → (rows.map (·.percent)).sum = 100) ∧
    ((keys sm).Nodup → ∀ r ∈ rows, r.count = get sm r.key) := by
  unfold CbiVerif.Summary.rows at h
  split at h
  · exact absurd h (by simp)
  · have hrows : rows = (sm.mergeSort CbiVerif.Summary.keyLe).map (CbiVerif.Summary.mkRow (total sm)) :=
      (Option.some.inj h).symm
    have hperm : (sm.mergeSort CbiVerif.Summary.keyLe).Perm sm := List.mergeSort_perm sm _
    have hitems : (rows.map fun r => (r.key, r.count)) = sm.mergeSort CbiVerif.Summary.keyLe := by
      rw [hrows, List.map_map]
      have : ((fun r : CbiVerif.Summary.Row => (r.key, r.count)) ∘ CbiVerif.Summary.mkRow (total sm)) = id := by
        funext e; rfl
      rw [this, List.map_id]
    have htot : CbiVerif.Summary.totalCount sm = total sm := by
      unfold CbiVerif.Summary.totalCount total CbiVerif.Metrics.total
      exact perm_sum_nat (hperm.map _)
    refine ⟨hitems ▸ hperm, ?_, htot, ?_, ?_⟩
    · intro r hr
      rw [hrows] at hr
      obtain ⟨e, _, rfl⟩ := List.mem_map.mp hr
      exact ⟨rfl, rfl⟩
    · intro hne
      have hT : (total sm : ℚ) ≠ 0 := by exact_mod_cast hne
      rw [hrows, List.map_map]
      have : ((fun r : CbiVerif.Summary.Row => r.percent) ∘ CbiVerif.Summary.mkRow (total sm))
          = fun e : Key × Nat => (e.2 : ℚ) / (total sm : ℚ) * 100 := by
        funext e; rfl
      rw [this, sum_div_mul]
      have hs : ((sm.mergeSort CbiVerif.Summary.keyLe).map (·.2)).sum = total sm := htot
      rw [hs]
      field_simp
    · intro hnd r hr
      have hmem : (r.key, r.count) ∈ sm := by
        have : (r.key, r.count) ∈ rows.map fun r => (r.key, r.count) := List.mem_map.mpr ⟨r, hr, rfl⟩
        rw [hitems] at this
        exact hperm.mem_iff.mp this
      exact (get_of_mem sm hnd r.key r.count hmem).symm

example : CbiVerif.Summary.rows [(["cpu"], 2), ([], 4)] ≠ none := by
  simp [CbiVerif.Summary.rows, total, CbiVerif.Metrics.total]

/-- **summary_rows_are_line_counts** (end to end).  For an analysis result with `num_lines = len(lines)`: every row the
    summary prints for `get_setmap` shows the number of counted lines whose platform set is exactly the row's set, as
    `count / SLOC * 100` percent, and `Total SLOC` is the number of counted lines of the code base. -/
theorem summary_rows_are_line_counts (fs : List FileRec) (hwf : NodesWF fs) (rows : List CbiVerif.Summary.Row)
    (h : CbiVerif.Summary.rows (getSetmap fs) = some rows) :
    (∀ r ∈ rows, r.count = specCount fs r.key ∧ r.percent = (specCount fs r.key : ℚ) / (specSloc fs : ℚ) * 100) ∧
    CbiVerif.Summary.totalCount (getSetmap fs) = specSloc fs := by
  obtain ⟨_, hp, ht, _, hc⟩ := percent (getSetmap fs) rows h
  obtain ⟨hrow, htotal⟩ := setmap_lines fs hwf
  refine ⟨fun r hr => ?_, by rw [ht, htotal]⟩
  have h1 : r.count = specCount fs r.key := by rw [hc (setmap_total fs).2.2.1 r hr, hrow]
  exact ⟨h1, by rw [(hp r hr).1, h1, htotal]⟩

end CbiVerif.C06
