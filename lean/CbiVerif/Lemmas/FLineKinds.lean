import CbiVerif.Lemmas.FCleanLift
/-!
What the cleaner does with the three kinds of lines the property names: blank
lines, ordinary comment lines, directive-sentinel lines — from *every* cleaner
state a line can start in (not only those reachable on well-formed texts).
-/
namespace CbiVerif.Fortran

theorem step_nopb (s : FSt) (c : Char) (h : (step1 s c).2.2 = false) :
    step s c = ((step1 s c).1, (step1 s c).2.1) := by
  unfold step
  rcases hs : step1 s c with ⟨s1, e1, pb⟩
  rw [hs] at h
  simp only at h
  subst h
  rfl

theorem procChars_hasVis_mono (l : List Char) : ∀ (s : FSt) (b : OSL), b.hasVis = true →
    (procChars s b l).2.hasVis = true := by
  induction l with
  | nil => intro s b h; simpa [procChars] using h
  | cons c cs ih =>
    intro s b h
    simp only [procChars]
    exact ih _ _ (by rw [hasVis_addAll, h]; rfl)

/-- `break` after `dir_check` returned: the rest of the line is ignored -/
theorem procChars_done (l : List Char) : ∀ (s : FSt) (b : OSL), s.scan = .done → (procChars s b l).2 = b := by
  induction l with
  | nil => intro s b _; rfl
  | cons c cs ih =>
    intro s b h
    obtain ⟨st, sc, vc, fd⟩ := s
    simp only at h; subst h
    have h1 : step ⟨st, .done, vc, fd⟩ c = (⟨st, .done, vc, fd⟩, []) := by
      rw [step_nopb] <;> simp [step1]
    simp only [procChars, h1]
    exact ih _ _ rfl

/-- inside `dir_check`, no sentinel: nothing is appended -/
theorem procChars_bang_comment (l : List Char) : ∀ (s : FSt) (b : OSL), s.scan = .bang →
    sentinelTail l = false → (procChars s b l).2 = b := by
  induction l with
  | nil => intro s b _ _; rfl
  | cons c cs ih =>
    intro s b h ht
    obtain ⟨st, sc, vc, fd⟩ := s
    simp only at h; subst h
    simp only [sentinelTail] at ht
    generalize hk : cls c = k at ht
    simp only [procChars]
    cases k <;> simp at ht
    case alpha =>
      have h1 : step ⟨st, .bang, vc, fd⟩ c = (⟨st, .bang, vc, fd ++ [c]⟩, []) := by
        rw [step_nopb] <;> simp [step1, hk]
      rw [h1]; exact ih _ _ rfl ht
    all_goals
      have h1 : step ⟨st, .bang, vc, fd⟩ c = (⟨st, .done, vc, []⟩, []) := by
        rw [step_nopb] <;> simp [step1, hk]
      rw [h1]; exact procChars_done _ _ _ rfl

/-- inside `dir_check`, sentinel found: the buffer becomes visible -/
theorem procChars_bang_sentinel (l : List Char) : ∀ (s : FSt) (b : OSL), s.scan = .bang →
    sentinelTail l = true → (procChars s b l).2.hasVis = true := by
  induction l with
  | nil => intro s b _ h; simp [sentinelTail] at h
  | cons c cs ih =>
    intro s b h ht
    obtain ⟨st, sc, vc, fd⟩ := s
    simp only at h; subst h
    simp only [sentinelTail] at ht
    generalize hk : cls c = k at ht
    simp only [procChars]
    cases k <;> simp at ht
    case alpha =>
      have h1 : step ⟨st, .bang, vc, fd⟩ c = (⟨st, .bang, vc, fd ++ [c]⟩, []) := by
        rw [step_nopb] <;> simp [step1, hk]
      rw [h1]; exact ih _ _ rfl ht
    case dollar =>
      have h1 : step ⟨st, .bang, vc, fd⟩ c = (⟨st, .sentinel, vc, []⟩, (fd ++ [c]).map .ns) := by
        rw [step_nopb] <;> simp [step1, hk]
      rw [h1]
      apply procChars_hasVis_mono
      rw [hasVis_addAll, anyVis_map_ns]
      simp [isWs, hk]

theorem step_ws_atCode (s : FSt) (c : Char) (h : AtCode s) (hc : cls c = .ws) : step s c = (s, [.sp]) := by
  obtain ⟨st, sc, vc, fd⟩ := s
  obtain ⟨h1, h2⟩ := h
  simp only at h1 h2; subst h1
  rcases st with _ | ⟨m, r⟩
  · simp at h2
  · rcases h2 with h2 | h2 <;> simp only [List.head?_cons, Option.some.injEq] at h2 <;> subst h2 <;>
      (rw [step_nopb] <;> simp [step1, hc])

theorem step_bang_atCode (s : FSt) (c : Char) (h : AtCode s) (hc : cls c = .bang) :
    (step s c).2 = [] ∧ (step s c).1.scan = .bang := by
  obtain ⟨st, sc, vc, fd⟩ := s
  obtain ⟨h1, h2⟩ := h
  simp only at h1 h2; subst h1
  rcases st with _ | ⟨m, r⟩
  · simp at h2
  · rcases h2 with h2 | h2 <;> simp only [List.head?_cons, Option.some.injEq] at h2 <;> subst h2 <;>
      (rw [step_nopb] <;> simp [step1, hc])

/-- **ordinary comment lines leave the buffer untouched** (only merged blanks before the `!`) -/
theorem comment_onlySp (l : List Char) : ∀ (s : FSt) (b : OSL), AtCode s → b.OnlySp →
    isCommentLine l = true → (procChars s b l).2.OnlySp := by
  induction l with
  | nil => intro s b _ _ h; simp [isCommentLine, dropWs] at h
  | cons c cs ih =>
    intro s b hs hb hl
    simp only [procChars]
    by_cases hc : cls c = .ws
    · rw [step_ws_atCode s c hs hc]
      refine ih s _ hs (onlySp_addAll b _ hb (by simp) (by simp)) ?_
      simpa [isCommentLine, dropWs, hc] using hl
    · simp only [isCommentLine, dropWs, hc, beq_iff_eq, Bool.and_eq_true, Bool.not_eq_true',
        if_false, reduceCtorEq] at hl
      obtain ⟨e1, e2⟩ := step_bang_atCode s c hs hl.1
      rw [e1, procChars_bang_comment cs _ _ e2 hl.2]
      simpa [OSL.addAll] using hb

/-- **sentinel lines make the buffer visible** when the line starts in code -/
theorem sentinel_vis_atCode (l : List Char) : ∀ (s : FSt) (b : OSL), AtCode s →
    isSentinelLine l = true → (procChars s b l).2.hasVis = true := by
  induction l with
  | nil => intro s b _ h; simp [isSentinelLine, dropWs] at h
  | cons c cs ih =>
    intro s b hs hl
    simp only [procChars]
    by_cases hc : cls c = .ws
    · rw [step_ws_atCode s c hs hc]
      refine ih s _ hs ?_
      simpa [isSentinelLine, dropWs, hc] using hl
    · simp only [isSentinelLine, dropWs, hc, beq_iff_eq, Bool.and_eq_true, if_false, reduceCtorEq] at hl
      obtain ⟨_, e2⟩ := step_bang_atCode s c hs hl.1
      exact procChars_bang_sentinel cs _ _ e2 hl.2

theorem step_atLit (s : FSt) (c : Char) (h : AtLit s) (hc : cls c = .ws ∨ cls c = .bang) :
    step s c = (s, [.ns c]) := by
  obtain ⟨st, sc, vc, fd⟩ := s
  obtain ⟨h1, h2⟩ := h
  simp only at h1 h2; subst h1
  rcases st with _ | ⟨m, r⟩
  · simp at h2
  · rcases h2 with h2 | h2 <;> simp only [List.head?_cons, Option.some.injEq] at h2 <;> subst h2 <;>
      rcases hc with hc | hc <;> (rw [step_nopb] <;> simp [step1, hc])

/-- inside an open character context a line that looks like a sentinel is text: visible as well -/
theorem sentinel_vis_atLit (l : List Char) : ∀ (s : FSt) (b : OSL), AtLit s →
    isSentinelLine l = true → (procChars s b l).2.hasVis = true := by
  induction l with
  | nil => intro s b _ h; simp [isSentinelLine, dropWs] at h
  | cons c cs ih =>
    intro s b hs hl
    simp only [procChars]
    by_cases hc : cls c = .ws
    · rw [step_atLit s c hs (Or.inl hc)]
      refine ih s _ hs ?_
      simpa [isSentinelLine, dropWs, hc] using hl
    · simp only [isSentinelLine, dropWs, hc, beq_iff_eq, Bool.and_eq_true, if_false, reduceCtorEq] at hl
      rw [step_atLit s c hs (Or.inr hl.1)]
      apply procChars_hasVis_mono
      rw [hasVis_addAll]
      simp [vis_ns, isWs, hl.1]

/-- blank lines: only merged blanks reach the buffer -/
theorem blank_onlySp (l : List Char) : ∀ (s : FSt) (b : OSL), AtCode s → b.OnlySp →
    isBlankLine l = true → (procChars s b l).2.OnlySp := by
  induction l with
  | nil => intro s b _ hb _; simpa [procChars] using hb
  | cons c cs ih =>
    intro s b hs hb hl
    simp only [procChars]
    by_cases hc : cls c = .ws
    · rw [step_ws_atCode s c hs hc]
      refine ih s _ hs (onlySp_addAll b _ hb (by simp) (by simp)) ?_
      simpa [isBlankLine, dropWs, hc] using hl
    · simp [isBlankLine, dropWs, hc] at hl

theorem onlySp_empty : ({} : OSL).OnlySp := Or.inl ⟨rfl, rfl⟩

end CbiVerif.Fortran
