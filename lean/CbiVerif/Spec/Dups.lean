import CbiVerif.Model.Dups
/-! # C16 — what "the duplicates report lists exactly the sets of byte-identical files" means

Written from the property text: *the report lists exactly the groups of two or more code-base files
(symbolic links excepted) whose contents are byte-for-byte identical: files within a group are
identical, files in different groups differ, every file having an identical twin in the code base is
listed, and no file with unique content is.*
-/
namespace CbiVerif.Dups
variable {C : Type}

/-- a code-base file that is not a symbolic link -/
def Regular (f : File C) : Prop := f.isMember = true ∧ f.isSymlink = false

/-- `b` is an identical twin of `a` in the code base: another regular member (another path) with the same bytes -/
def Twin (files : List (File C)) (a b : File C) : Prop :=
  b ∈ files ∧ Regular b ∧ b.path ≠ a.path ∧ b.content = a.content

/-- a path denotes one file: enumerating a path twice yields the same record -/
def Functional (files : List (File C)) : Prop :=
  ∀ a ∈ files, ∀ b ∈ files, a.path = b.path → a = b

/-- `R` is an exact duplicates report for the enumerated `files` -/
structure ExactReport (files : List (File C)) (R : List (List (File C))) : Prop where
  /-- only code-base files are listed, symbolic links never -/
  listed_regular : ∀ g ∈ R, ∀ a ∈ g, a ∈ files ∧ Regular a
  /-- groups of two or more -/
  two_or_more : ∀ g ∈ R, 2 ≤ g.length
  /-- no path occurs twice in the whole report: groups are sets and pairwise disjoint -/
  no_repeat : (R.flatten.map File.path).Nodup
  /-- files within a group are identical -/
  within_identical : ∀ g ∈ R, ∀ a ∈ g, ∀ b ∈ g, a.content = b.content
  /-- files in different groups differ -/
  across_differ : R.Pairwise (fun g₁ g₂ => ∀ a ∈ g₁, ∀ b ∈ g₂, a.content ≠ b.content)
  /-- every file having an identical twin is listed (in one group with that twin) -/
  twins_listed : ∀ a ∈ files, Regular a → ∀ b, Twin files a b → ∃ g ∈ R, a ∈ g ∧ b ∈ g
  /-- no file with unique content is listed -/
  unique_not_listed : ∀ a, (∀ b, ¬ Twin files a b) → ∀ g ∈ R, a ∉ g

/-- equality of two reports as sets of sets -/
def SameSetOfSets (R R' : List (List (File C))) : Prop :=
  (∀ g ∈ R, ∃ g' ∈ R', g.Perm g') ∧ (∀ g' ∈ R', ∃ g ∈ R, g'.Perm g)

end CbiVerif.Dups
