"""Where do the running cleaners and the hand-written Lean models differ?  (C05 / C17 failing-input search)

`tools/gen/cleaner.py` regenerates the transition tables of `c_cleaner` / `fortran_cleaner` by executing the
code; the table theorems (`C05.step_table_agrees`, …) compare them with the models at build time.  When such a
theorem no longer builds, the harness asks the *driver* (which still builds: it does not import the generated
tables) for the model's cells (`cclean_cells` / `fclean_cells`), diffs them here against the freshly generated
table and turns every differing cell into texts that drive the implementation into that cell: a shortest
prefix reaching the stack (found by breadth-first search in the regenerated tables), then every short
continuation over the property's alphabet plus the characters of the differing class.
"""
from __future__ import annotations

import importlib.util
import itertools
from pathlib import Path

from harness import core

_gen = None


def gen():
    global _gen
    if _gen is None:
        p = core.VERIF / "tools" / "gen" / "cleaner.py"
        spec = importlib.util.spec_from_file_location("gen_cleaner_for_diff", p)
        _gen = importlib.util.module_from_spec(spec)
        spec.loader.exec_module(_gen)
    return _gen


C_ALPHA = "a \n/*\"'\\#"
NICE = {0: "a", 9: " "}  # printable stand-ins for the classes whose smallest member is NUL / TAB


def _nice(ch):
    return NICE.get(ord(ch), ch)


# --------------------------------------------------------------------------
# C
# --------------------------------------------------------------------------
def c_suspects(drv):
    """-> {"error": str|None, "cells": [human-readable differing cells], "stacks": {stack names tuple: set(chars)},
           "data": regenerated tables}"""
    G = gen()
    out = {"error": None, "cells": [], "stacks": {}, "data": None}
    try:
        D = G.c_data(core.REPO)
    except Exception as e:  # the extraction itself fails: every stack that can still be enumerated is suspect
        out["error"] = f"{type(e).__name__}: {e}"
        try:
            fs = G.load_file_source(core.REPO)
            P = G.CProbe(fs)
            P.discover()
            out["stacks"] = {st: set() for st in P.reach[False]}
            out["data"] = {"P": P, "fs": fs, "fallback": True}
        except Exception as e2:  # noqa
            out["error"] += f"; state discovery: {type(e2).__name__}: {e2}"
        return out
    out["data"] = D
    P, reps, step = D["P"], D["reps"], D["step"]
    stacks = P.reach[False]
    chars = list(D["cls_of"])
    rep = drv.ask({"op": "cclean_cells", "stacks": [P.ids(st) for st in stacks],
                   "bodies": [[ord(c) for c in b] for b in D["bodies"]], "codepoints": [ord(c) for c in chars]})
    classes = rep["classes"]  # [[name, idx]] in the order of the entries
    model_cls = {ch: rep["charclass"][i][0] for i, ch in enumerate(chars)}
    members = {name: [ch for ch in chars if model_cls[ch] == name and ord(ch) < 128] for name, _ in classes}
    pos = {name: j for j, (name, _) in enumerate(classes)}

    def sus(st, chs, what):
        out["stacks"].setdefault(st, set()).update(chs)
        if len(out["cells"]) < 40:
            out["cells"].append(what)

    def ent(e):
        return [bool(e[0]), list(e[1]), list(e[2])]

    for si, st in enumerate(stacks):
        for bi, blank in enumerate((False, True)):
            # the model's classes against the code's classes
            for j, (name, idx) in enumerate(classes):
                m = rep["step"][si][bi][j]
                g = ent(step[(False, st, blank, idx)]) if idx < len(reps) else None
                if m != g:
                    pick = [c for c in members[name] if c in C_ALPHA and c != "\n"] or \
                           [c if name == "ws" else _nice(c) for c in members[name] if c != "\n"][:1]
                    sus(st, pick, f"step {list(st)} blank={blank} class {name}: code {g} model {m}")
            # characters the code puts into another class than the model
            for i, ch in enumerate(chars):
                if ord(ch) >= 128:
                    continue
                gi = D["cls_of"][ch]
                if gi != rep["charclass"][i][1]:
                    m = rep["step"][si][bi][pos[model_cls[ch]]]
                    g = ent(step[(False, st, blank, gi)])
                    if m != g:
                        sus(st, [ch], f"step {list(st)} blank={blank} character {ch!r} (model class {model_cls[ch]}): code {g} model {m}")
        m = rep["newline"][si]
        g = ent(D["newline"][(False, st)])
        if m != g:
            sus(st, [], f"logical_newline {list(st)}: code {g} model {m}")
        for bj, body in enumerate(D["bodies"]):
            m = rep["lines"][si][bj]
            e = D["lines"][(False, st, body)]
            g = [bool(e[0]), list(e[1]), bool(e[2]), bool(e[3]), list(e[4])]
            if m != g:
                sus(st, [_nice(c) for c in body], f"c_file_source line {body!r} from {list(st)}: code {g} model {m}")
    return out


def c_prefixes(D):
    """shortest texts that bring `c_file_source`'s cleaner into each (stack, buffer-is-blank), by breadth-first search
    in the regenerated tables (characters: one per class; `\\`-newline keeps the stack; newline = the `lines` row of
    the empty body)"""
    P = D["P"]
    if D.get("fallback"):
        return _c_prefixes_by_execution(D)
    reps, step, lines = D["reps"], D["step"], D["lines"]
    init = P.reach[False][0]
    seen = {(init, True): ""}
    queue = [(init, True)]
    while queue:
        st, blank = queue.pop(0)
        pre = seen[(st, blank)]
        nxt = []
        for i, r in enumerate(reps):
            e = step[(False, st, blank, i)]
            if e[0]:
                continue
            st2 = tuple(P.states[k] for k in reversed(e[1]))
            nxt.append((st2, blank and all(k == 0 for k in e[2]), pre + _nice(r)))
        nxt.append((st, True, pre + "\\\n"))
        e = lines.get((False, st, ""))
        if e is not None and not e[0]:
            nxt.append((tuple(P.states[k] for k in reversed(e[1])), True, pre + "\n"))
        for st2, b2, t in nxt:
            if (st2, b2) not in seen and len(t) <= 12:
                seen[(st2, b2)] = t
                queue.append((st2, b2))
    return seen


def _c_prefixes_by_execution(D):
    P, fs = D["P"], D["fs"]
    init = P.reach[False][0]
    seen = {(init, True): ""}
    queue = [(init, True)]
    while queue:
        st, blank = queue.pop(0)
        for ch in "a \"#'*/\\":
            r = P.run(False, list(st), ([], False) if blank else (["x"], False), ch)
            if r[0] == "raise":
                continue
            key = (r[0], blank and all(e == "sp" for e in r[1]))
            if key not in seen and len(seen[(st, blank)]) < 10:
                seen[key] = seen[(st, blank)] + ch
                queue.append(key)
    return seen


def c_biased_texts(sus, cap=150000):
    """prefix + every continuation of length <= depth over the alphabet plus the suspect characters (+ newline)"""
    D = sus["data"]
    if not D or not sus["stacks"]:
        return
    pre = c_prefixes(D)
    targets = []
    for st, chs in sus["stacks"].items():
        ps = [pre[k] for k in ((st, True), (st, False)) if k in pre]
        if not ps and not any(k[0] == st for k in pre):
            continue
        alpha = C_ALPHA + "".join(sorted(c for c in chs if c not in C_ALPHA))
        targets.append((sorted(set(ps), key=len), alpha))
    if not targets:
        return
    n = sum(len(ps) for ps, _ in targets)
    depth = 5
    while depth > 2 and n * sum(len(C_ALPHA) ** k for k in range(depth + 1)) > cap:
        depth -= 1
    seen = set()
    for L in range(depth + 1):
        for ps, alpha in targets:
            for tup in itertools.product(alpha, repeat=L):
                for p in ps:
                    for t in (p + "".join(tup), p + "".join(tup) + "\n"):
                        if t not in seen:
                            seen.add(t)
                            yield t


# --------------------------------------------------------------------------
# Fortran
# --------------------------------------------------------------------------
F_ALPHA = "a !&'\"$#\n"


def f_suspects(drv):
    """-> {"error", "cells": [...], "targets": [(prefix text reaching the start configuration, differing line, extra chars)],
           "dtargets": [(directive-line prefix reaching the C-pass stack, extra chars)]}"""
    G = gen()
    out = {"error": None, "cells": [], "targets": [], "dtargets": []}
    try:
        D = G.f_data(core.REPO)
    except Exception as e:  # noqa
        out["error"] = f"{type(e).__name__}: {e}"
        return out
    P, starts, rows, lines, reps = D["P"], D["starts"], D["rows"], D["lines"], D["reps"]
    C = D["c"]
    CP = C["P"]
    dstacks = CP.reach[True]
    chars = [c for c in D["cls_of"] if ord(c) < 128 or ord(c) in (133, 160)]
    rep = drv.ask({"op": "fclean_cells",
                   "starts": [[P.ids(s0[0]), [ord(c) for c in s0[1]]] for s0 in starts],
                   "lines": [[ord(c) for c in ln] for ln in lines],
                   "codepoints": [ord(c) for c in chars],
                   "dstacks": [CP.ids(st) for st in dstacks]})

    def note(what):
        if len(out["cells"]) < 40:
            out["cells"].append(what)

    # shortest line sequences that bring the cleaner into each start configuration (BFS in the regenerated rows)
    pre = {starts[0]: ""}
    queue = [starts[0]]
    nice = {"\x00": "1", "\t": " ", "A": "a"}
    show = lambda ln: "".join(nice.get(c, c) for c in ln)  # noqa: E731
    while queue:
        s0 = queue.pop(0)
        for ln in lines:
            e = rows[(s0, ln)]
            if e[0]:
                continue
            s1 = (tuple(P.states[k] for k in reversed(e[1])), tuple(chr(c) for c in e[2]))
            if s1 not in pre and s1 in starts:
                pre[s1] = pre[s0] + show(ln) + "\n"
                queue.append(s1)
    for si, s0 in enumerate(starts):
        for li, ln in enumerate(lines):
            e = rows[(s0, ln)]
            g = [bool(e[0]), list(e[1]), list(e[2]), list(e[3]), bool(e[4])]
            m = rep["lines"][si][li]
            if m != g:
                note(f"process({show(ln)!r}) from {list(s0[0])}: code {g} model {m}")
                if s0 in pre:
                    out["targets"].append((pre[s0], show(ln), ""))
    # characters the code classifies differently from the model: put them into every context line
    for i, ch in enumerate(chars):
        if D["cls_of"][ch] != rep["charclass"][i]:
            note(f"character {ch!r}: code class {D['cls_of'][ch]} model class {rep['charclass'][i]}")
            for s0 in starts:
                if s0 in pre:
                    for p in [""] + [show(r) for r in reps]:
                        out["targets"].append((pre[s0], p + ch, ch))
    # the C pass in directives_only mode
    cstep, cnl, ccls = C["step"], C["newline"], C["cls_of"]
    dpre = _d_prefixes(C)
    for si, st in enumerate(dstacks):
        bad = set()
        for bi, blank in enumerate((False, True)):
            for n in range(128):
                e = cstep[(True, st, blank, ccls[chr(n)])]
                if rep["dstep"][si][bi][n] != [bool(e[0]), list(e[1]), list(e[2])]:
                    bad.add(chr(n))
                    note(f"c_cleaner(directives_only) {list(st)} blank={blank} {chr(n)!r}: code {list(e)} model {rep['dstep'][si][bi][n]}")
        e = cnl[(True, st)]
        if rep["dnewline"][si] != [bool(e[0]), list(e[1]), list(e[2])]:
            bad.add("\n")
            note(f"logical_newline (directives_only) {list(st)}: code {list(e)} model {rep['dnewline'][si]}")
        if bad:
            for p in [dpre[k] for k in ((st, True), (st, False)) if k in dpre]:
                picks = sorted(bad, key=lambda c: (c not in F_ALPHA, c))[:6]
                out["dtargets"].append((p, "".join(picks)))
    return out


def _d_prefixes(C):
    """shortest in-line texts (plus `\\`-newline) reaching each directives-only C-pass stack"""
    P, reps, step = C["P"], C["reps"], C["step"]
    init = P.reach[True][0]
    seen = {(init, True): ""}
    queue = [(init, True)]
    while queue:
        st, blank = queue.pop(0)
        pre = seen[(st, blank)]
        nxt = [(st, True, pre + "\\\n")]
        for i, r in enumerate(reps):
            e = step[(True, st, blank, i)]
            if not e[0]:
                nxt.append((tuple(P.states[k] for k in reversed(e[1])), blank and all(k == 0 for k in e[2]), pre + _nice(r)))
        for st2, b2, t in nxt:
            if (st2, b2) not in seen and len(t) <= 12:
                seen[(st2, b2)] = t
                queue.append((st2, b2))
    return seen


def f_biased_texts(sus, cap=60000):
    """Fortran texts around the differing cells: lines bringing the cleaner into the start configuration, the
    differing line extended by every continuation of length <= 2, then closing lines"""
    tails = ["", "\n", "\nb\n", "\n&b\n", "\n'\n", "\n\"\n", "\n& 'c'\n", "\n!c\n b\n", "'\n", "\"\n", " b\n", "\n#if 1\n#endif\n"]
    seen = set()
    n = 0
    for pre, line, extra in sus["targets"]:
        alpha = F_ALPHA.replace("\n", "") + extra
        for L in range(3):
            for tup in itertools.product(alpha, repeat=L):
                for tl in tails:
                    t = pre + line + "".join(tup) + tl
                    if t not in seen:
                        seen.add(t)
                        n += 1
                        yield t
        if n > cap:
            break
    for pre, picks in sus["dtargets"]:
        alpha = "a '\"/*\\" + "".join(c for c in picks if c not in "a '\"/*\\")
        for L in range(4):
            for tup in itertools.product(alpha, repeat=L):
                for tl in ["\n", "\nx = 1\n", "\n#endif\n", "\n'\nx\n"]:
                    for head in ("", "x = 1\n"):
                        t = head + pre + "".join(tup) + tl
                        if t not in seen:
                            seen.add(t)
                            n += 1
                            yield t
        if n > 3 * cap:
            break


# --------------------------------------------------------------------------
# Fortran: the loop of fortran_file_source
# --------------------------------------------------------------------------
_LOOP_NICE = {"\x00": "1", "\t": " ", "A": "a"}
# when the loop can no longer be tabulated: prefixes that reach every kind of loop configuration x line kinds
_LOOP_FALLBACK_PRE = [[], ["a &"], ["a&"], [" &"], ["&"], ["'a&"], ['"a&'], ["a &", " ! c"], ["a &", "#define X"],
                      ["'a&", "#define X"], ["'"], ['"']]
_LOOP_FALLBACK_KINDS = [["b"], [" b"], ["b "], ["! c"], [" ! c"], ["!$ c"], ["&"], [" &"], ["&b"], [" & b"], ["b &"], ["b&"],
                        ["&b'"], ['&b"'], ["'b'"], ["'b&"], ["#define Y"], [" #define Y"], ["&#"], ["& #"], ["b\\", "b"], [""]]


def _loop_show(lines):
    return ["".join(_LOOP_NICE.get(c, c) for c in ln) for ln in lines]


def f_loop_suspects(drv):
    """-> {"error", "cells": [...], "targets": [(prefix lines, probe lines)]}: the probes of the regenerated loop table
    (`tools/gen/cleaner.py: floop_tables`, executed on the checkout) on which the model's `fStep` (driver op
    `floop_cells`, the functions `C17.floop_table_agrees` is about) gives something else than the running loop"""
    G = gen()
    out = {"error": None, "cells": [], "targets": []}
    try:
        T = G.loop_data(core.REPO)
    except Exception as e:  # noqa
        out["error"] = f"{type(e).__name__}: {e}"
        out["targets"] = [(p, k) for p in _LOOP_FALLBACK_PRE for k in _LOOP_FALLBACK_KINDS]
        return out

    def ys(l):
        return [[list(y[0]), [ord(c) for c in y[1]], bool(y[2])] for y in l]

    cfgs = T["configs"]
    rep = drv.ask({"op": "floop_cells", "configs": [
        {"pre": ys(c["preC"]), "n": len(c["pre"]),
         "probes": [{"c": ys(cs), "n": len(kind)} for kind, cs, _ in c["rows"]]} for c in cfgs]})

    def note(what):
        if len(out["cells"]) < 40:
            out["cells"].append(what)

    for c, m in zip(cfgs, rep["configs"]):
        k = c["key"]
        gk = [list(k[0][0]), list(k[0][1]), k[1], bool(k[2]), bool(k[3])]
        if m["key"] != gk:
            note(f"configuration after {_loop_show(c['pre'])}: code {gk} model {m['key']}")
            out["targets"].append((c["pre"][:-1], c["pre"][-1:]))
        for (kind, cs, e), me in zip(c["rows"], m["rows"]):
            g = [bool(e[0]), ys(e[1]), [list(e[2][0]), list(e[2][1])], ys(e[3]), bool(e[4]), ys(e[5]), ys(e[6])]
            if g != me:
                note(f"fortran_file_source on {_loop_show(kind)} after {_loop_show(c['pre'])}: code {g} model {me}")
                out["targets"].append((c["pre"], kind))
    return out


def f_loop_texts(sus, cap=40000):
    """texts around the differing iterations: the prefix, the probe (as it is and extended by one character), then lines
    that close the statement / the character context in every way"""
    tails = [[], ["b"], [" b"], ["&b"], [" & b"], ["&"], ["! c", "b"], ["", "b"], ["&b'"], ['&b"'], ["b'"], ['b"'], ["'"], ['"'],
             ["#define Y", "b"], ["#if 1", "&b", "#endif"], ["! c"], ["b &", "c"]]
    seen = set()
    n = 0
    for pre, kind in sus["targets"]:
        P, K = _loop_show(pre), _loop_show(kind)
        variants = [K]
        if len(K) == 1:
            variants += [[K[0] + x] for x in "a &!'\""] + [[x + K[0]] for x in "a &'\""]
        for heads in ([], ["x = 1"]):
            for V in variants:
                for tl in tails:
                    t = "\n".join(heads + P + V + tl) + "\n"
                    if t not in seen:
                        seen.add(t)
                        n += 1
                        yield t
        if n > cap:
            break
