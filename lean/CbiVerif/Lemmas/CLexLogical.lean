import CbiVerif.Lemmas.CLexText
/-! # C05: the specification's logical lines against the per-line reference data -/
namespace CbiVerif.CLexSim
open CbiVerif.CClean CbiVerif.CLexRef CbiVerif.CText

theorem segments_body (body : List Surv) : ∀ (rest cur : List Surv), (∀ x ∈ body, x.isNl = false) →
    segments (body ++ rest) cur = segments rest (body.reverse ++ cur) := by
  induction body with
  | nil => intro rest cur _; rfl
  | cons x body ih =>
    intro rest cur h
    cases x with
    | nl n => have := h (.nl n) (by simp); simp [Surv.isNl] at this
    | ch c n lit =>
      simp only [List.cons_append, segments]
      rw [ih rest _ (fun y hy => h y (by simp [hy]))]
      simp

theorem find_nonWhite_ch (xs : List Surv) (x : Surv) (h : xs.find? (fun s => !s.isWhite) = some x) :
    ∃ c n lit, x = .ch c n lit := by
  have := List.find?_some h
  cases x with
  | nl n => simp [Surv.isWhite] at this
  | ch c n lit => exact ⟨c, n, lit, rfl⟩

theorem firstNonWhite_append (a b : List Surv) : firstNonWhite (a ++ b) = (firstNonWhite a).or (firstNonWhite b) := by
  unfold firstNonWhite
  rw [List.find?_append]
  cases ha : a.find? (fun s => !s.isWhite) with
  | none => simp
  | some x =>
    obtain ⟨c, n, lit, rfl⟩ := find_nonWhite_ch a x ha
    simp

theorem firstNonWhite_isSome (xs : List Surv) : (firstNonWhite xs).isSome = xs.any (fun x => !x.isWhite) := by
  induction xs with
  | nil => rfl
  | cons x xs ih =>
    cases x with
    | nl n => simpa [firstNonWhite, List.find?_cons, Surv.isWhite] using ih
    | ch c n lit =>
      cases hw : cWhite c
      · simp [firstNonWhite, Surv.isWhite, hw]
      · simpa [firstNonWhite, List.find?_cons, Surv.isWhite, hw] using ih

theorem lead_or (v : Option Cls) (es : List REmit) : lead v es = v.or (lead none es) := by
  cases v with
  | none => rfl
  | some k => simp [lead_some]

theorem classify_hash (c : Char) : (classify c == Cls.hash) = (c == '#') := by
  by_cases h : c = '#'
  · subst h; decide
  · have : classify c ≠ Cls.hash := by
      unfold classify
      repeat' split
      all_goals simp_all
    have h2 : (c == '#') = false := by simpa using h
    have h3 : (classify c == Cls.hash) = false := by simpa using this
    rw [h2, h3]

/-- the category test of the joined buffer is the specification's directive test -/
theorem dir_iff (seg : List Surv) : (catV ((firstNonWhite seg).map classify) == Cat.cppDirective) = startsHash seg := by
  unfold startsHash
  cases h : firstNonWhite seg with
  | none => simp [catV]
  | some c =>
    simp only [Option.map_some, catV, classify_hash c]
    by_cases he : c = '#'
    · subst he; decide
    · have h2 : (c == '#') = false := by simpa using he
      have h3 : (some c == some '#') = false := by simpa using he
      rw [h2, h3]; decide

theorem catV_blank (v : Option Cls) : (catV v != Cat.blank) = v.isSome := by
  cases v with
  | none => rfl
  | some k => simp only [catV]; split <;> rfl

theorem linesOf_nil (cnt : Nat) : linesOf cnt [] = [] := by
  simp [linesOf]

/-- summary of a logical line as the specification reports it: (is a directive, counted lines) -/
def sumPair (x : LSum) : Bool × List Nat := (x.2.2.2 == Cat.cppDirective, x.2.2.1)

theorem spec_expect (cnt : Nat) (rs : List RawLine) : ∀ (s : DState) (n : Nat) (scs : List Scan) (cur : List Surv)
    (v : Option Cls) (lines : List Nat) (start : Nat),
    scanPer s (n + 1) rs = some scs → (∀ sc ∈ scs, sc.k1 = false) → (∀ r ∈ rs, plainLine r = true) →
    n + rs.length = cnt → (∀ x ∈ cur, x.lineNo < n + 1) → (∀ x ∈ cur, x.plain = true) →
    v = (firstNonWhite cur.reverse).map classify → lines = linesOf cnt cur.reverse → (lines = [] ↔ v = none) →
    (((segments (scs.flatMap (·.out)) cur).map fun seg => (startsHash seg, linesOf cnt seg)).filter fun p => !p.2.isEmpty)
      = ((expect v start lines n (scs.map ldOf)).filter fun x => x.2.2.2 != Cat.blank).map sumPair := by
  induction rs with
  | nil =>
    intro s n scs cur v lines start h _ _ _ _ _ hv hl hvl
    simp only [scanPer, Option.some.injEq] at h
    subst h
    simp only [List.flatMap_nil, segments, List.map_nil, expect, List.filter_cons, catV_blank]
    cases hc : cur with
    | nil =>
      subst hc
      simp only [List.reverse_nil, firstNonWhite, List.find?_nil, Option.map_none] at hv
      subst hv
      simp
    | cons x xs =>
      rw [← hc]
      have hne : cur.isEmpty = false := by simp [hc]
      simp only [hne, Bool.false_eq_true, if_false, List.map_cons, List.map_nil, List.filter_cons, List.filter_nil,
        ← hl]
      cases hv2 : v with
      | none =>
        have : lines = [] := hvl.mpr hv2
        simp [this]
      | some k =>
        have : lines ≠ [] := fun e => by rw [hvl.mp e] at hv2; simp at hv2
        have hle : lines.isEmpty = false := by cases lines <;> simp_all
        simp only [hle, Bool.not_false, if_true, Option.isSome_some, List.map_cons, List.map_nil, sumPair,
          List.cons.injEq, Prod.mk.injEq, and_true]
        rw [← hv2, hv, dir_iff]
  | cons r rs ih =>
    intro s n scs cur v lines start h hk hp hcnt hcur hcurp hv hl hvl
    simp only [scanPer] at h
    cases hd : decomment s (lineItems (n + 1) r) with
    | none => simp [hd] at h
    | some sc =>
      simp only [hd] at h
      cases hr : scanPer sc.st (n + 1 + 1) rs with
      | none => simp [hr] at h
      | some rest =>
        simp only [hr, Option.some.injEq] at h
        subst h
        obtain ⟨t1, t2, ends, body, hout, hnonl, hld⟩ := line_out s (n + 1) r sc hd (hk sc (by simp)) (hp r (by simp))
        simp only [List.length_cons] at hcnt
        have hb1 : ∀ x ∈ body, x.lineNo = n + 1 := fun x hx => t1 x (by rw [hout]; simp [hx])
        have hb2 : ∀ x ∈ body, x.plain = true := fun x hx => t2 x (by rw [hout]; simp [hx])
        have hcur' : ∀ x ∈ cur.reverse, x.lineNo < n + 1 := fun x hx => hcur x (by simpa using hx)
        have hlines : linesOf cnt (cur.reverse ++ body) =
            (if anyVisible (renderAll body) then lines ++ [n + 1] else lines) := by
          rw [linesOf_append cnt (n + 1) cur.reverse body hcur' hb1 (by omega) (by omega), ← hl,
            anyVisible_renderAll body hb2]
          cases body.any (fun x => !x.isWhite) <;> simp
        have hlead : lead v (renderAll body) = (firstNonWhite (cur.reverse ++ body)).map classify := by
          rw [lead_or, lead_renderAll body hb2, firstNonWhite_append, hv]
          cases firstNonWhite cur.reverse <;> simp
        have hvl' : ((if anyVisible (renderAll body) then lines ++ [n + 1] else lines) = [] ↔
            lead v (renderAll body) = none) := by
          rw [lead_or]
          have hs := lead_isSome (renderAll body)
          cases hvis : anyVisible (renderAll body)
          · rw [hvis] at hs
            have : lead none (renderAll body) = none := by
              cases hx : lead none (renderAll body) <;> simp [hx] at hs ⊢
            simp only [Bool.false_eq_true, if_false, this]
            cases v <;> simpa using hvl
          · rw [hvis] at hs
            cases hx : lead none (renderAll body) with
            | none => simp [hx] at hs
            | some k => cases v <;> simp
        simp only [List.flatMap_cons, List.map_cons, hld, expect]
        rw [hout, List.append_assoc, segments_body body _ cur hnonl]
        cases ends with
        | true =>
          simp only [if_true, List.singleton_append, segments, List.reverse_append, List.reverse_reverse,
            List.map_cons, List.filter_cons, catV_blank]
          have ih' := ih sc.st (n + 1) rest [] none [] (n + 2) hr (fun y hy => hk y (by simp [hy]))
            (fun y hy => hp y (by simp [hy])) (by omega) (by simp) (by simp) (by simp [firstNonWhite])
            (by simp [linesOf_nil]) (by simp)
          rw [ih', hlines]
          cases hx : lead v (renderAll body) with
          | none =>
            have := hvl'.mpr hx
            simp [this]
          | some k =>
            have hne : (if anyVisible (renderAll body) then lines ++ [n + 1] else lines) ≠ [] :=
              fun e => by rw [hvl'.mp e] at hx; simp at hx
            have hle : (if anyVisible (renderAll body) = true then lines ++ [n + 1] else lines).isEmpty = false := by
              cases hq : (if anyVisible (renderAll body) = true then lines ++ [n + 1] else lines) <;> simp_all
            simp only [hle, Bool.not_false, if_true, Option.isSome_some, List.map_cons, sumPair, List.cons.injEq,
              Prod.mk.injEq, and_true]
            rw [← hx, hlead, dir_iff]
        | false =>
          simp only [Bool.false_eq_true, if_false, List.nil_append]
          have hcurn : ∀ x ∈ body.reverse ++ cur, x.lineNo < n + 1 + 1 := by
            intro x hx
            simp only [List.mem_append, List.mem_reverse] at hx
            rcases hx with hx | hx
            · have := hb1 x hx; omega
            · have := hcur x hx; omega
          have hcurp' : ∀ x ∈ body.reverse ++ cur, x.plain = true := by
            intro x hx
            simp only [List.mem_append, List.mem_reverse] at hx
            rcases hx with hx | hx
            · exact hb2 x hx
            · exact hcurp x hx
          exact ih sc.st (n + 1) rest (body.reverse ++ cur) _ _ start hr (fun y hy => hk y (by simp [hy]))
            (fun y hy => hp y (by simp [hy])) (by omega) hcurn hcurp'
            (by rw [hlead]; simp) (by rw [← hlines]; simp) hvl'

end CbiVerif.CLexSim
