#!/venv/bin/python
"""Regenerate lean/CbiVerif.lean (the library root) from the files present under lean/CbiVerif/."""
from pathlib import Path
L = Path(__file__).resolve().parents[1] / "lean"
mods = sorted("CbiVerif." + ".".join(p.relative_to(L / "CbiVerif").with_suffix("").parts) for p in (L / "CbiVerif").rglob("*.lean"))
(L / "CbiVerif.lean").write_text("".join(f"import {m}\n" for m in mods))
print(len(mods), "modules")
