import CbiVerif.Generated.Logging
import CbiVerif.Generated.Tables
/-! # Model of the warnings CBI issues for input it cannot honour, and of the
`WarningAggregator` / `MetaWarning` counters (codebasin/_detail/logging.py) that produce the
closing totals of a run.

* `Event`/`renderL`: the typed events and the text of their log records
  (`IncludeNode.evaluate_for_platform`, `FileParser.insert_directive_node`, `config.load_database`,
  `config.ArgumentParser`).
* `inspect`/`countFor`/`counts`/`closing`: the aggregator, with the regexes, messages, counted
  level and category phrases **regenerated from the code** (`Generated/Logging.lean`).  A regex
  without metacharacters is searched as a substring (`re.search`), `"."` matches any character
  other than a newline.
-/
namespace CbiVerif.Warn

/-- substring search (`re.search` of a literal) -/
def containsSub : List Char → List Char → Bool
  | [], pat => pat.isEmpty
  | c :: cs, pat => pat.isPrefixOf (c :: cs) || containsSub cs pat

inductive Kind
  | userInclude | systemInclude | unknownDirective
  | missingFile | unknownCompiler | unknownArgs | noFiles
deriving DecidableEq, Repr

/-- one thing the analysis could not honour -/
structure Event where
  kind : Kind
  file : String := ""      -- source-level events: file …
  line : Nat := 0          -- … and line
  col : Nat := 0
  name : String := ""      -- requested header / directive name / path / compiler / arguments / database
  spelling : String := ""  -- source-level events: the directive as written
deriving DecidableEq, Repr

def natL (n : Nat) : List Char := (toString n).toList
/-- `f"{line:>5}"` -/
def padLeft5 (l : List Char) : List Char := List.replicate (5 - l.length) ' ' ++ l

def includePhrase (sys : Bool) : String := if sys then Gen.includeKindSystem else Gen.includeKindUser

def includeMsg (sys : Bool) (e : Event) : List Char :=
  (e.file.toList ++ ":".toList ++ natL e.line ++ ": ".toList) ++ (includePhrase sys).toList ++
    (" '".toList ++ e.name.toList ++ "' not found\n".toList ++ padLeft5 (natL e.line) ++ " | ".toList ++ e.spelling.toList)

/-- the `msg` of the log record of an event -/
def renderL (e : Event) : List Char :=
  match e.kind with
  | .userInclude => includeMsg false e
  | .systemInclude => includeMsg true e
  | .unknownDirective =>
    e.file.toList ++ ":".toList ++ natL e.line ++ ":".toList ++ natL e.col ++
      ": unrecognized directive '['".toList ++ e.spelling.toList ++ "']'".toList
  | .missingFile => "Ignoring non-existent file: ".toList ++ e.name.toList
  | .unknownCompiler => "Compiler '".toList ++ e.name.toList ++ "' not recognized.".toList
  | .unknownArgs => "Unrecognized arguments: '".toList ++ e.name.toList ++ "'".toList
  | .noFiles =>
    "No files found in compilation database at '".toList ++ e.name.toList ++
      "'.\nEnsure that 'directory' and 'file' are in the root directory.".toList

def render (e : Event) : String := String.ofList (renderL e)

/-! ## the aggregator -/
structure Record where
  level : String
  msg : List Char

/-- `regex.search(record.msg)` for the regenerated patterns -/
def matchesRegex (regex : String) (msg : List Char) : Bool :=
  if regex == "." then msg.any (· != '\n') else containsSub msg regex.toList

/-- does this record increment the counter of the meta-warning with pattern `regex`?
(`WarningAggregator.filter` + `MetaWarning.inspect`) -/
def inspect (regex : String) (r : Record) : Bool :=
  r.level == Gen.aggregatorLevel && matchesRegex regex r.msg

/-- `MetaWarning._count` after the records `rs` went through the handler -/
def countFor (regex : String) (rs : List Record) : Nat :=
  rs.foldl (fun c r => if inspect regex r then c + 1 else c) 0

/-- the counters, in `meta_warnings` order -/
def counts (rs : List Record) : List Nat := Gen.metaWarnings.map fun mw => countFor mw.1 rs

def fillIn (msg : String) (n : Nat) : String := msg.replace "{}" (toString n)

/-- `WarningAggregator.warn`: the closing lines (a meta-warning with count 0 prints nothing) -/
def closing (rs : List Record) : List String :=
  Gen.metaWarnings.filterMap fun mw =>
    let n := countFor mw.1 rs
    if n == 0 then none else some (fillIn mw.2 n)

/-- the records of a list of issued events (all are logged with `log.warning`) -/
def recordsOf (es : List Event) : List Record := es.map fun e => ⟨"WARNING", renderL e⟩

/-! ## unknown directives (`insert_directive_node`) at the level of directive names -/
/-- a directive line as the parser classified it -/
structure Directive where
  line : Nat
  recognised : Bool          -- parsed into one of the ten known node kinds
  ntokens : Nat              -- number of tokens of the logical line (`#` included)
  name : String              -- `str(tokens[1])` (if any)
  spelling : String
deriving Repr, DecidableEq

/-- the condition under which `insert_directive_node` warns -/
def Directive.warns (d : Directive) : Bool :=
  !d.recognised && decide (d.ntokens ≥ 2) && !Gen.unhandledDirectives.contains d.name

def directiveEvents (file : String) (ds : List Directive) : List Event :=
  (ds.filter Directive.warns).map fun d => { kind := .unknownDirective, file := file, line := d.line, name := d.name, spelling := d.spelling }

/-! ## database-level events (`load_database`, `ArgumentParser`) -/
structure DbEntry where
  path : String            -- absolute path of the entry's file
  supported : Bool         -- `CompileCommand.is_supported()`
  exists_ : Bool
  compiler : String        -- basename(argv[0])
  known : Bool             -- compiler ∈ built-in / user definitions
  unrecognised : List String   -- what `parse_known_args` left over
  npasses : Nat := 1       -- configurations produced (≥ 1)
deriving Repr

def entryEvents (e : DbEntry) : List Event :=
  if !e.supported then []
  else if !e.exists_ then [{ kind := .missingFile, name := e.path }]
  else
    (if e.known then [] else [{ kind := .unknownCompiler, name := e.compiler }]) ++
    (if e.unrecognised.isEmpty then [] else [{ kind := .unknownArgs, name := " ".intercalate e.unrecognised }])

def dbEvents (dbpath : String) (es : List DbEntry) : List Event :=
  es.flatMap entryEvents ++
    (if es.all (fun e => !e.supported || !e.exists_) then [{ kind := .noFiles, name := dbpath }] else [])

end CbiVerif.Warn
