import CbiVerif.Model.FSource
/-!
# Cells of the `fortran_cleaner` / `c_cleaner(directives_only=True)` models in the vocabulary of the
regenerated tables

`tools/gen/cleaner.py` executes `fortran_cleaner.process(line)` of the checkout from every configuration
reachable at a line start on every line of ≤ 3 characters over the behaviour-class representatives, and
`c_cleaner(directives_only=True).process` / `logical_newline` on every reachable (stack, buffer category,
character) cell; states are numbered in discovery order, characters are code points.  This file fixes the
numbering on the model side and computes the model's entries.  Used by `Lemmas/FCleanRegen.lean`,
`Props/C17Table.lean` and the driver op `fclean_cells`.  Core Lean only.
-/
namespace CbiVerif.Fortran.Regen
open CbiVerif.Fortran

/-- (raises, stack afterwards — top first, `verify_continue`, parts of the line buffer, `trailing_space`) -/
abbrev Entry := Bool × List Nat × List Nat × List Nat × Bool
/-- `c_cleaner` cell: (raises, successor stack, buffer effects: 0 blank, 1 current character, 2 "/") -/
abbrev CEntry := Bool × List Nat × List Nat

/-- discovery order at line starts: TOPLEVEL, DOUBLE_QUOTATION, CONTINUING_FROM_SOL, SINGLE_QUOTATION, ESCAPING
    (`VERIFY_CONTINUE` never survives the end of `process`) -/
def modeId : Mode → Nat
  | .top => 0 | .dq => 1 | .cfs => 2 | .sq => 3 | .esc => 4 | .verify => 99

def modeOfId : Nat → Mode
  | 0 => .top | 1 => .dq | 2 => .cfs | 3 => .sq | 4 => .esc | _ => .verify

/-- class numbers: position of the smallest member (NUL, TAB, `!`, `"`, `$`, `&`, `'`, `A`, `\`) -/
def clsIdx : Cls → Nat
  | .other => 0 | .ws => 1 | .bang => 2 | .dq => 3 | .dollar => 4 | .amp => 5 | .sq => 6 | .alpha => 7 | .bslash => 8

def chars (l : List Nat) : List Char := l.map Char.ofNat

/-- the cleaner between two lines -/
def startSt (k : List Nat × List Nat) : FSt := { stack := k.1.map modeOfId, scan := .run, vc := chars k.2, found := [] }

/-- `process(line)` into a fresh buffer, as the model has it (`procLine`: all characters, then the code after the loop) -/
def lineObs (s : FSt) (l : List Char) : Entry :=
  let r := procLine s l
  (false, r.1.stack.map modeId, r.1.vc.map Char.toNat, r.2.parts.map Char.toNat, r.2.trailing)

/-! ## the C pass in `directives_only` mode (same state numbers as in `Model/CCleanCells.lean`) -/

def dModeId : DMode → Nat
  | .top => 0 | .dq => 1 | .dir => 2 | .sq => 3 | .slash => 4 | .esc => 5 | .blockC => 6 | .lineC => 7 | .blockStar => 8

def dModeOfId : Nat → DMode
  | 0 => .top | 1 => .dq | 2 => .dir | 3 => .sq | 4 => .slash | 5 => .esc | 6 => .blockC | 7 => .lineC | _ => .blockStar

def loadOf (blank : Bool) : OSL := if blank then {} else ⟨['x'], false⟩

def effectCode (c : Option Char) (p : Char) : Nat :=
  if some p == c then 1 else if p == ' ' then 0 else if p == '/' then 2 else 3

/-- what was appended to the buffer, relative to the current character; a final blank part with
    `trailing_space` set is a merged blank (`append_space` / `append_char` of white space), also when the
    current character is the blank itself -/
def effects (c : Option Char) (before after : OSL) : List Nat :=
  let ps := after.parts.drop before.parts.length
  match ps.getLast? with
  | some ' ' => if after.trailing then ps.dropLast.map (effectCode c) ++ [0] else ps.map (effectCode c)
  | _ => ps.map (effectCode c)

/-- one character through `dProcess` (put-back included) from stack `st` with a BLANK / non-BLANK buffer -/
def dCell (st : List DMode) (blank : Bool) (c : Char) : CEntry :=
  match dProcess st (loadOf blank) [c] with
  | .error _ => (true, [], [])
  | .ok (st', ob') => (false, st'.map dModeId, effects (some c) (loadOf blank) ob')

def dNewlineCell (st : List DMode) : CEntry :=
  match dNewline st (loadOf false) with
  | .error _ => (true, [], [])
  | .ok (st', ob') => (false, st'.map dModeId, effects none (loadOf false) ob')

end CbiVerif.Fortran.Regen
