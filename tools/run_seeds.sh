#!/bin/bash
# run_seeds.sh <tier> <seed>... : every registered check under several seeds; prints one line per run, alarms in full
cd "$(dirname "$0")/.."; tier=$1; shift
for seed in "$@"; do
  for p in $(python3 -c "import json;print(' '.join(c['property_id'] for c in json.load(open('MANIFEST.json'))['checks']))"); do
    out=$(VERIF_SEED=$seed ./check $p $tier 2>&1); rc=$?
    echo "seed=$seed rc=$rc $(echo "$out" | tail -1)"
    if [ $rc -ne 0 ]; then echo "$out" | grep -E "^VIOLATION|INTERNAL|Traceback" -A4 | head -12; fi
  done
done
