"""C03 — macro definition and expansion conform to the C standard.

Implementation: MacroExpander(platform).expand(tokens) (token kinds + spellings), IfNode.evaluate_for_platform
                (truth of `#if text`), macro_from_definition_string / DirectiveParser+DefineNode (definitions)
Model (Lean):   CbiVerif.MX.cbiExpand (total step machine), driver op "c03" / "c03def"
Spec (Lean):    CbiVerif.Spec.Prosser.prosser (hide-set algorithm of ISO C 6.10.3), same driver op
Oracle (thorough / failing-input search): `gcc -E -P`, output re-lexed; inputs gcc diagnoses are dropped.
"""
from __future__ import annotations

import concurrent.futures
import itertools
import json
import random
import re
import select
import shutil
import signal
import subprocess
import time

from harness import core

TIME_LIMIT = 5.0  # seconds granted to one expansion by the real code ("every expansion returns")
MODEL_TIME_LIMIT = 20.0  # seconds granted to the Lean driver for one request (model + spec; list-based, far slower than the code)
EXPENSIVE = 0.4  # an expansion on which the real code needs longer than this is not given to the (much slower) model and spec
# hard wall-clock budgets in seconds: (main pass, failing-input search) per tier; the whole check stays below ~5 / ~15 minutes
BUDGET = {"quick": (170.0, 110.0), "thorough": (690.0, 170.0)}


def out_of_time(ctx):
    dl = getattr(ctx, "c03_deadline", None)
    if dl is not None and time.time() > dl:
        if not getattr(ctx, "c03_budget_noted", False):
            ctx.c03_budget_noted = True
            ctx.notes.append(f"wall-clock budget reached after {ctx.dist['cases']} cases: generation stopped early "
                             f"({len(ctx.corr_breaks)} correspondence break(s), {len(ctx.violations)} violation(s) so far)")
            ctx.extra["stopped_by_wall_clock_budget"] = True
        return True
    return False


def ask(ctx, drv, obj):
    """one request to the Lean driver with a time limit; a driver that does not answer is killed and restarted (-> None)"""
    drv.p.stdin.write(json.dumps(obj) + "\n")
    drv.p.stdin.flush()
    ready, _, _ = select.select([drv.p.stdout], [], [], MODEL_TIME_LIMIT)
    if not ready:
        try:
            drv.p.kill()
            drv.p.wait(timeout=10)
        except Exception:  # noqa
            pass
        drv.__init__()
        ctx.dist["model_timeout"] += 1
        if ctx.dist["model_timeout"] <= 5:
            ctx.notes.append(f"the Lean driver did not answer within {MODEL_TIME_LIMIT} s (restarted, case not judged): {json.dumps(obj)[:400]}")
        return None
    line = drv.p.stdout.readline()
    if not line:
        raise RuntimeError("driver died on " + json.dumps(obj)[:300])
    return json.loads(line)

DOCUMENTED_BACKSTOP = 200  # the nesting limit the code documents (`max_level`)


# --------------------------------------------------------------------------------------------
# implementation adapter
# --------------------------------------------------------------------------------------------
class _Timeout(BaseException):
    pass


def _alarm(signum, frame):
    raise _Timeout()


KIND = {"NumericalConstant": "num", "CharacterConstant": "chr", "StringConstant": "str", "Identifier": "ident",
        "Operator": "op", "Punctuator": "punct", "Unknown": "unknown"}


def _tok(t):
    return [KIND.get(type(t).__name__, type(t).__name__), str(t.token), bool(t.prev_white)]


def _macro_repr(m, pp):
    return {
        "name": m.name,
        "args": list(m.args) if isinstance(m, pp.MacroFunction) else None,
        "variadic": bool(getattr(m, "variadic", False)),
        "has_strcat": bool(getattr(m, "has_strcat", False)),
        "needs": [bool(x) for x in getattr(m, "arg_needs_expansion", [])],
        "repl": [_tok(t) for t in m.replacement],
    }


def impl_define(pp, d):
    """`#define d` through Lexer + DirectiveParser + DefineNode -> macro (or the exception name)."""
    try:
        node = pp.DirectiveParser(pp.Lexer("#define " + d).tokenize()).parse()
        if not isinstance(node, pp.DefineNode):
            return None, "NotADefine"
        return pp.make_macro(node.identifier, node.args, node.value), None
    except Exception as e:  # noqa
        return None, type(e).__name__


def impl_cmdline(pp, c):
    try:
        return pp.macro_from_definition_string(c), None
    except Exception as e:  # noqa
        return None, type(e).__name__


def _impl_eval(pp, p, text, want_truth=True, ifnode=None):
    """expansion of `text` (+ truth of `#if text`) for the prepared platform p, under the time limit.  `ifnode`: an already parsed
    (shared) IfNode to evaluate instead of parsing `#if text` afresh"""
    out = {}
    old = signal.signal(signal.SIGALRM, _alarm)
    signal.setitimer(signal.ITIMER_REAL, TIME_LIMIT)
    try:
        try:
            ex = pp.MacroExpander(p).expand(pp.Lexer(text).tokenize())
            out["ok"] = [_tok(t) for t in ex]
        except _Timeout:
            return {"timeout": True}
        except Exception as e:  # noqa
            out["exc"] = type(e).__name__
        if want_truth:
            # the path finder.find takes for `#if text`
            try:
                node = ifnode if ifnode is not None else pp.DirectiveParser(pp.Lexer("#if " + text).tokenize()).parse()
                if isinstance(node, pp.IfNode):
                    out["truth"] = bool(node.evaluate_for_platform(platform=p, filename="x", state=None))
                else:
                    out["truth"] = "EXC:NotAnIf"
            except _Timeout:
                return {"timeout": True}
            except Exception as e:  # noqa
                out["truth"] = "EXC:" + type(e).__name__
    finally:
        signal.setitimer(signal.ITIMER_REAL, 0)
        signal.signal(signal.SIGALRM, old)
    return out


def impl_run(cb, case, want_truth=True):
    """Real code on one case -> {"ok": tokens, "truth": ...} | {"exc": name} | {"defexc": name} | {"timeout": True}"""
    from codebasin import platform
    from codebasin import preprocessor as pp

    p = platform.Platform("p", "/")
    for c in case.get("cmd", []):
        m, err = impl_cmdline(pp, c)
        if err:
            return {"defexc": err}
        p.define(m.name, m)
    for d in case.get("defs", []):
        try:
            node = pp.DirectiveParser(pp.Lexer("#define " + d).tokenize()).parse()
            if not isinstance(node, pp.DefineNode):
                return {"defexc": "NotADefine"}
            node.evaluate_for_platform(platform=p, filename="x", state=None)
        except Exception as e:  # noqa
            return {"defexc": type(e).__name__}
    return _impl_eval(pp, p, case["text"], want_truth)


def impl_history(cb, case, steps, want_truth=True):
    """The `#define` directives of the case are parsed ONCE (the tree of a source file is parsed once and shared by every platform
    and translation unit); then, for every step, a new Platform receives the command-line definitions (case's + the step's own),
    the shared directive nodes are evaluated for it (what the associator does on its walk) and the text is expanded.  The `#if`
    node is shared, too.  -> one impl_run-shaped result per step"""
    from codebasin import platform
    from codebasin import preprocessor as pp

    nodes, deferr = [], None
    for d in case.get("defs", []):
        try:
            node = pp.DirectiveParser(pp.Lexer("#define " + d).tokenize()).parse()
            if not isinstance(node, pp.DefineNode):
                deferr = "NotADefine"
                break
            nodes.append(node)
        except Exception as e:  # noqa
            deferr = type(e).__name__
            break
    ifnode = None
    if want_truth and deferr is None:
        try:
            ifnode = pp.DirectiveParser(pp.Lexer("#if " + case["text"]).tokenize()).parse()
        except Exception:  # noqa
            ifnode = None
    res = []
    for extra in steps:
        if deferr:
            res.append({"defexc": deferr})
            continue
        p = platform.Platform("p%d" % len(res), "/")
        r = None
        for c in list(case.get("cmd", [])) + list(extra):
            m, err = impl_cmdline(pp, c)
            if err:
                r = {"defexc": err}
                break
            p.define(m.name, m)
        if r is None:
            for node in nodes:
                try:
                    node.evaluate_for_platform(platform=p, filename="x", state=None)
                except Exception as e:  # noqa
                    r = {"defexc": type(e).__name__}
                    break
        if r is None:
            r = _impl_eval(pp, p, case["text"], want_truth, ifnode=ifnode)
        res.append(r)
    return res


def impl_truth_of_tokens(spell):
    """truth value the real evaluator assigns to an already expanded token text (used to judge the spec's stream)"""
    from codebasin import preprocessor as pp

    try:
        return bool(pp.ExpressionEvaluator(pp.Lexer(spell).tokenize()).evaluate())
    except Exception as e:  # noqa
        return "EXC:" + type(e).__name__


# --------------------------------------------------------------------------------------------
# normal forms
# --------------------------------------------------------------------------------------------
def cls(k):
    return "punct" if k in ("op", "punct") else k


def norm_impl(toks):
    """(kind class, spelling) per token; character constants get their quotes back"""
    out = []
    for k, t, _w in toks:
        if k == "str":
            out.append(("str", '"' + t + '"'))
        elif k == "chr":
            out.append(("chr", "'" + t + "'"))
        else:
            out.append((cls(k), t))
    return out


def norm_model(toks):
    return norm_impl([[t["k"], t["t"], t["w"]] for t in toks])


def norm_spec(toks):
    return [(t["k"], t["t"]) for t in toks]


def spell(norm):
    return " ".join(s for _k, s in norm)


def strip_ws_in_strings(triples):
    """string tokens modulo white space"""
    return [[k, (re.sub(r"\s+", "", t) if k == "str" else t), w] for k, t, w in triples]


EXC_EQ = {"TypeError": "AttributeError"}


def same_impl_model(I, M, paste=False):
    """correspondence: exact kinds, token texts and prev_white (`paste=True`, no longer used: prev_white not compared, string
    tokens modulo white space)"""
    if "defexc" in I or "defexc" in M:
        return ("defexc" in I) and ("defexc" in M) and EXC_EQ.get(I["defexc"], I["defexc"]) == M["defexc"]
    if "exc" in I or "exc" in M:
        return ("exc" in I) and ("exc" in M) and EXC_EQ.get(I["exc"], I["exc"]) == M["exc"]
    if "ok" not in I or "ok" not in M:
        return False
    a = [list(x) for x in I["ok"]]
    b = [[t["k"], t["t"], t["w"]] for t in M["ok"]]
    if paste:
        a = [x[:2] for x in strip_ws_in_strings(a)]
        b = [x[:2] for x in strip_ws_in_strings(b)]
    return a == b


# --------------------------------------------------------------------------------------------
# known-finding classifiers (predicates on the concrete case + what was observed on it)
# --------------------------------------------------------------------------------------------
TOKRE = re.compile(r"\s*([A-Za-z_]\w*|\.?\d[\w.]*|\"(?:\\.|[^\"\\])*\"|'(?:\\.|[^'\\])*'|##|\.\.\.|<<|>>|<=|>=|==|!=|&&|\|\||.)")


def rough_lex(s):
    return TOKRE.findall(s)


def parse_def(d):
    """rough structure of a definition text: (name, params|None, variadic_param|None, body tokens)"""
    m = re.match(r"\s*([A-Za-z_]\w*)(\(([^)]*)\))?(.*)$", d, re.S)
    if not m:
        return None
    name, par, plist, body = m.group(1), m.group(2), m.group(3), m.group(4)
    if par is None:
        return name, None, None, rough_lex(body)
    ps = [x.strip() for x in plist.split(",")] if plist.strip() else []
    var = None
    if ps and ps[-1].endswith("..."):
        var = "__VA_ARGS__" if ps[-1] == "..." else ps[-1][:-3].strip()
        ps[-1] = var
    return name, ps, var, rough_lex(body)


def all_defs(case):
    out = []
    for c in case.get("cmd", []):
        out.append(parse_def(c.replace("=", " ", 1) if "=" in c else c + " 1"))
    for d in case.get("defs", []):
        out.append(parse_def(d))
    return [x for x in out if x]


def call_args(text, name):
    """argument texts of the calls `name(...)` spelled out in `text` (rough, top level of each call)"""
    res = []
    for m in re.finditer(r"\b" + re.escape(name) + r"\s*\(", text):
        i = m.end()
        depth, cur, args = 1, "", []
        while i < len(text) and depth:
            ch = text[i]
            if ch == "(":
                depth += 1
            elif ch == ")":
                depth -= 1
                if depth == 0:
                    break
            if ch == "," and depth == 1:
                args.append(cur)
                cur = ""
            else:
                cur += ch
            i += 1
        args.append(cur)
        res.append(args)
    return res


def everything(case):
    return " ".join(case.get("defs", []) + case.get("cmd", []) + [case["text"]])


def eq_mod_string_ws(a, b):
    """equal token streams, string literals compared modulo white space (as the gcc validation of the spec does)"""
    def f(n):
        return [(x[0], re.sub(r"\s+", "", x[1])) if x[0] == "str" else tuple(x) for x in n]
    return a is not None and b is not None and f(a) == f(b)


def k_d12(case, obs):
    """the expansion needs at least 200 nested streams (measured on the model without nesting limit)"""
    return obs.get("peak", 0) >= DOCUMENTED_BACKSTOP


def k_d38(case, obs):
    """a command-line definition whose value begins with `=` (`-DX==1`)"""
    return any(re.match(r"[^=]*==", c) for c in case.get("cmd", []))


def k_d42(case, obs):
    """a string or character literal whose content is exactly `#` or `##` occurs in a replacement list (the code recognises
    the operators by token text, whatever the kind of the token)"""
    for _n, _p, _v, b in all_defs(case):
        if any(t in ('"#"', '"##"', "'#'") for t in b):
            return True
    return False


# case-level predicates only.  The findings D9, D10, D11, D35, D36, D37, D40, D41, D43, D44 are repaired in the code
# (known_findings.json: "fixed"); their former witnesses are replayed as ordinary cases (WITNESSES).  D10 (`#` stringification) used to be
# decided on the observed difference (string literals modulo white space and quotes): that classifier is gone, the text inside a
# stringified argument is judged character by character like every other token.
CLASSIFIERS = [("D38", k_d38), ("D42", k_d42), ("D12", k_d12)]


def explain(case, obs, known_ids):
    """finding id that accounts for the deviation of the result described by obs["impl_norm"] / obs["impl_exc"], or None"""
    for fid, pred in CLASSIFIERS:
        if fid in known_ids and pred(case, obs):
            return fid
    return None


def classify_deviation(ctx, case, small, what, obs):
    known_ids = {k["id"] for k in ctx.known}
    fid = explain(case, obs, known_ids)
    if fid is not None:
        k = next(k for k in ctx.known if k["id"] == fid)
        ctx.known_finding(fid, k["what_fails"])
        ctx.dist["known:" + fid] += 1
        return "known"
    if obs.get("impl_norm") is not None and obs["impl_norm"] != obs.get("spec_norm") and not obs.get("gcc_validated") and gcc_available() \
            and re.search(r"\bdefined\b", case["text"]) is None:
        # Second opinion before a deviation from the Prosser spec counts: where a call is completed by tokens that follow the
        # expansion in which its name was found, the standard leaves open whether the replacement is nested (C11 6.10.3.4p4,
        # DR 017); Prosser's hide-set rule and gcc's context rule choose differently there.  An implementation result that
        # equals gcc's (silent) result is conforming.
        g = gcc_expand(case)
        gn = relex_with_spec(obs["drv"], g) if g is not None and obs.get("drv") is not None else None
        if gn is not None and eq_mod_string_ws(gn, obs["impl_norm"]):
            return "unspecified"
    ctx.violation(what, small)
    return "violation"


# --------------------------------------------------------------------------------------------
# generator
# --------------------------------------------------------------------------------------------
NAMES = ["A", "B", "C", "F", "G", "H"]
PARAMS = ["x", "y", "z"]
PLAIN = ["1", "2", "3", "q", "r"]
OPS = ["+", "*", "-", "<", "==", "&&", "(", ")", ","]


class Gen:
    def __init__(self, rng, arith=False, bias=None):
        self.rng = rng
        self.arith = arith
        self.bias = bias or {}
        self.flags = set()

    def table(self):
        rng = self.rng
        n = rng.choice([1, 1, 2, 2, 3, 3, 4, 5, 6])
        self.names = rng.sample(NAMES, n)
        if rng.random() < 0.04:
            self.names[rng.randrange(n)] = "None"  # an ordinary identifier (finding D35, repaired)
            self.flags.add("macro_named_None")
        self.kinds = {}
        for nm in self.names:
            if rng.random() < 0.4:
                self.kinds[nm] = None
            else:
                k = rng.choice([0, 1, 1, 2, 2, 3])
                r = rng.random()
                var = None
                if r < 0.15 + self.bias.get("variadic", 0):
                    var = "__VA_ARGS__"
                elif r < 0.22 + self.bias.get("variadic", 0):
                    var = "args"
                self.kinds[nm] = (PARAMS[:k], var)
        return self.names

    def params(self, nm):
        k = self.kinds[nm]
        if k is None:
            return []
        return k[0] + ([k[1]] if k[1] else [])

    def call(self, nm, depth=0, inbody=None):
        """a use of macro `nm`: bare name or name + argument list"""
        rng = self.rng
        kd = self.kinds[nm]
        if kd is None:
            return nm
        if rng.random() < 0.12:
            self.flags.add("bare_funlike_name")
            return nm
        k = len(kd[0]) + (rng.randint(0, 2) if kd[1] else 0)
        if rng.random() < 0.04:
            k = max(0, k + rng.choice([-1, 1]))  # wrong arity (outside WF, must not crash the machinery)
        args = []
        for _ in range(k):
            r = rng.random()
            if r < 0.12 + self.bias.get("empty", 0):
                args.append("")
                self.flags.add("empty_arg")
            elif r < 0.40 and depth < 2:
                other = rng.choice(self.names)
                if other == nm:
                    self.flags.add("arg_borne_recursion")
                args.append(self.call(other, depth + 1, inbody))
            elif r < 0.50:
                args.append("(" + rng.choice(["1", "q , r", "x" if (inbody or rng.random() < 0.4) else "2", ""]) + ")")
                self.flags.add("nested_paren_arg")
            elif r < 0.62 and inbody and self.params(inbody):
                args.append(rng.choice(self.params(inbody)))
            elif r < 0.66:
                args.append(rng.choice([" 'a' ", "\"s\"", " q", "q  r", "'a'", "'x'", "'b'", '"x"', '"a\\n"', '"q\\"r"', "  q ", "'\"'", "'\\\\'", " 1 +  2\t",
                                        '","', '"("', '")"', "','", "'('", "')'", '"," x', "1 '('"]))  # literals spelled like delimiters (finding D44, repaired)
                self.flags.add("literal_arg")
            elif r < 0.70:
                args.append(rng.choice(["x", "y", "x y", "q x", "_ y"]))  # identifiers spelled like parameters (finding D41, repaired)
                self.flags.add("arg_spelled_like_parameter")
            else:
                args.append(rng.choice(["1", "q", "r s", "1 + 2", "2*3"]))
        sp = rng.choice(["", "", " "])
        return nm + sp + "(" + rng.choice([",", " , ", ", "]).join(args) + ")"

    def body(self, nm):
        rng = self.rng
        ps = self.params(nm)
        fun = self.kinds[nm] is not None
        if self.arith:
            return self.arith_body(nm)
        toks = []
        for _ in range(rng.choice([0, 1, 2, 2, 3, 3, 4, 5, 6])):
            r = rng.random()
            if ps and r < 0.28:
                toks.append(rng.choice(ps))
            elif ps and r < 0.28 + 0.08 + self.bias.get("hash", 0):
                toks.append("#" + rng.choice(["", " "]) + rng.choice(ps))
                self.flags.add("hash")
            elif r < 0.48 + self.bias.get("paste", 0) and toks and toks[-1] != "##" and not toks[-1].startswith("#") and toks[-1] not in OPS:
                # a ## b ( ## c )* chain
                for _i in range(rng.choice([1, 1, 1, 2, 3])):
                    toks.append("##")
                    toks.append(rng.choice((ps * 3 if ps else []) + ["q", "1", "_2"]))
                self.flags.add("paste")
            elif r < 0.70:
                other = rng.choice(self.names)
                toks.append(self.call(other, 0, nm))
            elif r < 0.80:
                toks.append(rng.choice(PLAIN))
            elif r < 0.84 and ps:
                one = [q for q in ps if len(q) == 1] or ["x"]  # CBI's lexer knows single-character constants only
                toks.append(rng.choice(['"%s"' % rng.choice(ps), "'%s'" % rng.choice(one), '"s"']))
                self.flags.add("literal_spelled_like_parameter")
            else:
                toks.append(rng.choice(OPS))
        if fun and rng.random() < 0.10:
            # ends in the name of a function-like macro: its call is completed by the tokens that follow
            toks.append(rng.choice([n for n in self.names if self.kinds[n] is not None]))
            self.flags.add("call_completed_by_following_tokens")
        return " ".join(toks)

    def arith_expr(self, nm, depth=0):
        rng = self.rng
        ps = self.params(nm)
        r = rng.random()
        if depth > 2 or r < 0.3:
            if ps and rng.random() < 0.6:
                return "(" + rng.choice(ps) + ")"
            return rng.choice(["1", "2", "3", "10"])
        if r < 0.5:
            other = rng.choice(self.names)
            kd = self.kinds[other]
            if kd is None:
                return other
            args = [self.arith_expr(nm, depth + 1) for _ in range(len(kd[0]) + (rng.randint(0, 2) if kd[1] else 0))]
            return other + "(" + ", ".join(args) + ")"
        op = rng.choice(["+", "*", "-", "<", "==", "&&", "||", "%", "/"])
        return "(" + self.arith_expr(nm, depth + 1) + " " + op + " " + self.arith_expr(nm, depth + 1) + ")"

    def arith_body(self, nm):
        return self.arith_expr(nm, 0)

    def case(self):
        rng = self.rng
        self.flags = set()
        names = self.table()  # may set flags
        defs = []
        for nm in names:
            kd = self.kinds[nm]
            if kd is None:
                defs.append(f"{nm} {self.body(nm)}")
            else:
                pl = list(kd[0])
                if kd[1] == "__VA_ARGS__":
                    pl.append("...")
                    self.flags.add("variadic")
                elif kd[1]:
                    pl.append(kd[1] + "...")
                    self.flags.add("variadic")
                    self.flags.add("named_variadic")
                defs.append(f"{nm}({rng.choice([',', ', ']).join(pl)}) {self.body(nm)}")
        if self.arith:
            items = [self.arith_expr_top()]
            text = items[0]
        else:
            items = []
            for _ in range(rng.randint(1, 4)):
                r = rng.random()
                if r < 0.75:
                    items.append(self.call(rng.choice(names)))
                    if "call_completed_by_following_tokens" in self.flags and rng.random() < 0.5:
                        items.append("(" + rng.choice(["1", "q", "", "1,2", "2 , r s"]) + ")")
                elif r < 0.85:
                    items.append("(" + rng.choice(["1", "q", "", "1,2"]) + ")")  # may complete a pending call
                else:
                    items.append(rng.choice(["1", "(", ")", "q", "+", ","]))
            text = " ".join(items)
            if rng.random() < 0.08:
                nm = rng.choice(names + ["Q"])
                text += rng.choice([" defined(%s)", " defined %s", " defined ( %s )"]) % nm
                self.flags.add("defined")
        cmd = []
        if rng.random() < 0.25:
            # move some definitions to the command line
            keep = []
            for d in defs:
                if rng.random() < 0.6:
                    m = re.match(r"(\w+(\([^)]*\))?)\s?(.*)$", d, re.S)
                    head, body = m.group(1), m.group(3)
                    # `-DNAME` stands for the body `1`
                    cmd.append(head if (body.strip() == "1" and rng.random() < 0.5) else head + "=" + body)
                else:
                    keep.append(d)
            defs = keep
            self.flags.add("cmdline")
        # recursion: some macro can reach itself through the names mentioned in bodies / arguments
        graph = {}
        for d in all_defs({"defs": defs, "cmd": cmd, "text": ""}):
            graph[d[0]] = set(t for t in d[3] if t in self.kinds)
        def reach(a, b, seen=()):
            return any(n == b or (n not in seen and reach(n, b, seen + (n,))) for n in graph.get(a, ()))
        if any(reach(n, n) for n in graph):
            self.flags.add("recursion")
        return {"defs": defs, "cmd": cmd, "text": text, "flags": sorted(self.flags)}

    def arith_expr_top(self):
        rng = self.rng
        nm = rng.choice(self.names)
        kd = self.kinds[nm]
        save = self.kinds
        e = nm if kd is None else nm + "(" + ", ".join(rng.choice(["1", "2", "(3)", "1 + 2", "7"]) for _ in range(len(kd[0]) + (rng.randint(0, 2) if kd[1] else 0))) + ")"
        self.kinds = save
        return e + " " + rng.choice(["==", "<", ">", "!=", ">="]) + " " + str(rng.choice([0, 1, 2, 3, 4, 6, 7, 10]))


def _flags_of(defs, text):
    fl = set()
    for _n, p, v, b in all_defs({"defs": defs, "text": ""}):
        if p is not None:
            if "##" in b:
                fl.add("paste")
            if "#" in b:
                fl.add("hash")
            if v is not None:
                fl.add("variadic")
    if re.search(r"[(,]\s*[,)]", text):
        fl.add("empty_arg")
    return fl


def gen_targeted(rng):
    """shapes that the recorded (now repaired) findings D9, D11, D35, D36, D37, D40, D41 used to mask"""
    shape = rng.choice(["paste_empty", "paste_empty", "tail_call", "tail_call", "unused_variadic", "literal_param", "named_none",
                        "unevaluated_operand", "arg_like_param", "stringify", "stringify", "stringify"])
    defs, text = [], ""

    def arglist(k, pool, p_empty):
        return [("" if rng.random() < p_empty else rng.choice(pool)) for _ in range(k)]

    def spaced(args):
        return rng.choice([",", ", ", " , "]).join(args)

    if shape in ("paste_empty", "arg_like_param"):
        k = rng.choice([2, 2, 3])
        ps = PARAMS[:k]
        operands = [rng.choice(ps + ps + ["q", "_2", "1"]) for _ in range(rng.choice([2, 2, 3, 4]))]
        if operands[0] == "1":
            operands[0] = "q"
        body = [rng.choice(["", "", "q", "1 +", "(", "r"])] + [" ## ".join(operands)] + [rng.choice(["", "", "r", ps[0], "+ " + ps[-1], ")", "## _2"])]
        if body[-1] == "## _2":
            body = body[:-2] + [body[-2] + " ## _2"]
        defs.append("P(%s) %s" % (",".join(ps), " ".join(x for x in body if x)))
        defs.append("A 7")
        if rng.random() < 0.4:
            defs.append(rng.choice(["W(a,b) P(a,b%s)" % (",b" if k == 3 else ""), "W(...) P(__VA_ARGS__)", "W(a, ...) P(a, __VA_ARGS__) a"]))
        pool = ["1", "q", "r s", "_2", "A", "A q"] if shape == "paste_empty" else ["x", "y", "z", "x y", "_ x", "y + z", "q", "A x"]
        calls = []
        for _ in range(rng.randint(1, 3)):
            nm = "W" if len(defs) == 3 and rng.random() < 0.4 else "P"
            calls.append("%s(%s)" % (nm, spaced(arglist(k, pool, 0.45 if shape == "paste_empty" else 0.2))))
        text = " ".join(calls)
    elif shape == "tail_call":
        names = rng.sample(["F", "G", "H"], rng.choice([2, 2, 3]))
        for nm in names:
            other = rng.choice(names)
            toks = [rng.choice(["a", "a *", "a +", "( a )", "1", nm + "(a)", other + "(a)", "q a"])]
            if rng.random() < 0.75:
                toks.append(rng.choice(["*", "+", "", ""]))
                toks.append(other)  # the call of `other` is completed by the tokens that follow the call of `nm`
            defs.append("%s(a) %s" % (nm, " ".join(t for t in toks if t)))
        if rng.random() < 0.3:
            defs.append(rng.choice(["K B B()", "K B(q) B"]))
            defs.append(rng.choice(["B(args...) args ( K", "B(...) __VA_ARGS__ ( " + names[0]]))
        items = []
        for _ in range(rng.randint(1, 3)):
            it = rng.choice(names + (["K", "B(B(q))"] if len(defs) > len(names) else [])) 
            if it in names:
                it += "(%s)" % rng.choice(["2", "q", "", "r s", names[0], names[-1] + "(1)"])
            for _ in range(rng.choice([0, 1, 1, 2, 3])):
                it += rng.choice(["", " "]) + "(%s)" % rng.choice(["9", "q", "", "1 + 2", names[0]])
            items.append(it)
        text = " ".join(items)
    elif shape == "unused_variadic":
        head = rng.choice(["V(...)", "V(x, ...)", "V(x, args...)", "V(args...)", "V(x, y, ...)"])
        ps = parse_def(head + " 1")[1]
        fixed = ps[:-1]
        body = " ".join(rng.choice(fixed + ["1", "q", "+", "#" + fixed[0] if fixed else "2", (fixed[0] + " ## _2") if fixed else "r"]) for _ in range(rng.randint(1, 4)))
        defs.append(head + " " + body)
        defs.append("A 7")
        if rng.random() < 0.4:
            defs.append("U(...) V(__VA_ARGS__) __VA_ARGS__")
        calls = []
        for _ in range(rng.randint(1, 3)):
            n = len(fixed) + rng.randint(0, 3)
            calls.append("%s(%s)" % ("U" if len(defs) == 3 and rng.random() < 0.4 else "V", spaced(arglist(n, ["1", "q", "A", "r s", "(1,2)", "V(3)"], 0.25))))
        text = " ".join(calls)
    elif shape == "literal_param":
        ps = PARAMS[:rng.choice([1, 2])]
        toks = []
        for _ in range(rng.randint(2, 5)):
            q = rng.choice(ps)
            toks.append(rng.choice(['"%s"' % q, "'%s'" % q, q, "#" + q, q + " ## _2", "q", "+", '"s"']))
        if not any(t in ps for t in toks) and rng.random() < 0.5:
            toks.append(ps[0])
        defs.append("L(%s) %s" % (",".join(ps), " ".join(toks)))
        pool = ["1", "q", '"x"', "'x'", "'y'", '"y" q', "r s"]
        text = " ".join("L(%s)" % spaced(arglist(len(ps), pool, 0.15)) for _ in range(rng.randint(1, 3)))
    elif shape == "named_none":
        kind = rng.choice(["obj", "obj", "fun", "param"])
        if kind == "obj":
            defs.append("None " + rng.choice(["1", "2 + None", "A", "", "q None r"]))
            defs.append("A " + rng.choice(["None", "3", "None + A"]))
            text = " ".join(rng.choice(["None", "A", "None + 1", "(None)", "q"]) for _ in range(rng.randint(1, 3)))
        elif kind == "fun":
            defs.append("None(x) " + rng.choice(["x", "x + None(x)", "#x", "x ## _2", "A x"]))
            defs.append("A " + rng.choice(["None", "None(4)", "3"]))
            text = " ".join(rng.choice(["None(1)", "None", "A", "None(None(2))", "A (5)", "None (A)"]) for _ in range(rng.randint(1, 3)))
        else:
            defs.append("F(None) " + rng.choice(["None + 1", "#None None", "None ## _2", "q None"]))
            text = " ".join(rng.choice(["F(1)", "F(None)", "F()", "None"]) for _ in range(rng.randint(1, 2)))
    elif shape == "stringify":
        # `#param` (finding D10, repaired): white space at the ends of / inside the argument, character constants, string literals with
        # escapes, empty arguments, calls that stay unexpanded inside the operand, `#` results stringified again, variable arguments
        defs.append(rng.choice(["STR(x) #x", "STR(x) # x", "STR(x)  #x"]))
        defs.append("XSTR(x) STR(x)")
        defs.append("N 3")
        extra = rng.sample(["S2(x, y) #x #y", "S2(x,y) x #y", "S2(x, y) #x y", "W(x) q #x", "W(x) q#x r", "F(x) STR(a #x)", "F(x) STR(a#x)",
                            "F(x) STR( #x )", "F(x) XSTR(#x + x)", "V(...) #__VA_ARGS__", "V(x, ...) x #__VA_ARGS__", "V(x, args...) #args #x",
                            "V(...) STR(__VA_ARGS__)", "V(x...) XSTR(x)", "E", "ID(x) x", "M N + 1", "P(x, y) #x ## y", "P(x, y) x ## y #y",
                            "T(x) #x x STR(x)"], rng.randint(1, 4))
        seen = set()
        for d in extra:
            nm = re.match(r"\w+", d).group(0)
            if nm not in seen:
                seen.add(nm)
                defs.append(d)
        pool = ["a", "a", "a + b", "a  +   b", "a+b", "'a'", "'a' 'b'", "'\"'", "'\\\\'", "'\\n'", "' '", '"s"', '"x\\n"', '"q\\"r"', '"a b"  \'c\'',
                '""', "N", "N N", "STR( N )", "XSTR(N)", "STR(STR( 1 ))", "ID( N )", "ID(STR(  q ))", "E", "a E b", "E a", "(a , b)", "( a )",
                "f(1 , 2)", "M", "- 1", "1.5e+3", "a.b", "x", "y", "#", "q ## r", "F(1)", "V(1 , 2)", "W( N )", "a\tb"]

        def padded(a):
            return rng.choice(["", "", " ", "  ", "\t"]) + a + rng.choice(["", "", " ", "  "])
        names_ar = {}
        for d in defs:
            pd = parse_def(d)
            if pd and pd[1] is not None:
                names_ar[pd[0]] = (len(pd[1]) - (1 if pd[2] else 0), pd[2] is not None)
        calls = []
        for _ in range(rng.randint(1, 3)):
            nm = rng.choice(sorted(names_ar))
            k, var = names_ar[nm]
            n = k + (rng.randint(0, 3) if var else 0)
            if n == 0 and not var and k == 0:
                calls.append(nm + "()")
                continue
            args = [padded(a) for a in arglist(max(n, 1) if (k or not var) else n, pool, 0.15)]
            calls.append(nm + rng.choice(["", "", " "]) + "(" + rng.choice([",", ", ", " , ", " ,"]).join(args) + ")")
        text = " ".join(calls)
    else:  # unevaluated_operand: an argument that is only an operand of # / ## is never macro-expanded
        defs.append(rng.choice(["S(x, y) #y", "S(x, y) x #y", "S(x, y) x ## y", "S(x, y) q ## y x", "S(x, y) #x #y"]))
        defs.append(rng.choice(["T(a, b) a b", "T(a, b) a", "T(a) a"]))
        pool = ["T(2)", "T(2, 3)", "T()", "T", "1", "T(1)(2)", "3"]
        text = " ".join("S(%s)" % spaced(arglist(2, pool, 0.1)) for _ in range(rng.randint(1, 2)))
    cmd = []
    if rng.random() < 0.15:
        keep = []
        for d in defs:
            m = re.match(r"(\w+(\([^)]*\))?)\s?(.*)$", d, re.S)
            if rng.random() < 0.5 and not m.group(3).lstrip().startswith("="):
                cmd.append(m.group(1) + "=" + m.group(3))
            else:
                keep.append(d)
        defs = keep
    flags = _flags_of(defs + [c.replace("=", " ", 1) for c in cmd], text) | {"targeted:" + shape}
    return {"defs": defs, "cmd": cmd, "text": text, "flags": sorted(flags)}


def gen_case(rng, arith=False, bias=None):
    g = Gen(rng, arith=arith, bias=bias)
    c = g.case()
    return c


def object_like_tables(names, alphabet, maxlen):
    bodies = [list(b) for n in range(maxlen + 1) for b in itertools.product(alphabet, repeat=n)]
    for combo in itertools.product(bodies, repeat=len(names)):
        yield [f"{n} {' '.join(b)}" for n, b in zip(names, combo)]


# --------------------------------------------------------------------------------------------
# gcc oracle
# --------------------------------------------------------------------------------------------
def gcc_available():
    return shutil.which("gcc") is not None


def gcc_expand(case):
    """pp-token text `gcc -E -P` produces, or None when gcc emits any diagnostic"""
    src = "".join(f"#define {d}\n" for d in case.get("defs", [])) + case["text"] + "\n"
    argv = ["gcc", "-E", "-P", "-x", "c", "-std=gnu11", "-undef", "-nostdinc"] + ["-D" + c for c in case.get("cmd", [])] + ["-"]
    try:
        r = subprocess.run(argv, input=src, capture_output=True, text=True, timeout=20)
    except subprocess.TimeoutExpired:
        return None
    if r.returncode != 0 or r.stderr.strip():
        return None
    return " ".join(r.stdout.split())


def gcc_truth(case):
    src = "".join(f"#define {d}\n" for d in case.get("defs", [])) + "#if " + case["text"] + "\nTRUE_BRANCH\n#else\nFALSE_BRANCH\n#endif\n"
    argv = ["gcc", "-E", "-P", "-x", "c", "-std=gnu11", "-undef", "-nostdinc"] + ["-D" + c for c in case.get("cmd", [])] + ["-"]
    try:
        r = subprocess.run(argv, input=src, capture_output=True, text=True, timeout=20)
    except subprocess.TimeoutExpired:
        return None
    if r.returncode != 0 or r.stderr.strip():
        return None
    return "TRUE_BRANCH" in r.stdout


def relex_with_spec(drv, text):
    """re-lex gcc's output with the spec's pp-token lexer (driver, empty table)"""
    r = drv.ask({"op": "c03", "defs": [], "text": text})
    s = r.get("spec", {})
    return norm_spec(s["ok"]) if "ok" in s else None


# --------------------------------------------------------------------------------------------
# one case
# --------------------------------------------------------------------------------------------
def looks_like_expression(text):
    return re.search(r"(==|<|>|!=|>=)\s*\d+\s*$", text) is not None


def fragment_share(ctx, drv, case, small, S):
    """Which *proved* fragment of C03 the (well-formed) case lies in (driver op `c03frag` evaluates the hypotheses of
    `C03.funlike_conforms_partial` / `C03.funlike_simple_conforms_partial` themselves), and - inside the fragment - that the
    specification side of the theorem (Prosser's algorithm on the table and text translated from the model's lexer and `#define`
    parser) has the spellings of the harness's oracle (Prosser's algorithm behind its own lexer and parser)."""
    F = ask(ctx, drv, {"op": "c03frag", "defs": case.get("defs", []), "cmd": case.get("cmd", []), "text": case["text"]})
    if not F or not F.get("table"):
        return
    calls = F.get("calls", 0) > 0
    if F.get("strcat"):
        # C03.strcat_partial: model = RefS (macros with # / ##; nothing about the table assumed)
        ctx.dist["proved_fragment:strcat_partial(model = RefS)" + (", table uses # or ##, with calls" if F.get("has_strcat") and calls else "")] += 1
        if not F.get("strcat_holds"):
            ctx.dist["proved_fragment:DRIVER CONTRADICTS THEOREM"] += 1
            ctx.notes.append(f"driver evaluation contradicts C03.strcat_partial on {small}")
    if F.get("conf"):
        ctx.dist["proved_fragment:funlike_conforms(with calls)" if calls else "proved_fragment:funlike_conforms(no call in the text)"] += 1
        if F.get("simple") and calls:
            ctx.dist["proved_fragment:funlike_simple_conforms(with calls)"] += 1
        if not F.get("theorem_holds"):
            ctx.dist["proved_fragment:DRIVER CONTRADICTS THEOREM"] += 1
            ctx.notes.append(f"driver evaluation contradicts C03.funlike_conforms_partial on {small}")
        if [t["t"] for t in S["ok"]] == F.get("spec_spellings"):
            ctx.dist["proved_fragment:translated spec == oracle spec"] += 1
        else:
            ctx.dist["proved_fragment:translated spec != oracle spec"] += 1
            if len(ctx.notes) < 10:
                ctx.notes.append(f"spec on the translated table/text differs from the spec behind its own lexer on {small}")
    else:
        ctx.dist["proved_fragment:outside"] += 1


def check_case(ctx, drv, cb, case, gcc=False, I=None, R=None, extra=None, prefix=""):
    """`I`: an implementation result obtained elsewhere (a step of a history) instead of a fresh impl_run; `R`: the driver's reply
    for exactly this (defs, cmd, text) if already known; `extra`: fields added to the stored case (what a replay needs);
    `prefix`: put in front of the description of a deviation"""
    flags = case.get("flags", [])
    obs = {}
    t0 = time.time()
    if I is None:
        I = impl_run(cb, case)
    impl_time = time.time() - t0
    want_old = ctx.dist["cases"] % 10 == 0  # three-way cross-check: the design-phase monadic port (PP/ExpandOld.lean; no longer used by any pipeline) vs MX.cbiExpand vs the code
    if R is None and drv is not None and "timeout" not in I:
        if impl_time > EXPENSIVE:
            ctx.dist["expensive(model and spec not run)"] += 1
        else:
            R = ask(ctx, drv, {"op": "c03", "defs": case.get("defs", []), "cmd": case.get("cmd", []), "text": case["text"], "old": want_old})
    key = "+".join(f for f in flags if f in ("hash", "paste", "variadic", "recursion", "empty_arg")) or "plain"
    ctx.count(key="uses:" + key)
    for f in flags:
        ctx.dist["flag:" + f] += 1
    ctx.dist["cases"] += 1
    small = {k: case[k] for k in ("defs", "cmd", "text") if case.get(k)}
    small["origin"] = case.get("origin", "random")
    if extra:
        small.update(extra)
    # --- termination
    if "timeout" in I:
        ctx.violation(prefix + f"expansion did not return within {TIME_LIMIT} s", small)
        return
    if R is None:
        return
    M, S = R["model"], R["spec"]
    obs["peak"] = R.get("peak", 0)
    obs["impl_exc"] = I.get("exc") or I.get("defexc")
    if "fuel" in M:
        ctx.notes.append(f"model ran out of fuel on {small}")
    if "old" in R:
        o = R["old"]
        same = (o.get("ok") == M.get("ok")) if "ok" in o or "ok" in M else (o.get("exc") == M.get("exc") or "sig" in o)
        ctx.dist["old_model_agrees" if same else "old_model_differs"] += 1
        if not same and len(ctx.notes) < 10:
            ctx.notes.append(f"PP/ExpandOld.lean (old port) differs from MX.cbiExpand on {small}")
    # --- correspondence (every input, well-formed or not)
    if not same_impl_model(I, M):
        ctx.corr_break("c03", small, {k: I[k] for k in I if k != "truth"}, M)
    else:
        ctx.dist["corr_agree"] += 1
    # --- property oracle
    if "unspec" in S:
        ctx.dist["notwf:" + S["unspec"].split()[0].split(".")[-1]] += 1
        return
    ctx.dist["wf"] += 1
    sn = norm_spec(S["ok"])
    obs["spec_norm"] = sn
    fragment_share(ctx, drv, case, small, S)
    if gcc and re.search(r"\bdefined\b", case["text"]) is None:  # gcc -E evaluates `defined` only inside #if
        g = gcc_expand(case)
        if g is None:
            ctx.dist["gcc:diagnosed(dropped)"] += 1
            return
        gn = relex_with_spec(drv, g)

        def mod_ws(n):  # blanks inside stringified text that stem from empty expansions are not fixed by the standard
            return [re.sub(r"\s+", "", x[1]) if x[0] == "str" else x[1] for x in n]
        if gn is None or mod_ws(gn) != mod_ws(sn):
            # the spec itself is in doubt on this input: do not judge the implementation with it
            ctx.dist["gcc:spec_disagrees"] += 1
            ctx.notes.append(f"spec != gcc on {small}: spec `{spell(sn)}` gcc `{g}`")
            ctx.extra.setdefault("spec_vs_gcc_disagreements", []).append(small)
            return
        ctx.dist["gcc:spec_agrees"] += 1
    if R.get("steps", 0) > len(sn) + 3 or spell(sn) != " ".join(rough_lex(case["text"])):
        ctx.nontrivial.add(json.dumps(small, sort_keys=True))
    ctx.sample(small)
    what = None
    if "defexc" in I:
        what = f"definition raises {I['defexc']}"
    elif "exc" in I:
        what = f"expand raises {I['exc']}; a conforming preprocessor gives `{spell(sn)}`"
    else:
        inn = norm_impl(I["ok"])
        obs["impl_norm"] = inn
        if inn != sn:
            what = f"expand gives `{spell(inn)}`; a conforming preprocessor gives `{spell(sn)}`"
        elif looks_like_expression(case["text"]):
            ctx.dist["truth_checked"] += 1
            ts = impl_truth_of_tokens(spell(sn))
            if isinstance(ts, bool) and I.get("truth") != ts:
                what = f"`#if {case['text']}` evaluates to {I.get('truth')}; the conforming expansion `{spell(sn)}` evaluates to {ts}"
            if gcc and isinstance(I.get("truth"), bool):
                gt = gcc_truth(case)
                if gt is not None:
                    ctx.dist["gcc:truth_checked"] += 1
                    if gt != I["truth"]:
                        what = f"`#if {case['text']}` is {I['truth']} in CBI and {gt} in gcc"
    if what:
        obs["gcc_validated"] = gcc
        obs["drv"] = drv
        r = classify_deviation(ctx, case, small, prefix + what, obs)
        if r == "unspecified":
            ctx.dist["impl!=spec but ==gcc (unspecified nesting, not judged)"] += 1
            ctx.extra.setdefault("spec_vs_gcc_disagreements", []).append(small)
            return
        ctx.dist["impl!=spec"] += 1
        if r == "known":
            ctx.dist["impl!=spec:known"] += 1
    else:
        ctx.dist["impl==spec"] += 1


# --------------------------------------------------------------------------------------------
# definitions: command line vs #define
# --------------------------------------------------------------------------------------------
def check_definition(ctx, drv, cb, d_text, c_text):
    """`-D c_text` must behave exactly like `#define d_text` (the property); both are compared with the model."""
    from codebasin import preprocessor as pp

    case = {"define": d_text, "cmdline": c_text}
    ctx.count(key="definition")
    md, ed = impl_define(pp, d_text)
    mc, ec = impl_cmdline(pp, c_text)
    rd = _macro_repr(md, pp) if md else {"exc": ed}
    rc = _macro_repr(mc, pp) if mc else {"exc": ec}
    R = drv.ask({"op": "c03def", "define": d_text, "cmdline": c_text}) if drv is not None else None
    if R is not None:
        def mrep(x):
            if "exc" in x:
                return {"exc": x["exc"]}
            m = x["ok"]
            return {"name": m["name"], "args": m["args"], "variadic": m["variadic"], "has_strcat": m["has_strcat"], "needs": m["needs"],
                    "repl": [[t["k"], t["t"], t["w"]] for t in m["repl"]]}
        for tag, impl_r, mod_r in (("define", rd, mrep(R["define"])), ("cmdline", rc, mrep(R["cmdline"]))):
            a, b = dict(impl_r), dict(mod_r)
            if "exc" in a or "exc" in b:
                ok = ("exc" in a) and ("exc" in b) and EXC_EQ.get(a["exc"], a["exc"]) == b["exc"]
            else:
                if a["args"] is None:  # object-like Macro has no has_strcat / needs attributes
                    for k in ("has_strcat", "needs", "variadic"):
                        a.pop(k, None), b.pop(k, None)
                ok = a == b
            if not ok:
                ctx.corr_break("c03def:" + tag, case, impl_r, mod_r)
        if R.get("spec_define") != "ok":
            ctx.dist["definition:notwf"] += 1
            return
    ctx.dist["definition:wf"] += 1
    if rd != rc:
        obs = {}
        ctx.classify(case, f"-D'{c_text}' is not the same macro as `#define {d_text}`: {rc} vs {rd}",
                     [("D38", lambda c: k_d38({"cmd": [c_text], "text": ""}, obs))])
    else:
        ctx.nontrivial.add("def:" + d_text)


def definition_pairs(rng, n):
    """(text after #define, -D argument) pairs that must define the same macro"""
    out = [("NAME 1", "NAME"), ("NAME v", "NAME=v"), ("NAME(a,b) a+b", "NAME(a,b)=a+b"), ("N", "N="), ("F(x) 1", "F(x)"),
           ("F(...) __VA_ARGS__", "F(...)=__VA_ARGS__"), ("F(a...) a", "F(a...)=a"), ("E a=b", "E=a=b"), ("S \"a b\"", "S=\"a b\""),
           ("P(x) #x", "P(x)=#x"), ("Q(x,y) x##y", "Q(x,y)=x##y"), ("F(x)  x", "F(x)= x"), ("None 1", "None")]
    for _ in range(n):
        c = gen_case(rng)
        for d in c["defs"]:
            m = re.match(r"(\w+(\([^)]*\))?)\s?(.*)$", d, re.S)
            head, body = m.group(1), m.group(3)
            out.append((d, head + "=" + body))
            if body.strip() == "1":
                out.append((d, head))
    out.append(("X =1", "X==1"))
    return out


# --------------------------------------------------------------------------------------------
# shapes: a painted (never-expand-again) name as an operand of `##`
# --------------------------------------------------------------------------------------------
def gen_paste_painted(rng, arith=False):
    """A macro passes a name that is under replacement - its own or an enclosing macro's - through a pre-expanding indirection
    (J -> J_), so that the name is scanned while disabled and marked, and the marked token is then an operand (left or right) of
    `##`.  The result of `##` is a new token (C11 6.10.3.3p3): replaced again if it names an enabled macro (object- or
    function-like), left alone if it spells a name under replacement.  Controls: no indirection (operand never scanned), result
    not a macro, result re-creating the disabled name, result referring back to the disabled name."""
    base = rng.choice(["V", "W", "AB", "LEVEL", "N", "VER"])
    swapped = rng.random() < 0.25            # the marked name is the RIGHT operand
    aff = rng.choice(["D_", "P", "_x"]) if swapped else rng.choice(["_D", "_2", "1", "2", "_OF", "_x"])
    pasted = (aff + base) if swapped else (base + aff)
    order = ("b ## a" if swapped else "a ## b")
    sp = rng.choice([" ## ", "##", " ##", "## "])
    defs = ["J_(a, b) " + order.replace(" ## ", sp) + rng.choice(["", "", "", " b" if swapped else " a"])]
    ind = rng.choice(["one", "one", "one", "two", "variadic", "none", "obj"])
    jname = "J"
    if ind == "one":
        defs.append("J(a, b) J_(a, b)")
    elif ind == "two":
        defs += ["J(a, b) J1(a, b)", "J1(a, b) J_(a, b)"]
    elif ind == "variadic":
        defs.append(rng.choice(["J(...) J_(__VA_ARGS__)", "J(a, ...) J_(a, __VA_ARGS__)", "J(r...) J_(r)"]))
    elif ind == "obj":
        defs += ["J(a, b) J_(a, b)", "I(x) x"]
    else:
        jname = "J_"                           # control: the operand of ## is not pre-expanded, hence never marked
    funlike = (not arith and rng.random() < 0.3) or (arith and rng.random() < 0.2)
    who = rng.choice(["self", "self", "outer", "outer2"])
    arg = base if ind != "obj" or rng.random() < 0.5 else "I(%s)" % base
    use = "%s(%s, %s)" % (jname, arg, aff)
    pre = rng.choice(["", "", "", "1 +", "("])
    post = {"": "", "1 +": "", "(": ")"}[pre] if rng.random() < 0.8 else {"": "+ 1", "1 +": "* 2", "(": ") + 1"}[pre]
    if funlike:
        body = " ".join(x for x in (pre, use + rng.choice(["(x)", " (x)", "(x + 1)"]), post) if x)
        head = base + "(x)"
    else:
        body = " ".join(x for x in (pre, use, post) if x)
        head = base
    if who == "self":
        defs.append(head + " " + body)
    elif who == "outer":      # the name marked is the one of the enclosing macro
        defs += [head + " " + ("M(x)" if funlike else "M"), ("M(x) " if funlike else "M ") + body]
    else:
        defs += [head + " " + ("M(x)" if funlike else "M"), ("M(x) " if funlike else "M ") + ("M2(x)" if funlike else "M2 + 0"),
                 ("M2(x) " if funlike else "M2 ") + body]
    res = rng.choice(["obj", "obj", "obj", "fun", "fun", "back", "chain", "none", "selfname"])
    if funlike and res == "obj" and rng.random() < 0.6:
        res = "fun"
    if res == "obj":
        defs.append(pasted + " " + rng.choice(["3", "5", "(2 + 1)", "7"]))
    elif res == "fun":
        defs.append(pasted + "(y) " + rng.choice(["(y + 1)", "((y) * 2)", "y", "(y + %s)" % base]))
    elif res == "back":     # refers back to the disabled name: stays unreplaced
        defs.append(pasted + " " + rng.choice(["%s + 1" % base, "(%s)" % base, "2 * %s" % base]))
    elif res == "chain":    # a second paste of a marked name
        aff2 = "_E"
        defs.append(pasted + " " + "%s(%s, %s)" % (jname, base, aff2))
        defs.append((base + aff2) + " " + rng.choice(["4", "6"]))
    elif res == "selfname":  # the paste re-creates a name under replacement: must NOT be replaced again
        half = max(1, len(base) // 2) if len(base) > 1 else 0
        if half:
            defs = [d for d in defs if not d.startswith(head + " ")]
            l, r = base[:half], base[half:]
            defs.append(head + " " + "%s(%s, %s) + 2" % (jname, r, l) if swapped else head + " " + "%s(%s, %s) + 2" % (jname, l, r))
    rng.shuffle(defs)
    callarg = rng.choice(["4", "1", "2", base, "(3)"])
    pool = [base, base, base + " + 1", "( %s )" % base, "%s(%s, %s)" % (jname, base, aff), pasted, "J_(%s, %s)" % (base, aff)]
    if funlike:
        pool = [base + "(%s)" % callarg, base + "(%s)" % callarg, base + " (%s)" % callarg, base, "%s(%s, %s)(%s)" % (jname, base, aff, callarg),
                base + "(%s(2))" % base, pasted + "(1)"]
    if arith:
        text = rng.choice(pool[:3] if not funlike else pool[:3]) + " " + rng.choice(["==", "==", "<", ">=", "!="]) + " " + str(rng.choice([0, 1, 2, 3, 4, 5, 6, 7, 8]))
    else:
        text = " ".join(rng.choice(pool) for _ in range(rng.randint(1, 3)))
    flags = _flags_of(defs, text) | {"targeted:paste_painted", "recursion", "painted:" + ind, "painted_result:" + res}
    return {"defs": defs, "cmd": [], "text": text, "flags": sorted(flags)}


# --------------------------------------------------------------------------------------------
# shapes: variable arguments forwarded to other macros (counting / overloading idioms)
# --------------------------------------------------------------------------------------------
VF_RECEIVERS = [
    ("R2(a, b)", ["(a + b)", "((a) * 10 + (b))", "(a - b)"], 2),
    ("R3(a, b, c)", ["(a + b * c)", "((a) - (b) + (c))", "(a + b + c)"], 3),
    ("P2(a, b, ...)", ["b"], 2),
    ("P3(a, b, c, ...)", ["c"], 3),
    ("P5(a, b, c, d, n, ...)", ["n"], 5),
    ("L(a, rest...)", ["(a + 0 rest)", "a"], 1),
]


def gen_vforward(rng, conds=False):
    """variadic front macros whose variable arguments (and the commas between them) are forwarded to another macro's argument
    list: V(...) R(__VA_ARGS__), the PP_NARG counting idiom V(...) P5(__VA_ARGS__, 4, 3, 2, 1, 0), named variadics, an applied
    macro name f(__VA_ARGS__); invoked with 0 .. 4 variable arguments.  conds=True: 2-5 texts of the form `call <op> k`."""
    defs = []
    recv = rng.sample(VF_RECEIVERS, rng.randint(2, 4))
    for head, bodies, _k in recv:
        defs.append(head + " " + rng.choice(bodies))
    rnames = [(h.split("(")[0], k, "..." in h) for h, _b, k in recv]
    fronts = []
    for i in range(rng.randint(1, 3)):
        nm = ["V", "W", "U"][i]
        rn, k, rvar = rng.choice(rnames)
        va = rng.choice(["__VA_ARGS__", "__VA_ARGS__", "args"])
        dots = "..." if va == "__VA_ARGS__" else "args..."
        form = rng.choice(["fwd", "fwd", "pad", "pad", "fixed+fwd", "apply", "prefix", "nest"] + ([] if conds else ["hash", "paste"]))
        if form == "fwd":
            d, nvar = "%s(%s) %s(%s)" % (nm, dots, rn, va), (k, k + (2 if rvar else 0))
        elif form == "pad":
            pad = [str(x) for x in range(k - 1, -1, -1)]
            d, nvar = "%s(%s) %s(%s, %s)" % (nm, dots, rn, va, ", ".join(pad)), (1, k)
        elif form == "fixed+fwd":
            d, nvar = "%s(x, %s) (x + %s(%s))" % (nm, dots, rn, va), (k, k + (1 if rvar else 0))
        elif form == "apply":
            d, nvar = "%s(f, %s) f(%s)" % (nm, dots, va), (k, k)
        elif form == "prefix":
            d, nvar = "%s(%s) %s(K, %s)" % (nm, dots, rn, va), (max(0, k - 1), k if rvar else max(0, k - 1))
        elif form == "nest" and fronts:
            d, nvar = "%s(%s) %s(%s)" % (nm, dots, fronts[-1][0], va), fronts[-1][2]
        elif form == "hash":
            d, nvar = "%s(x, %s) x #%s" % (nm, dots, va), (0, 3)
        elif form == "paste":
            d, nvar = "%s(x, %s) x ## %s q" % (nm, dots, va), (0, 3)
        else:
            d, nvar = "%s(%s) %s(%s)" % (nm, dots, rn, va), (k, k)
        defs.append(d)
        fronts.append((nm, form, nvar, rn))
    rng.shuffle(defs)
    argpool = ["1", "2", "3", "K", "(1 + 1)", "5", "R0", "(2, 3)"]

    def call():
        nm, form, (lo, hi), rn = rng.choice(fronts)
        n = rng.randint(lo, hi) if rng.random() < 0.85 else rng.randint(0, 4)
        args = [rng.choice(argpool) for _ in range(n)]
        if args and rng.random() < 0.1:
            args[rng.randrange(len(args))] = ""
        if args and rng.random() < 0.2:
            other = rng.choice(fronts)
            args[rng.randrange(len(args))] = "%s(%s)" % (other[0], ", ".join(rng.choice(argpool[:4]) for _ in range(rng.randint(other[2][0], other[2][1]))))
        if form in ("fixed+fwd", "hash", "paste"):
            args = [rng.choice(["1", "2", "K"])] + args
        elif form == "apply":
            args = [rn] + args
        return "%s(%s)" % (nm, rng.choice([", ", ",", " , "]).join(args))

    cmd = []
    r = rng.random()
    if r < 0.3:
        defs.append("K " + rng.choice(["1", "2", "4"]))
    elif r < 0.5:
        cmd.append("K=" + rng.choice(["1", "3"]))
    if conds:
        texts = [call() + " " + rng.choice(["==", "==", "==", "<", ">=", "!=", ">"]) + " " + str(rng.choice([0, 1, 2, 3, 4, 5, 6, 7, 10, 12, 21]))
                 for _ in range(rng.randint(2, 5))]
    else:
        texts = [" ".join(call() for _ in range(rng.randint(1, 3)))]
    flags = _flags_of(defs, " ".join(texts)) | {"targeted:vforward"} | {"vforward:" + f[1] for f in fronts}
    return {"defs": defs, "cmd": cmd, "texts": texts, "flags": sorted(flags)}


# --------------------------------------------------------------------------------------------
# histories: the same `#define` directive nodes evaluated for several platforms / translation units
# --------------------------------------------------------------------------------------------
STEP_CMDS = [[], [], [], ["q=1"], ["q=2"], ["r=q"], ["K=2"], ["K=5"], ["q=1", "K=3"]]


def history_steps(rng, case):
    """per-evaluation extra command-line definitions (names the table of the case does not define)"""
    taken = {d[0] for d in all_defs(case)}
    k = rng.choice([2, 2, 3])
    if rng.random() < 0.5:
        return [[] for _ in range(k)]
    out = []
    for _ in range(k):
        out.append([c for c in rng.choice(STEP_CMDS) if c.split("=")[0] not in taken])
    return out


def gen_history_case(rng):
    r = rng.random()
    if r < 0.30:
        c = gen_case(rng, bias={"variadic": 0.45})
        c["origin"] = "history-nodes:random"
    elif r < 0.45:
        c = gen_case(rng, arith=True, bias={"variadic": 0.45})
        c["origin"] = "history-nodes:arith"
    elif r < 0.60:
        c = gen_targeted(rng)
        c["origin"] = "history-nodes:targeted"
    elif r < 0.90:
        v = gen_vforward(rng, conds=rng.random() < 0.3)
        c = {"defs": v["defs"], "cmd": v["cmd"], "text": v["texts"][0], "flags": v["flags"], "origin": "history-nodes:vforward"}
    else:
        c = gen_paste_painted(rng, arith=rng.random() < 0.3)
        c["origin"] = "history-nodes:painted"
    return c


def run_node_history(ctx, drv, cb, job):
    """job = case + "steps" (list of extra -D lists).  Every step is judged like a fresh case: against the Prosser spec for the
    table in force at that step (known-finding classes and the gcc second opinion included), and against the model."""
    case = {k: job[k] for k in ("defs", "cmd", "text") if k in job}
    case.setdefault("defs", [])
    case.setdefault("cmd", [])
    steps = job["steps"]
    Is = impl_history(cb, case, steps)
    cache = {}
    ctx.dist["history-nodes:jobs"] += 1
    if sum(1 for x in ctx.samples if "steps" in x) < 2:
        ctx.sample({"origin": job.get("origin", "history-nodes"), "defs": case["defs"], "cmd": case["cmd"], "text": case["text"], "steps": steps}, cap=10)
    ctx.dist["history-nodes:evaluations=%d" % len(steps)] += 1
    nv = len(ctx.violations)
    for i, (extra, I) in enumerate(zip(steps, Is)):
        c = {"defs": case["defs"], "cmd": case["cmd"] + list(extra), "text": case["text"], "flags": job.get("flags", []),
             "origin": job.get("origin", "history-nodes")}
        key = json.dumps(c["cmd"])
        R = cache.get(key)
        if R is None and drv is not None and "timeout" not in I:
            R = ask(ctx, drv, {"op": "c03", "defs": c["defs"], "cmd": c["cmd"], "text": c["text"], "old": False})
            cache[key] = R
        if R is None and "timeout" not in I:
            continue
        check_case(ctx, drv, cb, c, I=I, R=R,
                   extra={"cmd": case["cmd"], "history": {"kind": "nodes", "steps": steps, "step": i}},
                   prefix=f"[evaluation {i + 1} of {len(steps)} of the same parsed #define directives, new Platform each"
                          + (f", -D {' -D '.join(case['cmd'] + list(extra))}" if case["cmd"] or extra else "") + "] ")
        ctx.dist["history-nodes:steps"] += 1
        if len(ctx.violations) > nv:
            break  # one failing step per history is enough


def _cond_truth_from(R, which):
    """truth value of a controlling expression from the driver's reply: the expansion (`spec` = Prosser, `model`) evaluated by
    the real ExpressionEvaluator (C02 judges the evaluator); None when there is no expansion or it is not an expression"""
    s = R.get(which, {})
    if "ok" not in s:
        return None
    t = impl_truth_of_tokens(spell(norm_spec(s["ok"]) if which == "spec" else norm_model(s["ok"])))
    return t if isinstance(t, bool) else None


def gen_find_history_job(rng):
    r = rng.random()
    if r < 0.55:
        v = gen_vforward(rng, conds=True)
        defs, cmd, conds, flags, src = v["defs"], v["cmd"], v["texts"], v["flags"], "vforward"
    elif r < 0.85:
        g = Gen(rng, arith=True, bias={"variadic": 0.45})
        c = g.case()
        conds = [c["text"]] + [g.arith_expr_top() for _ in range(rng.randint(1, 3))]
        defs, cmd, flags, src = c["defs"], c["cmd"], c["flags"], "arith"
    else:
        c = gen_paste_painted(rng, arith=True)
        conds = [c["text"]]
        for _ in range(rng.randint(1, 2)):
            conds.append(re.sub(r"\S+\s+\d+$", "%s %d" % (rng.choice(["==", "<", ">="]), rng.choice([1, 2, 3, 4, 5, 7])), c["text"]))
        defs, cmd, flags, src = c["defs"], [], c["flags"], "painted"
    base = {"defs": defs, "cmd": cmd, "text": ""}
    steps = history_steps(rng, base)
    layout = rng.choice(["platforms", "platforms", "tus", "tus", "twice", "grid"])
    if layout == "platforms":      # one file compiled for 2-3 platforms
        units = [["P%d" % i, 0, st] for i, st in enumerate(steps)]
        header = rng.random() < 0.4
    elif layout == "tus":          # one platform, 2-3 translation units including the same header
        units = [["P0", i, st] for i, st in enumerate(steps)]
        header = True
    elif layout == "twice":        # the same file listed twice for one platform (same options)
        units = [["P0", 0, steps[0]], ["P0", 0, steps[0]]]
        header = rng.random() < 0.4
    else:                          # 2 platforms x 2 translation units
        units = [["P%d" % (i // 2), i % 2, steps[i % len(steps)]] for i in range(4)]
        header = True
    return {"origin": "history-find:" + src, "defs": defs, "cmd": cmd, "conds": conds, "units": units, "header": header,
            "layout": layout, "flags": flags}


def find_history_files(job, conds):
    """file texts of the job: ({relative name: text}, {line number in a translation unit: (condition index, branch)})"""
    define_lines = ["#define " + d for d in job["defs"]]
    head = ['#include "m.h"'] if job["header"] else define_lines
    lines = list(head)
    markers = {}
    for i, c in enumerate(conds):
        lines.append("#if " + c)
        lines.append("int t_%d;" % i)
        markers[len(lines)] = (i, True)
        lines.append("#else")
        lines.append("int f_%d;" % i)
        markers[len(lines)] = (i, False)
        lines.append("#endif")
    files = {}
    if job["header"]:
        files["m.h"] = "\n".join(define_lines) + "\n"
    for tu in sorted({u[1] for u in job["units"]}):
        files["t%d.c" % tu] = "\n".join(lines) + "\n"
    return files, markers


def find_history_observe(cb, job, conds, root):
    """finder.find on the job's files -> {(platform, tu): {condition index: sorted list of branches attributed}} | {"exc": name}"""
    import os

    from codebasin import CodeBase, finder
    from codebasin import preprocessor as pp

    files, markers = find_history_files(job, conds)
    for name, text in files.items():
        with open(os.path.join(root, name), "w") as f:
            f.write(text)
    cfg = {}
    for plat, tu, extra in job["units"]:
        cfg.setdefault(plat, []).append({"file": os.path.join(root, "t%d.c" % tu), "defines": list(job["cmd"]) + list(extra),
                                         "include_paths": [], "include_files": []})
    old = signal.signal(signal.SIGALRM, _alarm)
    signal.setitimer(signal.ITIMER_REAL, 4 * TIME_LIMIT)
    try:
        st = finder.find(root, CodeBase(root), cfg, summarize_only=False)
        got = {}
        for tu in sorted({u[1] for u in job["units"]}):
            path = os.path.join(root, "t%d.c" % tu)
            tree, amap = st.get_tree(path), st.get_map(path)
            for nd in tree.walk():
                if type(nd).__name__ != "CodeNode":
                    continue
                for ln in nd.lines:
                    if ln in markers:
                        i, br = markers[ln]
                        for plat in amap[nd]:
                            got.setdefault((plat, tu), {}).setdefault(i, set()).add(br)
        return {"ok": {k: {i: sorted(v) for i, v in d.items()} for k, d in got.items()}}
    except _Timeout:
        return {"exc": "timeout"}
    except Exception as e:  # noqa
        return {"exc": type(e).__name__ + ": " + str(e)[:120]}
    finally:
        signal.setitimer(signal.ITIMER_REAL, 0)
        signal.signal(signal.SIGALRM, old)


def gcc_find_history(job, conds, root, plat_tu_extra):
    """branches gcc selects for one unit (translation unit file + command line) | None when gcc says anything"""
    import os

    tu, extra = plat_tu_extra
    argv = ["gcc", "-E", "-P", "-x", "c", "-std=gnu11", "-undef", "-nostdinc", "-I", root] + \
           ["-D" + c for c in list(job["cmd"]) + list(extra)] + [os.path.join(root, "t%d.c" % tu)]
    try:
        r = subprocess.run(argv, capture_output=True, text=True, timeout=20)
    except subprocess.TimeoutExpired:
        return None
    if r.returncode != 0 or r.stderr.strip():
        return None
    return {i: ("int t_%d;" % i) in r.stdout for i in range(len(conds))}


def run_find_history(ctx, drv, cb, job, root, report=None):
    """One finder.find run over the job's files.  Expected, per unit (platform, translation unit, command line) and condition:
    the truth value of the Prosser expansion under the table in force for THAT unit - it does not depend on which other platforms
    or translation units evaluated the shared `#define` nodes before.  Conditions the spec does not assign a truth value for
    every unit are left out of the files (they would abort the whole run by design of the code)."""
    import os

    if drv is None:
        return
    tables = []
    for plat, tu, extra in job["units"]:
        tables.append(list(job["cmd"]) + list(extra))
    want = {}   # (unit index, original condition index) -> truth
    model = {}
    peak = 0
    keep = []
    for ci, c in enumerate(job["conds"]):
        ok = True
        for ui, cmd in enumerate(tables):
            R = ask(ctx, drv, {"op": "c03", "defs": job["defs"], "cmd": cmd, "text": c, "old": False})
            if R is None:
                ok = False
                break
            t = _cond_truth_from(R, "spec")
            if t is None or "unspec" in R.get("spec", {}):
                ok = False
                break
            want[(ui, ci)] = t
            model[(ui, ci)] = _cond_truth_from(R, "model")
            peak = max(peak, R.get("peak", 0))
        if ok:
            keep.append(ci)
        else:
            ctx.dist["history-find:condition outside WF (left out)"] += 1
    ctx.dist["history-find:jobs"] += 1
    if not keep:
        ctx.dist["history-find:no well-formed condition"] += 1
        return
    conds = [job["conds"][ci] for ci in keep]
    small = {k: job[k] for k in ("origin", "defs", "cmd", "conds", "units", "header", "layout")}
    os.makedirs(root, exist_ok=True)
    obs = find_history_observe(cb, job, conds, root)
    groups = {}
    for ui, (plat, tu, extra) in enumerate(job["units"]):
        groups.setdefault((plat, tu), []).append(ui)
    ctx.count(key="history-find:" + job["layout"])
    ctx.dist["history-find:units=%d" % len(job["units"])] += 1
    for f in job.get("flags", []):
        ctx.dist["flag:" + f] += 1
    exp_all = {}
    for (plat, tu), uis in groups.items():
        exp_all[(plat, tu)] = {k: sorted({want[(ui, ci)] for ui in uis}) for k, ci in enumerate(keep)}
    if len({json.dumps(sorted(v.items())) for v in exp_all.values()}) > 1 or any(len(set(sum(v.values(), []))) > 1 for v in exp_all.values()):
        ctx.nontrivial.add("hfind|" + json.dumps(small, sort_keys=True))
    if sum(1 for x in ctx.samples if str(x.get("origin", "")).startswith("history-find")) < 2:
        ctx.sample(small, cap=10)
    if report is not None:
        report.update({"conditions": conds, "expected": {"%s/t%d.c" % k: v for k, v in exp_all.items()},
                       "implementation": ({"%s/t%d.c" % k: v for k, v in obs["ok"].items()} if "ok" in obs else obs)})
    kcase = {"defs": job["defs"], "cmd": sorted({c for t in tables for c in t}), "text": " ".join(conds)}
    known_ids = {k["id"] for k in ctx.known}

    def known():
        for fid, pred in CLASSIFIERS:
            if fid in ("D38", "D42", "D12") and fid in known_ids and pred(kcase, {"peak": peak}):
                k = next(k for k in ctx.known if k["id"] == fid)
                ctx.known_finding(fid, k["what_fails"])
                ctx.dist["known:" + fid] += 1
                return True
        return False

    if "exc" in obs:
        gs = [gcc_find_history(job, conds, root, (tu, extra)) for _p, tu, extra in job["units"]] if gcc_available() else []
        if any(g is None for g in gs):
            ctx.dist["history-find:run fails, gcc diagnoses (not judged)"] += 1
            return
        if not known():
            ctx.violation(f"finder.find fails ({obs['exc']}) on {job['layout']} layout although every controlling expression has a truth value "
                          f"by the Prosser expansion for every platform / translation unit: {conds}", dict(small, conds=conds))
        return
    for (plat, tu), uis in groups.items():
        got = obs["ok"].get((plat, tu), {})
        for k, ci in enumerate(keep):
            exp = exp_all[(plat, tu)][k]
            g = got.get(k, [])
            mod = sorted({model[(ui, ci)] for ui in uis if model[(ui, ci)] is not None})
            if mod and g != mod:
                ctx.corr_break("c03(history-find)", dict(small, conds=conds, failing={"platform": plat, "tu": tu, "cond": k}), g, mod)
            ctx.dist["history-find:conditions judged"] += 1
            if g == exp:
                ctx.dist["history-find:impl==spec"] += 1
                continue
            # second opinion (unspecified nesting, C11 6.10.3.4p4): gcc on the same files and command line
            if gcc_available():
                gg = sorted({(gcc_find_history(job, conds, root, (tu, job["units"][ui][2])) or {}).get(k) for ui in uis} - {None})
                if gg and gg == g and gg != exp:
                    ctx.dist["impl!=spec but ==gcc (unspecified nesting, not judged)"] += 1
                    continue
            if known():
                continue
            which = [i for i, u in enumerate(job["units"]) if (u[0], u[1]) == (plat, tu)]
            ctx.violation(
                f"[{job['layout']}: unit {which[0] + 1} of {len(job['units'])} that evaluate the same #define directives] "
                f"`#if {conds[k]}` in t{tu}.c for platform {plat} (-D {tables[which[0]]}): branches attributed {g}, the conforming "
                f"expansion selects {exp}", dict(small, conds=conds, failing={"platform": plat, "tu": tu, "cond": k, "got": g, "want": exp}))
            return

HISTORY_WITNESSES = [
    # C11 6.10.3.5 EXAMPLE 7 (variable arguments), evaluated three times on the same directive nodes
    {"defs": ["debug(...) fprintf(stderr, __VA_ARGS__)", "report(test, ...) ((test)?puts(#test): printf(__VA_ARGS__))"],
     "text": "debug(1); debug(2, x); report(x>y, 3, x, y);", "steps": [[], [], ["x=7"]], "flags": ["variadic", "hash"],
     "origin": "history-nodes:C11 6.10.3.5 EXAMPLE 7"},
    # C11 6.10.3.5 EXAMPLE 3 under two platforms that differ in a command-line definition
    {"defs": ["f(a) f(x * (a))", "g f", "t(a) a"], "text": "f(y+1) + f(f(z)) % t(t(g)(0) + t)(1);", "steps": [["x=3"], ["x=2"], []],
     "flags": ["recursion"], "origin": "history-nodes:C11 6.10.3.5 EXAMPLE 3"},
]


def run_extensions(ctx, drv, cb, search=False, use_gcc=False):
    """streams added after the sixth round of seeded changes: painted names as operands of `##`; re-evaluation histories of shared
    `#define` nodes, in process and through finder.find.  They draw from ctx.rng AFTER the main loop, so the main stream of a given
    VERIF_SEED is what it was."""
    if len(ctx.violations) >= 20 or (search and ctx.violations):
        return
    t0 = time.time()
    ctx.c03_deadline = max(ctx.c03_deadline, t0) + (120.0 if (ctx.thorough() or search) else 40.0)
    rng = ctx.rng
    scale = min(ctx.budget_scale, 4.0) / ctx.budget_scale   # the search multiplies budgets by 8; these streams are dense, x4 is plenty
    # --- 1. painted names pasted
    for i in range(int(ctx.n(800, 4000) * scale)):
        if len(ctx.violations) >= 20 or (search and ctx.violations) or out_of_time(ctx):
            break
        c = gen_paste_painted(rng, arith=i % 4 == 3)
        c["origin"] = "random-painted"
        check_case(ctx, drv, cb, c, gcc=use_gcc and i % 5 == 0)
        ctx.dist["painted:cases"] += 1
        if i < 2:
            ctx.sample({k: c[k] for k in ("defs", "text", "origin")}, cap=8)
    # --- 2. histories on shared directive nodes (token streams and `#if` truth)
    jobs = [dict(w) for w in HISTORY_WITNESSES]
    for _ in range(int(ctx.n(800, 4000) * scale)):
        c = gen_history_case(rng)
        c["steps"] = history_steps(rng, c)
        jobs.append(c)
    for job in jobs:
        if len(ctx.violations) >= 20 or (search and ctx.violations) or out_of_time(ctx):
            break
        run_node_history(ctx, drv, cb, job)
    # --- 3. histories through finder.find (branch attributed per platform / translation unit)
    if drv is not None:
        with core.Scratch() as d:
            for j in range(int(ctx.n(200, 1200) * scale)):
                if len(ctx.violations) >= 20 or (search and ctx.violations) or out_of_time(ctx):
                    break
                job = gen_find_history_job(rng)
                root = str(d / ("j%d" % j))
                try:
                    run_find_history(ctx, drv, cb, job, root)
                finally:
                    shutil.rmtree(root, ignore_errors=True)
    ctx.extra["extension_streams_wall_s"] = round(time.time() - t0, 1)
    ctx.extra["extension_streams"] = {k: v for k, v in sorted(ctx.dist.items())
                                      if k.startswith(("painted:", "history-", "flag:painted", "flag:vforward", "flag:targeted:paste_painted", "flag:targeted:vforward"))}
    print("C03 extension streams: " + json.dumps({k: ctx.dist[k] for k in ("painted:cases", "history-nodes:jobs", "history-nodes:steps", "history-find:jobs",
                                                                            "history-find:conditions judged", "history-find:impl==spec")})
          + f" in {ctx.extra['extension_streams_wall_s']} s")


# --------------------------------------------------------------------------------------------
# entry points
# --------------------------------------------------------------------------------------------
RULE = ("inputs = (macro table of <= 6 object-/function-like macros with bodies from the grammar {identifiers, numbers, operators, "
        "parameter uses, #p, a##b(##c)* chains, __VA_ARGS__, named variadics, string/char literals, calls to other macros incl. direct, "
        "mutual and argument-borne recursion, trailing function-like names, macros named None}, some given as -D forms) x (text of 1-4 "
        "invocations with 0..n arguments incl. empty, nested-parenthesis, literals and identifiers spelled like parameters, argument lists "
        "supplied by following tokens, `defined`); a targeted family (2 of 7 cases) for the shapes the repaired findings used to mask: `##` "
        "chains with empty operands, function-like names at the end of a replacement list completed by following `(...)` groups, unused "
        "variadic parameters, literals spelled like parameters, macros / parameters named None, wrong-arity calls inside operands of # / ##, "
        "arguments spelled like parameters of a pasting macro; an arithmetic family "
        "`F(args) <op> k` observed through IfNode.evaluate_for_platform; exhaustive object-like tables over 2 (quick) / 3 (thorough) names; "
        "a family in which a name under replacement (the macro's own or an enclosing macro's) reaches `##` as left or right operand "
        "through 0-2 pre-expanding indirections (fixed or variadic), the pasted name being an object-like macro, a function-like macro "
        "completed by following tokens, undefined, a second such paste, the disabled name itself or a macro referring back to it; a family "
        "of variadic macros forwarding their variable arguments and commas to another macro's argument list (counting idiom with padding, "
        "overloading on the number of arguments, applied macro names, named variadics, nesting) invoked with 0-4 variable arguments; "
        "re-evaluation HISTORIES: the `#define` directives of a table are parsed once and evaluated 2-3 times, each time for a new Platform "
        "with its own -D definitions (in process: token stream and `#if` truth per evaluation; through finder.find: one file for 2-3 "
        "platforms, 2-3 translation units including one header, the same file listed twice, 2 platforms x 2 units - branch attributed per "
        "platform and unit), every evaluation judged against the Prosser spec for the table in force at that evaluation. "
        "Well-formed = the Prosser spec assigns a result (no constraint violation, no undefined behaviour; thorough: gcc -E silent and "
        "equal to the spec). Non-trivial = distinct well-formed (table, text) where at least one macro is replaced.")

ASSUMPTIONS = [
    "correspondence model/implementation compares token kind, token text and prev_white exactly, for every table (the former exception for "
    "tables that use `##` - prev_white not compared, string literals modulo white space, because MacroFunction.replace used to mutate a shared "
    "argument token - is gone: the code copies the token since the repair of D41, and since the repair of D10 blanks inside stringified text are "
    "part of the property)",
    "implementation/spec comparison is on (kind class, spelling) per token, operators and punctuators being one class; white space between "
    "tokens is not compared (it has no meaning after translation phase 4)",
    "tokens are restricted to ASCII and to the vocabulary CBI's lexer knows; `##` results such as `++`, `->`, `+=` are treated as outside "
    "the well-formedness condition (they cannot occur in a #if or #include operand)",
    "`defined` produced by macro replacement is undefined behaviour (C11 6.10.1p4) and outside WF; `defined` in the scanned text is inside",
    "wrong-arity calls, unterminated calls and invalid pastes are constraint violations / undefined and outside WF (the machinery still "
    "checks model = implementation on them)",
    "truth values of the spec's token stream are computed with the real ExpressionEvaluator (C02 judges the evaluator itself)",
    "an implementation result that differs from the Prosser spec and falls into no known-finding class is compared with `gcc -E -P` before it "
    "counts as a violation: where a call is completed by tokens that follow the expansion its name came from, the standard leaves open whether "
    "the replacement is nested (C11 6.10.3.4p4); Prosser's hide-set rule and gcc's context rule differ there, and a result equal to gcc's "
    "(diagnostic-free) output is accepted (counted in the distribution, listed under spec_vs_gcc_disagreements)",
    "every well-formed case is also located relative to the *proved* fragments (driver op `c03frag` evaluates the hypotheses of "
    "C03.funlike_conforms_partial / funlike_simple_conforms_partial themselves, budget d = |tbl|+2, argument bound L = 64): distribution "
    "keys `proved_fragment:*`; inside the fragment the specification side of the theorem (Prosser's algorithm on the table and text "
    "translated from the model's lexer and #define parser) is compared with the oracle (Prosser's algorithm behind its own lexer)",
    "histories through finder.find contain only controlling expressions to which the Prosser expansion + the real ExpressionEvaluator assign a "
    "truth value for every unit of the run (an unevaluable #if aborts the whole finder.find run by design of the code, which C18 judges); a "
    "deviating branch counts only if `gcc -E` on the same files and command line does not select the same branch (unspecified nesting), and a "
    "failing run only if gcc is silent on every unit",
    "a history evaluates directive nodes that are shared between evaluations, as ParserState.trees shares them between platforms and "
    "translation units; the expected result of an evaluation depends on nothing but the table in force (the -D definitions of that unit and "
    "the directives evaluated for it) - the property quantifies over macro tables and invocations and gives earlier evaluations no influence",
    "spec validation against gcc -E -P (thorough tier) compares pp-token spellings, string literals modulo white space (gcc keeps a blank "
    "for an empty argument inside stringified text, which the standard leaves open); inputs with `defined` in the text are validated "
    "through `#if` truth only, because gcc -E evaluates `defined` only inside #if",
]


def run_exhaustive(ctx, drv, cb, thorough):
    if thorough:
        tables = object_like_tables(["A", "B", "C"], ["A", "B", "C", "1"], 2)
        texts = ["A", "B C"]
    else:
        tables = object_like_tables(["A", "B"], ["A", "B", "1", "+"], 2)
        texts = ["A", "B", "A B", "B A 1"]
    n = 0
    for defs in tables:
        if len(ctx.violations) >= 20 or out_of_time(ctx):
            break
        for t in texts:
            check_case(ctx, drv, cb, {"defs": defs, "text": t, "flags": ["objlike_exhaustive"], "origin": "exhaustive-objectlike"})
            n += 1
    ctx.extra["exhaustive_objectlike_cases"] = n


WITNESSES = [
    {"defs": ["CAT(a,b) a##b"], "text": "CAT(x,)", "flags": ["paste", "empty_arg"], "origin": "repaired:D9"},
    {"defs": ["CAT3(a,b,c) q a##b##c"], "text": "CAT3(,,z)", "flags": ["paste", "empty_arg"], "origin": "repaired:D9"},
    {"defs": ["STR(x) #x"], "text": "STR( a ) STR('a')", "flags": ["hash"], "origin": "repaired:D10"},
    {"defs": ["STR(x) #x"], "text": "STR(  a   +  b ) STR() STR(a ) STR('\"') STR('\\\\') STR( '\\n' 'a') STR(\"x\\n\") STR( \"a\\\"b\"  'c' )", "flags": ["hash"], "origin": "repaired:D10(white space, character constants, escapes)"},
    {"defs": ["STR(x) #x", "XSTR(x) STR(x)", "N 3"], "text": "STR( STR( N ) ) XSTR( N ) XSTR( STR( N ) )", "flags": ["hash"], "origin": "repaired:D10(unexpanded operand)"},
    {"defs": ["S(x) #x", "F(x) S(a #x)", "G(x) S(a#x)"], "text": "F(1) G(1)", "flags": ["hash"], "origin": "repaired:D10(# result stringified again)"},
    {"defs": ["V(...) #__VA_ARGS__", "T(x,...) x + #__VA_ARGS__", "N(a, b...) #b b", "C(...) __VA_ARGS__", "q 7"], "text": "V( a , b,c ) V() V( , ) T(1) T(1,2 , q) T(1,) N(1, q ,q) C(q,q) C() [C(,)]", "flags": ["hash", "variadic", "empty_arg"], "origin": "repaired:D10(commas of the variable arguments)"},
    {"defs": ["f(a) a*g", "g(a) f(a)"], "text": "f(2)(9)", "flags": ["recursion"], "origin": "repaired:D11"},
    {"defs": ["None 1"], "text": "None", "flags": [], "origin": "repaired:D35"},
    {"defs": ["V(...) 1"], "text": "V(2)", "flags": ["variadic"], "origin": "repaired:D36"},
    {"defs": ["F(x) \"x\" x"], "text": "F(1)", "flags": [], "origin": "repaired:D37"},
    {"defs": ["S(x, y) #y", "T(a, b) a b"], "text": "S(1, T(2))", "flags": ["hash"], "origin": "repaired:D40"},
    {"defs": ["F(x,y) 1 ## y x"], "text": "F(2, _ x)", "flags": ["paste"], "origin": "repaired:D41"},
    {"defs": ["CAT(a,b) a##b"], "text": "CAT(,a) CAT(b,) CAT(,) CAT(a b, a b)", "flags": ["paste", "empty_arg"], "origin": "repaired:D9+D41"},
    {"cmd": ["F=B B()", "B(args...)=args ( F"], "text": "F B(B(q))", "flags": ["variadic"], "origin": "repaired:D11(b)"},
    {"defs": ["F(x) \"#\" x"], "text": "F(1)", "flags": [], "origin": "witness:D42"},
    {"defs": ["F(x,y) x+y"], "text": "F(\",\",2)", "flags": [], "origin": "repaired:D44"},
    {"defs": ["F(x,y) x+y", "G(a) [a]"], "text": "F(\"(\",')') G \"(\" 1 G((\")\")) F(',', \",\")", "flags": [], "origin": "repaired:D44(b)"},
    {"defs": ["F(x,y) x+G(y)*N", "G(a) (a a)", "N 3 N", "R(x) R(x)-1", "Z() 7"], "text": "F(p, (q,r)) + R(2) G Z() F(,s);", "flags": ["recursion", "empty_arg"], "origin": "proved:funlike_conforms_partial"},
    {"defs": ["I", "H(x) G I ()", "G() H(1)", "F(x) x"], "text": "F(H(0))", "flags": ["recursion"], "origin": "witness:Ref/gcc vs Prosser (unspecified nesting)"},
    {"defs": ["A%d A%d" % (i, i + 1) for i in range(199)], "text": "A0", "flags": [], "origin": "witness:D12"},
    {"defs": ["A%d A%d" % (i, i + 1) for i in range(198)], "text": "A0", "flags": [], "origin": "boundary:198 nested macros fit"},
    {"defs": ["f(x) x"], "text": "f(" * 100 + "1" + ")" * 100, "flags": [], "origin": "deep-but-below-the-backstop"},
    {"defs": ["x 3", "f(a) f(x * (a))", "g f", "t(a) a"], "text": "f(y+1) + f(f(z)) % t(t(g)(0) + t)(1);", "flags": ["recursion"], "origin": "C11 6.10.3.5 EXAMPLE 3"},
    {"defs": ["q(x) x", "w q"], "text": "w w(1)", "flags": [], "origin": "hand"},
    {"defs": ["STR(x) #x", "XSTR(x) STR(x)", "N 3"], "text": 'STR("a\\n") STR("q\\"r") STR(N) XSTR(N) STR(a  +  b)', "flags": ["hash"], "origin": "hand:escapes in #"},
    {"defs": ["NIL(xxx) xxx", "G_0(arg) NIL(G_1)(arg)", "G_1(arg) NIL(arg)"], "text": "G_0(42)", "flags": [], "origin": "hand"},
    {"defs": ["A B"], "cmd": ["B", "C=2"], "text": "A + C == 3 && defined(A) && !defined Q", "flags": ["cmdline", "defined"], "origin": "hand"},
]


def run(ctx, drv, search=False):
    cb = core.import_codebasin()
    ctx.rule = RULE
    ctx.assumptions += [a for a in ASSUMPTIONS if a not in ctx.assumptions]
    ctx.c03_deadline = time.time() + BUDGET["thorough" if ctx.thorough() else "quick"][1 if search else 0]
    ctx.c03_budget_noted = False
    thorough = ctx.thorough() or search
    use_gcc = thorough and gcc_available()
    # corpus first
    for f in sorted((core.VERIF / "corpus" / "C03").glob("*.json")):
        c = json.loads(f.read_text())
        c.setdefault("flags", [])
        c["origin"] = "corpus:" + f.name
        check_case(ctx, drv, cb, c, gcc=False)
    for w in WITNESSES:
        check_case(ctx, drv, cb, dict(w), gcc=False)
    # definitions: command line vs #define
    for d, c in definition_pairs(ctx.rng, ctx.n(150, 1500)):
        if len(ctx.violations) >= 20 or out_of_time(ctx):
            break
        check_definition(ctx, drv, cb, d, c)
    # exhaustive object-like tables (the fragment the simulation theorem covers)
    run_exhaustive(ctx, drv, cb, ctx.thorough())
    ctx.exhaustive = True
    from . import c03_strconf  # `#` against the specification: Props/C03StrConf.lean on the real code
    c03_strconf.run(ctx, drv, cb)
    # random tables x invocations
    n = ctx.n(12000, 40000)
    if search:
        n = min(n, 16000)
    for i in range(n):
        if len(ctx.violations) >= 20 or (search and ctx.violations):
            break  # enough concrete failing inputs for the replay file
        if out_of_time(ctx):
            break
        arith = i % 5 == 4
        bias = None
        if i % 7 == 3:
            bias = {"paste": 0.2, "empty": 0.15}
        elif i % 7 == 5:
            bias = {"hash": 0.15, "variadic": 0.2}
        if i % 7 in (1, 6) and not arith:
            c = gen_targeted(ctx.rng)
            c["origin"] = "random-targeted"
        else:
            c = gen_case(ctx.rng, arith=arith, bias=bias)
            c["origin"] = "random-arith" if arith else "random"
        check_case(ctx, drv, cb, c, gcc=use_gcc and i % 5 == 0)
    run_extensions(ctx, drv, cb, search=search, use_gcc=use_gcc)
    total = max(1, ctx.dist["cases"])
    ctx.extra["distribution_fractions"] = {
        k: round(ctx.dist["flag:" + k] / total, 3)
        for k in ("hash", "paste", "variadic", "named_variadic", "recursion", "arg_borne_recursion", "empty_arg", "nested_paren_arg",
                  "call_completed_by_following_tokens", "bare_funlike_name", "cmdline", "defined", "literal_arg", "arg_spelled_like_parameter",
                  "literal_spelled_like_parameter", "macro_named_None", "targeted:paste_empty", "targeted:tail_call", "targeted:unused_variadic",
                  "targeted:literal_param", "targeted:named_none", "targeted:unevaluated_operand", "targeted:arg_like_param",
                  "targeted:paste_painted", "targeted:vforward", "targeted:stringify")
    }
    ctx.extra["known_finding_fraction_of_well_formed"] = round(ctx.dist["impl!=spec:known"] / max(1, ctx.dist["wf"]), 4)
    ctx.extra["well_formed_fraction"] = round(ctx.dist["wf"] / total, 3)
    print("C03 input distribution (fraction of generated cases): " + json.dumps(ctx.extra["distribution_fractions"]))
    print(f"C03 well-formed cases in a known-finding class: {ctx.dist['impl!=spec:known']}/{ctx.dist['wf']} = "
          f"{ctx.extra['known_finding_fraction_of_well_formed']:.2%}")
    print(f"C03 well-formed {ctx.dist['wf']}/{total}, impl==spec {ctx.dist['impl==spec']}, impl!=spec {ctx.dist['impl!=spec']} "
          f"(known {ctx.dist['impl!=spec:known']}), model==impl {ctx.dist['corr_agree']}, gcc agrees with spec {ctx.dist['gcc:spec_agrees']}, "
          f"gcc != spec {ctx.dist['gcc:spec_disagrees']}")


def search(ctx, drv):
    run(ctx, drv, search=True)


def replay_history(ctx, drv, cb, case):
    """a stored history case: every step / unit again on implementation, model and spec"""
    if "history" in case:   # shared directive nodes, in process
        h = case["history"]
        base = {"defs": case.get("defs", []), "cmd": case.get("cmd", []), "text": case["text"]}
        Is = impl_history(cb, base, h["steps"])
        out = {"history": "the #define directives are parsed once; per step: new Platform, -D of the step, the shared nodes evaluated, text expanded",
               "failing_step": h.get("step"), "steps": []}
        for extra, I in zip(h["steps"], Is):
            c = dict(base, cmd=base["cmd"] + list(extra))
            st = {"-D": c["cmd"], "implementation": {"tokens": spell(norm_impl(I["ok"])) if "ok" in I else I, "truth_of_#if": I.get("truth")}}
            if drv is not None:
                R = drv.ask({"op": "c03", "defs": c["defs"], "cmd": c["cmd"], "text": c["text"]})
                st["model"] = spell(norm_model(R["model"]["ok"])) if "ok" in R["model"] else R["model"]
                st["spec"] = spell(norm_spec(R["spec"]["ok"])) if "ok" in R["spec"] else R["spec"]
            if gcc_available():
                st["gcc -E -P"] = gcc_expand(c)
            fresh = impl_run(cb, c)
            st["implementation, fresh parse of the directives"] = spell(norm_impl(fresh["ok"])) if "ok" in fresh else fresh
            out["steps"].append(st)
        return out
    job = dict(case)
    job.setdefault("flags", [])
    rep = {}
    sub = core.Ctx(ctx.prop, ctx.tier, ctx.seed)
    with core.Scratch() as d:
        root = str(d / "j")
        run_find_history(sub, drv, cb, job, root, report=rep)
        if gcc_available() and "conditions" in rep:
            import os
            os.makedirs(root, exist_ok=True)
            files, _m = find_history_files(job, rep["conditions"])
            for name, text in files.items():
                with open(os.path.join(root, name), "w") as f:
                    f.write(text)
            rep["gcc"] = {"%s/t%d.c" % (p_, tu): gcc_find_history(job, rep["conditions"], root, (tu, extra)) for p_, tu, extra in job["units"]}
            rep["files"] = files
    rep["judgement"] = [w for w, _c in sub.violations] or "no deviation from the property on this input"
    rep["configuration"] = [{"platform": p_, "file": "t%d.c" % tu, "defines": list(job.get("cmd", [])) + list(extra)} for p_, tu, extra in job["units"]]
    return rep


def replay(ctx, drv, case):
    cb = core.import_codebasin()
    if "strconf" in case:
        from . import c03_strconf
        return c03_strconf.replay(ctx, drv, case)
    if "history" in case or str(case.get("origin", "")).startswith("history-find"):
        return replay_history(ctx, drv, cb, case)
    if "define" in case:
        from codebasin import preprocessor as pp
        md, ed = impl_define(pp, case["define"])
        mc, ec = impl_cmdline(pp, case["cmdline"])
        out = {"implementation": {"define": _macro_repr(md, pp) if md else ed, "cmdline": _macro_repr(mc, pp) if mc else ec}}
        if drv is not None:
            out["model"] = drv.ask({"op": "c03def", "define": case["define"], "cmdline": case["cmdline"]})
        return out
    I = impl_run(cb, case)
    out = {"implementation": {"tokens": spell(norm_impl(I["ok"])) if "ok" in I else I, "truth_of_#if": I.get("truth")}}
    if drv is not None:
        R = drv.ask({"op": "c03", "defs": case.get("defs", []), "cmd": case.get("cmd", []), "text": case["text"]})
        out["model"] = spell(norm_model(R["model"]["ok"])) if "ok" in R["model"] else R["model"]
        out["spec"] = spell(norm_spec(R["spec"]["ok"])) if "ok" in R["spec"] else R["spec"]
        out["model_instrumentation"] = {k: R.get(k) for k in ("steps", "peak", "max_level")}
    if gcc_available():
        out["gcc -E -P"] = gcc_expand(case)
    return out
