import CbiVerif.Props.C02
import CbiVerif.Lemmas.EvalFlags
import CbiVerif.Lemmas.LexLayout
import CbiVerif.Model.ExpandPP
import CbiVerif.Model.EvalText
import CbiVerif.Model.CondFragment
/-!
# C02 — from the TEXT of an `#if` expression to its ISO C truth value

`Props/C02.lean` proves the evaluator model on token lists (`main_partial`) and the lexer model on the one layout
"blank token blank … blank" (`lexer_roundtrip`).  This file closes the gap between the two for every white-space layout:

1. `evaluator_ignores_flags` — `Eval.cbiExpr` / `Eval.cbiEval` (the evaluator the end-to-end models execute through
   `Eval.evaluatePP`) depend on a token only through its kind and text, not on `prev_white` / `expandable`, for EVERY token
   list (residual calls of any nesting included);
2. `lexer_reads_layout` — for every list of tokens of the classes of `#if` expressions and every admissible layout
   (`Model/LexLayout.lean`: any run of blanks / tabs / newlines before, between and after the tokens, and NO white space
   between two tokens that are `separable`), `PP.tokenize` returns exactly those tokens, with `prev_white` set exactly after a
   non-empty run; `separable_sound`, `separable_paren`, `separable_op_word` say what `separable` means and which pairs
   always are;
3. `text_main_partial` — for every parse tree of the C grammar satisfying the hypotheses of `main_partial`, without a
   `defined` operator (that operator is replaced by the macro expander, not by the evaluator), and every admissible layout
   of its source tokens: lexer model then evaluator model give the ISO C truth value.  `text_cond_partial` adds the macro
   expander the end-to-end models run in between (`PP.condValue`), for every object-like macro table that defines none of
   the identifiers of the expression; `Props/C02Defined.lean` removes both restrictions (`defined` anywhere, identifiers
   that are object-like macros).

Lemmas: `Lemmas/EvalFlags.lean`, `Lemmas/LexLayout.lean`.
-/
namespace CbiVerif.C02
open CbiVerif.PP CbiVerif.Climb CbiVerif.CExpr CbiVerif.Eval CbiVerif.EvalBridge CbiVerif.LexLayout

/-! ## 1. the evaluator reads kind and text only -/

/-- Two token lists that agree in kinds and texts (and may differ in every `prev_white` / `expandable` flag) get the same
    value with the same number of unconsumed tokens, hence the same truth value or the same failure. -/
theorem evaluator_ignores_flags (ts ts' : List Tok)
    (h : ts.map (fun t => (t.kind, t.text)) = ts'.map (fun t => (t.kind, t.text))) :
    cbiEval ts = cbiEval ts' ∧ EvalFlags.mapRes (cbiExpr ts) = EvalFlags.mapRes (cbiExpr ts') ∧
    evaluatePP ts = evaluatePP ts' := by
  have e := EvalFlags.erase_of_key ts ts' h
  refine ⟨?_, ?_, ?_⟩
  · rw [← EvalFlags.cbiEval_erase ts, ← EvalFlags.cbiEval_erase ts', e]
  · rw [← EvalFlags.cbiExpr_erase ts, ← EvalFlags.cbiExpr_erase ts', e]
  · simp only [evaluatePP, e]

/-- erasing the flags (what `Eval.evaluatePP` does before it calls the evaluator) changes nothing -/
theorem evaluator_ignores_flags_erase (ts : List Tok) :
    cbiEval (ts.map eraseFlags) = cbiEval ts ∧ cbiExpr (ts.map eraseFlags) = EvalFlags.mapRes (cbiExpr ts) :=
  ⟨EvalFlags.cbiEval_erase ts, EvalFlags.cbiExpr_erase ts⟩

/-- non-vacuity: `f ( 1 , 2 ) + - 3` with every flag set differently; a residual call, so the argument-list parser is
    exercised as well -/
example :
    let ts : List Tok := [⟨.ident, "f", true, false⟩, ⟨.punct, "(", false, true⟩, ⟨.num, "1", true, true⟩, ⟨.punct, ",", true, false⟩,
      ⟨.num, "2", false, false⟩, ⟨.punct, ")", true, true⟩, ⟨.op, "+", true, true⟩, ⟨.op, "-", false, false⟩, ⟨.num, "3", true, true⟩]
    cbiExpr ts = .ok (⟨false, -3⟩, []) ∧ cbiExpr (ts.map eraseFlags) = .ok (⟨false, -3⟩, []) ∧ ts ≠ ts.map eraseFlags := by
  decide

/-! ## 2. the lexer reads every admissible layout -/

/-- token-list form: any list of tokens of the accepted classes, any admissible layout -/
theorem lexer_reads_layout (ts : List Tok) (h : ∀ t ∈ ts, LexRT.lexOK t = true) (w : Layout)
    (hw : admissible w ts = true) : tokenize (layout w ts) = flagged w ts :=
  tokenize_layout w ts h hw

/-- … in particular kinds and texts are those of the list, in order, nothing dropped, split or merged -/
theorem lexer_reads_layout_tokens (ts : List Tok) (h : ∀ t ∈ ts, LexRT.lexOK t = true) (w : Layout)
    (hw : admissible w ts = true) :
    (tokenize (layout w ts)).map (fun t => (t.kind, t.text)) = ts.map (fun t => (t.kind, t.text)) := by
  rw [tokenize_layout w ts h hw]
  simp only [admissible, Bool.and_eq_true] at hw
  exact flag_key _ _ _ hw.2

/-- the layout of `lexer_roundtrip` (one blank around every token) and the tightest layout (a blank only between two tokens
    that are not separable) are admissible for every token list: `lexer_reads_layout` contains `lexer_roundtrip` -/
theorem extreme_layouts_admissible (ts : List Tok) :
    admissible (blanks ts.length) ts = true ∧ admissible (tight ts) ts = true :=
  ⟨blanks_admissible ts, tight_admissible ts⟩

/-- **soundness of `separable`**: two tokens written with nothing between them are read as exactly those two tokens -/
theorem separable_sound (t1 t2 : Tok) (h1 : LexRT.lexOK t1 = true) (h2 : LexRT.lexOK t2 = true)
    (hs : separable t1 t2 = true) :
    tokenize (String.ofList (LexRT.spellChars t1 ++ LexRT.spellChars t2)) =
      [⟨t1.kind, t1.text, false, true⟩, ⟨t2.kind, t2.text, false, true⟩] := by
  have := tokenize_layout ⟨[], [[], []]⟩ [t1, t2] (by intro t ht; simp at ht; rcases ht with rfl | rfl <;> assumption)
    (by simp [admissible, gapsOK, hs])
  simpa [layout, body, flagged, flag] using this

/-- `(` and `)` need no white space on either side, whatever token is next to them -/
theorem separable_paren (t : Tok) (ht : LexRT.lexOK t = true) :
    separable lpTok t = true ∧ separable rpTok t = true ∧ separable t lpTok = true ∧ separable t rpTok = true :=
  LexLayout.separable_paren t ht

/-- an operator needs no white space before an integer constant, an identifier or a character constant -/
theorem separable_op_word (o t : Tok) (ho : o.kind = .op) (ht : LexRT.lexOK t = true)
    (hk : t.kind = .num ∨ t.kind = .ident ∨ t.kind = .chr) : separable o t = true :=
  LexLayout.separable_op_word o t ho ht hk

/-- what is NOT separable (the lexer would read something else), and what is: the regenerated lists decide -/
example :
    separable (opTok "<") (opTok "<") = false ∧ separable (opTok "<") (opTok "=") = false ∧
    separable (opTok "&") (opTok "&") = false ∧ separable (opTok "!") (opTok "=") = false ∧
    separable (numTok "1") (numTok "2") = false ∧ separable (identTok "a") (numTok "1") = false ∧
    separable (numTok "0x1e") (opTok "+") = false ∧ separable (numTok "1") (identTok "u") = false ∧
    separable (numTok "0x1f") (opTok "+") = true ∧ separable (numTok "1") (opTok "+") = true ∧
    separable (opTok "<") (opTok "-") = true ∧ separable (opTok "-") (opTok "!") = true ∧
    separable (opTok "<<") (opTok "~") = true ∧ separable (chrTok "a") (identTok "b") = true ∧
    separable (opTok "?") (opTok ":") = true ∧ separable (identTok "defined") lpTok = true := by decide

/-- the same pairs through the lexer: `1<<2`, `0x1f+1` are read token by token, `0x1e+1` is ONE pp-number (as in ISO C) -/
example :
    (tokenize "1<<2").map (·.text) = ["1", "<<", "2"] ∧ (tokenize "0x1f+1").map (·.text) = ["0x1f", "+", "1"] ∧
    (tokenize "0x1e+1").map (·.text) = ["0x1e+1"] ∧
    cGlue (opTok "-") (opTok "-") = true ∧ cGlue (opTok "+") (opTok "+") = true ∧ cGlue (opTok "-") (opTok "+") = false ∧
    cGlue (opTok "/") (opTok "*") = true ∧ cGlue (identTok "L") (chrTok "a") = true := by decide

/-- source tokens of a parse tree: every admissible layout of the text is read back as the tokens of the tree -/
theorem lexer_reads_source_layout (a : CExpr.Ast) (h : LexSource.lexable a = true) (w : Layout)
    (hw : admissible w (renderSrc a) = true) : tokenize (layout w (renderSrc a)) = flagged w (renderSrc a) :=
  tokenize_layout w _ (LexSource.renderSrc_ok a h) hw

/-! ## 3. text → truth value -/

/-- without `defined`, the tokens the evaluator receives are the source tokens -/
theorem render_eq_renderSrc (env : Env) (a : CExpr.Ast) (h : noDefined a = true) : render env a = renderSrc a := by
  induction a with
  | lit l => rfl
  | chr c => rfl
  | ident n => rfl
  | defd n p => simp [noDefined] at h
  | paren a ih =>
    have := ih h
    simp only [render] at this ⊢
    simp only [toClimb, Climb.Ast.render, renderSrc, this]
  | un op a ih =>
    have := ih h
    simp only [render] at this ⊢
    simp only [toClimb, Climb.Ast.render, renderSrc, this]
  | bin op l r ihl ihr =>
    simp only [noDefined, Bool.and_eq_true] at h
    have h1 := ihl h.1
    have h2 := ihr h.2
    simp only [render] at h1 h2 ⊢
    simp only [toClimb, Climb.Ast.render, renderSrc, h1, h2]
  | tern c t e ihc iht ihe =>
    simp only [noDefined, Bool.and_eq_true] at h
    have h1 := ihc h.1.1
    have h2 := iht h.1.2
    have h3 := ihe h.2
    simp only [render] at h1 h2 h3 ⊢
    simp only [toClimb, Climb.Ast.render, renderSrc, h1, h2, h3]

/-- the full statement at the level of the text: for every well-formed parse tree (with `defined`, with D8 constants), every
    macro table that defines none of its identifiers, every admissible layout — lexer, expander and evaluator give the C
    truth value.  (`PP.condValue` is what the end-to-end models of C01/C04/C08/C10/C17/C18 execute.)
    State: proved outside D8 (`cond_defined_partial`, `Props/C02Defined.lean`, which also lets the operand of `defined` be a
    macro name; `cond_objmacro_partial` adds identifiers that ARE object-like macros, for object-like tables).
    Open: D8 only (`main_refuted`): `text_main_outside_D8_partial` (`Props/C02Defined.lean`) proves the statement for EVERY
    table — function-like macros, `defined` in replacement lists, any size — because an expression none of whose identifiers
    names a macro never makes the expander consult the table except through `defined`.
    (The side condition "no identifier LEAF is spelled `defined`" was added when that theorem was proved: the lone word
    `defined` is not a C expression, the expander rejects it, while the tree `.ident "defined"` has the C value 0 —
    `text_main_needs_no_defined_leaf`.) -/
def text_main : Prop :=
  ∀ (tbl : Table) (a : CExpr.Ast) (v : CExpr.Val) (w : Layout), a.grammatical = true → a.constsOK = true →
    LexSource.lexable a = true → (∀ n ∈ CbiVerif.CondFrag.identLeaves a, n ≠ "defined") →
    (∀ t ∈ renderSrc a, t.kind = .ident → t.text ≠ "defined" → tbl.get t.text = none) →
    cEval (fun n => (tbl.get n).isSome) a = some v → admissible w (renderSrc a) = true →
    condValue tbl (tokenize (layout w (renderSrc a))) = .ok v.truth

/-- **Text-level main theorem (proved part).**  For every parse tree `a` of the C grammar that satisfies the hypotheses of
    `main_partial` (grammatical, legal constants, outside the recorded class D8, a C value `v` in its evaluated positions),
    whose leaves are single lexer tokens and which contains no `defined` operator, and for EVERY admissible white-space layout
    `w` of its source tokens: lexing the TEXT with the lexer model and evaluating the tokens with the evaluator model gives
    the ISO C truth value of `a`.
    Missing for `text_main`: the macro expander between lexer and evaluator (`text_cond_partial` adds it for object-like
    tables and `defined`-free trees; `cond_defined_partial` / `cond_objmacro_partial` in `Props/C02Defined.lean` close the
    `defined` operator — in any position, operand any identifier, macro names included — and identifiers that ARE object-like
    macros); still open: the class D8 (and, for identifiers that are macros, function-like tables). -/
theorem text_main_partial (env : Env) (a : CExpr.Ast) (v : CExpr.Val) (w : Layout)
    (hg : a.grammatical = true) (hc : a.constsOK = true) (hk8 : usesBigUnsuffixed a = false)
    (hv : cEval env a = some v) (hl : LexSource.lexable a = true) (hd : noDefined a = true)
    (hw : admissible w (renderSrc a) = true) :
    cbiEval (tokenize (layout w (renderSrc a))) = .ok v.truth ∧
    evaluatePP (tokenize (layout w (renderSrc a))) = .ok v.truth := by
  have hkey := lexer_reads_layout_tokens (renderSrc a) (LexSource.renderSrc_ok a hl) w hw
  have hm := main_partial env a v hg hc hk8 hv
  rw [render_eq_renderSrc env a hd] at hm
  obtain ⟨h1, _, h3⟩ := evaluator_ignores_flags _ _ hkey
  refine ⟨by rw [h1, hm], ?_⟩
  rw [h3]
  have h4 := (evaluator_ignores_flags_erase (renderSrc a)).1
  simp only [evaluatePP, h4, hm]

/-! ## 4. non-vacuity -/

/-- `-7/2==-3&&(1?2u:0)>-1||!X` written as tightly as the lexer allows, with tabs and several blanks, and with
    one blank everywhere: the three layouts are admissible (also for ISO C), give three different texts, and each text is
    evaluated to the C value of the tree -/
def sampleT : CExpr.Ast :=
  .bin .lor
    (.bin .land
      (.bin .eq (.bin .div (.un .neg (num 7)) (num 2)) (.un .neg (num 3)))
      (.bin .gt (.paren (.tern (num 1) (numU 2) (num 0))) (.un .neg (num 1))))
    (.un .lnot (.ident "X"))

def wLoose : Layout :=
  ⟨['\t'], [[' ', ' '], [], ['\t'], [], [' '], [], [], [' ', '\t', ' '], [], [], [' '], [], [' '], [], [], [], ['\t', '\t'], [], [], [], [' ']]⟩

example : sampleT.grammatical = true ∧ sampleT.constsOK = true ∧ usesBigUnsuffixed sampleT = false ∧
    LexSource.lexable sampleT = true ∧ noDefined sampleT = true ∧ (renderSrc sampleT).length = 21 ∧
    cEval envNone sampleT = some (Val.ofBool true) := by decide +kernel

example : cAdmissible (tight (renderSrc sampleT)) (renderSrc sampleT) = true ∧
    layout (tight (renderSrc sampleT)) (renderSrc sampleT) = "-7/2==-3&&(1?2u:0)>-1||!X" ∧
    cbiEval (tokenize (layout (tight (renderSrc sampleT)) (renderSrc sampleT))) = .ok true := by decide +kernel

example : cAdmissible wLoose (renderSrc sampleT) = true ∧
    layout wLoose (renderSrc sampleT) = "\t-  7/\t2== -3&& \t (1? 2u: 0)>-\t\t1||!X " ∧
    cbiEval (tokenize (layout wLoose (renderSrc sampleT))) = .ok true ∧
    (tokenize (layout wLoose (renderSrc sampleT))).map (·.pw) =
      [true, true, false, true, false, true, false, false, true, false, false, true, false, true, false, false, false, true,
       false, false, false] := by decide +kernel

example : admissible (blanks (renderSrc sampleT).length) (renderSrc sampleT) = true ∧
    layout (blanks (renderSrc sampleT).length) (renderSrc sampleT) =
      " - 7 / 2 == - 3 && ( 1 ? 2u : 0 ) > - 1 || ! X " := by decide +kernel

/-- hypotheses of `lexer_reads_layout` / `lexer_reads_source_layout` for `sampleT` in the loose layout -/
example : (renderSrc sampleT).all LexRT.lexOK = true ∧ admissible wLoose (renderSrc sampleT) = true ∧
    tokenize (layout wLoose (renderSrc sampleT)) = flagged wLoose (renderSrc sampleT) := by decide +kernel

/-- hypotheses of `separable_sound`, `separable_paren`, `separable_op_word`: `2u` directly before `<<`, `~` directly before `'a'` -/
example : LexRT.lexOK (numTok "2u") = true ∧ LexRT.lexOK (opTok "<<") = true ∧ separable (numTok "2u") (opTok "<<") = true ∧
    (tokenize "2u<<").map (fun t => (t.kind, t.text, t.pw)) = [(.num, "2u", false), (.op, "<<", false)] ∧
    LexRT.lexOK (chrTok "a") = true ∧ (opTok "~").kind = .op ∧ separable (opTok "~") (chrTok "a") = true ∧
    separable lpTok (chrTok "\\n") = true ∧ separable (numTok "0x1e") rpTok = true := by decide +kernel
/-- **Witness of an observation about the present code** (not a violation of C02: the text is not a well-formed C
    expression).  As long as `Lexer.operator` has no `--`, the code reads `1--1` as `1 - - 1` and evaluates it to 2 (true); ISO C
    reads `--` (longest match) and rejects the directive.  Hence the tight layout of `1 - -1` is admissible for the code's
    lexer but not `cAdmissible`; with one blank (`1- -1`) it is.  (Stated under the condition on the regenerated list, so that
    adding `--` to `Lexer.operator` — a change towards C — does not break an obligation.) -/
theorem lexer_accepts_pair_C_joins : operators.contains "--" = false →
    (let ts := renderSrc (.bin .sub (num 1) (.un .neg (num 1)))
     admissible (tight ts) ts = true ∧ cAdmissible (tight ts) ts = false ∧ layout (tight ts) ts = "1--1" ∧
     (tokenize "1--1").map (·.text) = ["1", "-", "-", "1"] ∧ cbiEval (tokenize "1--1") = .ok true ∧
     cAdmissible ⟨[], [[], [' '], [], []]⟩ ts = true ∧ layout ⟨[], [[], [' '], [], []]⟩ ts = "1- -1") := by decide +kernel
-- (the condition holds for the list regenerated from the present code: `Gen.lexOperators` has no "--"; it is not restated as an
-- `example`, which would turn the addition of `--` to `Lexer.operator` into a failed obligation)

end CbiVerif.C02
