"""C07 — coverage, average coverage, distance, divergence equal their definitions.

Implementation: codebasin.report.{coverage, average_coverage, distance, divergence, extract_platforms}
Model (Lean):   CbiVerif.Metrics (exact rationals, NaN = null), driver op "metrics"
Independent oracle: the definitions evaluated on an explicit multiset of lines (Python Fractions).
"""
from __future__ import annotations

import itertools
import math
from fractions import Fraction

from harness import core

NAMES = ["A", "B", "C", "D", "E", "F", "G", "H"]
# naming schemes for the random stream: plain letters, names that are substrings / prefixes of each other,
# names with characters that matter to printing ("{", ",", space) and non-ASCII
NAME_POOLS = [
    NAMES,
    ["cpu", "cpu-avx512", "gpu", "gpu-fp64", "a", "ab", "abc", "b"],
    ["x", "xx", "xxx", "x x", "x,y", "{x}", "ü", "X"],
    ["p0", "p1", "p10", "p11", "p2", "p", "0", "1"],
]
TOL = 1e-9


def frac(s):
    if s is None:
        return None
    n, d = s.split("/")
    return Fraction(int(n), int(d))


def close(f, q):
    """float result f vs exact q (None = NaN)"""
    if q is None:
        return isinstance(f, float) and math.isnan(f)
    if not isinstance(f, (int, float)) or (isinstance(f, float) and math.isnan(f)):
        return False
    return abs(Fraction(f) - q) <= Fraction(TOL) * max(1, abs(q))


def fhex(v):
    """bit pattern of a float (all NaNs alike); anything else by repr"""
    return v.hex() if isinstance(v, float) else repr(v)


def same_bits(a, b):
    return fhex(a) == fhex(b)


def same_tol(a, b):
    if isinstance(a, float) and isinstance(b, float):
        return (math.isnan(a) and math.isnan(b)) or abs(a - b) <= TOL * max(1, abs(a))
    return a == b


def range_violations(got):
    """'every metric stays within its documented range', exactly: 0 <= coverage, average coverage <= 100, 0 <= distance,
    divergence <= 1 on the returned floats themselves"""
    bad = []
    for key, hi in (("coverage", 100), ("avg", 100), ("divergence", 1)):
        v = got[key]
        if isinstance(v, float) and not math.isnan(v) and not (0 <= v <= hi):
            bad.append(f"{key} = {v!r} outside [0,{hi}]")
    for i, row in enumerate(got["matrix"]):
        for j, v in enumerate(row):
            if isinstance(v, float) and not math.isnan(v) and not (0 <= v <= 1):
                bad.append(f"distance({got['plats'][i]},{got['plats'][j]}) = {v!r} outside [0,1]")
    return bad


# ---- the property's definitions on line multisets (independent of the code and of the Lean model)
def oracle(sm, ps):
    total = sum(c for _, c in sm)
    allp = sorted(set(p for k, _ in sm for p in k))
    sel = list(ps) if ps else allp
    out = {}
    used = sum(c for k, c in sm if any(p in sel for p in k))
    out["coverage"] = None if total == 0 else Fraction(100 * used, total)
    if not sel or total == 0:
        out["avg"] = None
    else:
        out["avg"] = sum(Fraction(100 * sum(c for k, c in sm if p in k), total) for p in sel) / len(sel)

    def dist(p, q):
        u = sum(c for k, c in sm if p in k or q in k)
        i = sum(c for k, c in sm if p in k and q in k)
        return None if u == 0 else 1 - Fraction(i, u)

    out["matrix"] = [[dist(p, q) for q in allp] for p in allp]
    pairs = list(itertools.combinations(allp, 2))
    ds = [dist(p, q) for p, q in pairs]
    out["divergence"] = None if not pairs or any(d is None for d in ds) else sum(ds) / len(pairs)
    out["plats"] = allp
    return out


def impl(report, sm, ps):
    setmap = {}
    for k, c in sm:
        setmap[frozenset(k)] = setmap.get(frozenset(k), 0) + c
    allp = sorted(report.extract_platforms(setmap))
    out = {"plats": allp}

    def call(f, *a):
        try:
            return f(*a)
        except Exception as e:  # noqa
            return f"EXC:{type(e).__name__}"

    out["coverage"] = call(report.coverage, setmap, set(ps) if ps else None)
    out["avg"] = call(report.average_coverage, setmap, set(ps) if ps else None)
    out["divergence"] = call(report.divergence, setmap)
    out["matrix"] = [[call(report.distance, setmap, p, q) for q in allp] for p in allp]
    return out, setmap


def check_case(ctx, drv, report, sm, ps, origin):
    case = {"setmap": [[list(k), c] for k, c in sm], "platforms": list(ps), "origin": origin}
    got, setmap = impl(report, sm, ps)
    want = oracle(sm, ps)
    total = sum(c for _, c in sm)
    nplat = len(want["plats"])
    ctx.count(key=f"platforms={nplat}", nontrivial_key=None)
    ctx.dist["nan_cov" if want["coverage"] is None else "def_cov"] += 1
    ctx.dist["nan_div" if want["divergence"] is None else "def_div"] += 1
    if total > 0 and nplat >= 2 and want["divergence"] not in (None, 0) and want["coverage"] not in (None, 0, 100):
        ctx.nontrivial.add(repr(sorted((tuple(sorted(k)), c) for k, c in setmap.items())) + repr(sorted(ps)))
    ctx.sample(case)
    # --- implementation vs the property's definitions
    bad = []
    if got["plats"] != want["plats"]:
        bad.append(f"extract_platforms {got['plats']} != {want['plats']}")
    for key in ("coverage", "avg", "divergence"):
        if not close(got[key], want[key]):
            bad.append(f"{key}: implementation {got[key]!r}, definition {want[key]}")
    if got["plats"] == want["plats"]:
        for i, p in enumerate(want["plats"]):
            for j, q in enumerate(want["plats"]):
                g, w = got["matrix"][i][j], want["matrix"][i][j]
                if not close(g, w):
                    bad.append(f"distance({p},{q}): implementation {g!r}, definition {w}")
                # symmetric, zero on the diagonal, range
                g2 = got["matrix"][j][i]
                if isinstance(g, float) and isinstance(g2, float) and not (g == g2 or (math.isnan(g) and math.isnan(g2))):
                    bad.append(f"distance not symmetric for ({p},{q}): {g} vs {g2}")
                if i == j and isinstance(g, float) and not math.isnan(g) and g != 0:
                    bad.append(f"distance({p},{p}) = {g} != 0")
    # documented ranges, EXACTLY (no tolerance): a percentage is never above 100, a distance never above 1 - the code's
    # operation order ((used / total) * 100.0, different / total, sums of such terms divided by their number) guarantees it
    bad += range_violations(got)
    if bad:
        ctx.violation("; ".join(bad[:4]), case)
    # documented NaN for "no platforms" in coverage(): recorded reading difference
    if total > 0 and nplat == 0 and isinstance(got["coverage"], float) and not math.isnan(got["coverage"]):
        ctx.classify(case, "coverage() of a setmap without platforms is not NaN",
                     [("F-C07-1", lambda c: True)])
    # --- model vs implementation (correspondence)
    if drv is not None:
        m = drv.ask({"op": "metrics", "setmap": case["setmap"], "platforms": case["platforms"]})
        mm = {"coverage": frac(m["coverage"]), "avg": frac(m["avg"]), "divergence": frac(m["divergence"])}
        diffs = [k for k in mm if not close(got[k], mm[k])]
        if m["plats"] != got["plats"]:
            diffs.append("plats")
        else:
            for i in range(len(m["plats"])):
                for j in range(len(m["plats"])):
                    if not close(got["matrix"][i][j], frac(m["matrix"][i][j])):
                        diffs.append(f"distance[{i}][{j}]")
        if diffs:
            ctx.corr_break("metrics", case, {k: repr(got[k]) for k in ("coverage", "avg", "divergence", "matrix")}, m)
        # model vs definitions: a disagreement here means the model itself left the spec
        md = [k for k in mm if mm[k] != want[k]]
        if md:
            ctx.notes.append(f"model != definition on {case} for {md}")


def history(ctx, report, sm, rng):
    """The metrics are functions of the table: a query must not change the table, and the answer must not
    depend on which queries were made before on the same dict object."""
    import collections as _c

    def build():
        d = _c.defaultdict(int) if rng.random() < 0.5 else {}
        for k, c in sm:
            d[frozenset(k)] = d.get(frozenset(k), 0) + c
        return d

    fresh = build()
    plats = sorted(set(p for k in fresh for p in k))
    queries = [("coverage", lambda d: report.coverage(d)), ("average_coverage", lambda d: report.average_coverage(d)),
               ("divergence", lambda d: report.divergence(d)), ("extract_platforms", lambda d: sorted(report.extract_platforms(d)))]
    if len(plats) >= 2:
        a, b = plats[0], plats[-1]
        queries.append((f"distance({a},{b})", lambda d: report.distance(d, a, b)))
    if rng.random() < 0.3:
        import io
        queries.append(("summary", lambda d: (report.summary(d, io.StringIO()), None)[1]))

    def same(x, y):
        if isinstance(x, float) and isinstance(y, float):
            return (math.isnan(x) and math.isnan(y)) or x == y
        return x == y

    try:
        base = {name: q(build()) for name, q in queries}  # each on a fresh table
        shared = build()
        snapshot = dict(shared)
        order = queries[:]
        rng.shuffle(order)
        order = order + order[:2]
        for name, q in order:
            got = q(shared)
            ctx.count(key="history")
            if not same(got, base[name]):
                ctx.violation(f"{name} answers {got!r} after earlier queries on the same table but {base[name]!r} on a fresh one",
                              {"setmap": [[list(k), c] for k, c in sm], "queries": [n for n, _ in order]})
                return
            if dict(shared) != snapshot:
                ctx.violation(f"query {name} modified the caller's table",
                              {"setmap": [[list(k), c] for k, c in sm], "queries": [n for n, _ in order]})
                return
    except Exception as e:  # noqa
        if sum(c for _, c in sm) > 0:
            ctx.violation(f"query sequence raises {type(e).__name__}: {e}", {"setmap": [[list(k), c] for k, c in sm]})


def metamorphic(ctx, report, sm, rng):
    """rename / reorder / scale invariance on the implementation itself.  'Unchanged' is taken literally (same bit pattern)
    wherever the order of the float operations does not depend on the transformation; the exceptions are listed in
    INEXACT below and stay at the tolerance."""
    setmap = {}
    for k, c in sm:
        setmap[frozenset(k)] = setmap.get(frozenset(k), 0) + c
    allp = sorted(set(p for k in setmap for p in k))
    total = sum(setmap.values())

    def metrics(smap, ren=lambda x: x):
        try:
            plats = sorted(report.extract_platforms(smap))
            return (
                report.coverage(smap), report.average_coverage(smap), report.divergence(smap),
                {(p, q): report.distance(smap, p, q) for p in plats for q in plats},
            )
        except Exception as e:  # noqa
            return f"EXC:{type(e).__name__}"

    base = metrics(setmap)
    if isinstance(base, str):
        return
    # reorder entries
    items = list(setmap.items())
    rng.shuffle(items)
    m2 = metrics(dict(items))
    # scale
    k = rng.choice([2, 3, 7, 1000])
    m3 = metrics({s: c * k for s, c in setmap.items()})
    # rename (injective)
    perm = allp[:]
    rng.shuffle(perm)
    ren = {p: "z" + q for p, q in zip(allp, perm)}
    m4 = metrics({frozenset(ren[p] for p in s): c for s, c in setmap.items()})
    for label, mx, tr in (("reordering entries", m2, {"t": "reorder"}), ("scaling counts by %d" % k, m3, {"t": "scale", "k": k}),
                          ("renaming platforms", m4, {"t": "rename", "ren": ren})):
        ctx.count(key="metamorphic:" + label.split()[0])
        if isinstance(mx, str):
            ctx.violation(f"{label} raises {mx}", {"setmap": [[sorted(s), c] for s, c in setmap.items()], "transform": label})
            continue
        exact = exact_keys(allp, total, tr)
        ctx.dist["metamorphic:bitwise-metrics"] += len(exact)
        cmp = {key: (same_bits if key in exact else same_tol) for key in ("coverage", "avg", "divergence", "distance")}
        bad = [f"{key}: {a!r} -> {b!r}" for key, a, b in zip(("coverage", "avg", "divergence"), base[:3], mx[:3]) if not cmp[key](a, b)]
        for (p, q), a in base[3].items():
            b = mx[3][(ren[p], ren[q])] if label.startswith("renaming") else mx[3][(p, q)]
            if not cmp["distance"](a, b):
                bad.append(f"distance({p},{q}): {a!r} -> {b!r}")
        if bad:
            ctx.violation(f"metrics change under {label}: " + "; ".join(bad[:3]),
                          {"setmap": [[sorted(s), c] for s, c in setmap.items()], "platforms": [], "origin": "metamorphic",
                           "exact": ({"t": "reorder", "order": [list(setmap).index(s) for s, _ in items]} if tr["t"] == "reorder" else tr)})


# ---- exact (bit-for-bit) reading of "stays within its documented range" and "unchanged by renaming, reordering, scaling"
# Why the unchanged code is exact (checked on > 10^5 tables before these comparisons were made strict):
#   coverage   = (used / total) * 100.0 : int / int is the correctly rounded quotient, a function of the rational used/total
#                alone (<= 1, so the product is <= 100.0); the sums are integer sums.
#   average    = sum of those floats in sorted platform order / their number: the same floats in the same order under
#                scaling, reordering of rows and order-preserving renaming; each term <= 100 so the sum is <= 100 n.
#   distance   = different / float(total): correctly rounded quotient of two exactly converted integers while every count
#                is below 2^53; <= 1.
#   divergence = distances added in sorted pair order / number of pairs.
# INEXACT (kept at the tolerance, measured on the unchanged code):
#   * a renaming that changes the sorted order of the platforms changes the order in which average coverage and
#     divergence add their terms (divergence differs in the last bit on ~24 % of random tables; average coverage did not
#     differ in 6*10^4 tables only because the interpreter's sum() is a compensated sum);
#   * scaling beyond 2^53 lines: distance() converts both integers to float first (distance / divergence differ in the
#     last bit on ~60 % / ~14 % of such tables); coverage and average coverage use int / int and stay exact.
def exact_keys(allp, total, tr):
    if tr["t"] == "reorder":
        return {"coverage", "avg", "divergence", "distance"}
    if tr["t"] == "scale":
        return {"coverage", "avg", "divergence", "distance"} if total * tr["k"] <= 2 ** 53 else {"coverage", "avg"}
    ren = tr["ren"]
    mono = [ren[p] for p in allp] == sorted(ren[p] for p in allp)
    return {"coverage", "avg", "divergence", "distance"} if mono else {"coverage", "distance"}


def merged_rows(sm):
    d = {}
    for k, c in sm:
        d[frozenset(k)] = d.get(frozenset(k), 0) + c
    return [(sorted(k), c) for k, c in d.items()]


def transform(rows, ps, tr):
    if tr["t"] == "scale":
        return [(k, c * tr["k"]) for k, c in rows], list(ps)
    if tr["t"] == "reorder":
        return [rows[i] for i in tr["order"]], list(reversed(ps))
    ren = tr["ren"]
    return [([ren[p] for p in k], c) for k, c in rows], [ren[p] for p in ps]


def describe(tr):
    return {"scale": lambda: "multiplying all counts by %d" % tr["k"], "reorder": lambda: "reordering the rows",
            "rename": lambda: "renaming the platforms"}[tr["t"]]()


def exact_case(ctx, report, sm, ps, tr, origin, detail=None):
    """One table (rows merged), one platforms argument, one transformation: the four metrics of the transformed table
    are the same floats (bit patterns) as those of the table - tolerance only for the metrics outside exact_keys."""
    rows = merged_rows(sm)
    allp = sorted(set(p for k, _ in rows for p in k))
    total = sum(c for _, c in rows)
    case = {"setmap": [[list(k), c] for k, c in rows], "platforms": list(ps), "origin": origin, "exact": tr}
    rows2, ps2 = transform(rows, ps, tr)
    base, _ = impl(report, rows, ps)
    other, _ = impl(report, rows2, ps2)
    exact = exact_keys(allp, total, tr)
    ctx.count(key=f"exact:{tr['t']}" + ("" if len(exact) == 4 else ":partly-tolerance"))
    cmp = {key: (same_bits if key in exact else same_tol) for key in ("coverage", "avg", "divergence", "distance")}
    ren = tr.get("ren") or {p: p for p in allp}
    bad = range_violations(other)
    what = describe(tr)
    if other["plats"] != sorted(ren[p] for p in base["plats"]):
        bad.append(f"platforms {base['plats']} become {other['plats']} after {what}")
    else:
        for key in ("coverage", "avg", "divergence"):
            a, b = base[key], other[key]
            if not cmp[key](a, b):
                bad.append(f"{key} is {a!r} ({fhex(a)}) on the table but {b!r} ({fhex(b)}) after {what}")
        idx = {q: j for j, q in enumerate(other["plats"])}
        for i, p in enumerate(base["plats"]):
            for j, q in enumerate(base["plats"]):
                a, b = base["matrix"][i][j], other["matrix"][idx[ren[p]]][idx[ren[q]]]
                if not cmp["distance"](a, b):
                    bad.append(f"distance({p},{q}) is {a!r} ({fhex(a)}) on the table but {b!r} ({fhex(b)}) after {what}")
    if detail is not None:
        detail.update({"table": base, "transformed": other, "compared_bit_for_bit": sorted(exact)})
    if bad:
        ctx.violation("; ".join(bad[:3]) + " - the property says every metric is unchanged and within its range", case)


def compositions(rng, total, parts):
    """`parts` positive integers adding up to `total`"""
    cuts = sorted(rng.sample(range(1, total), parts - 1))
    return [b - a for a, b in zip([0] + cuts, cuts + [total])]


def sweep_tables(rng, total, nrand):
    """tables whose counts add up to exactly `total` lines: tables in which every line is used by every (selected)
    platform - coverage and average coverage are exactly 100 there - and random splits of the total"""
    pool = rng.choice(NAME_POOLS)
    for n in (1, 2, 3):
        ns = sorted(rng.sample(pool, n))
        yield "full", [(ns, total)], []
        yield "full", [(ns, total)], [rng.choice(ns)]
    if total >= 2:
        a, b, c = rng.sample(pool, 3)
        x, y = compositions(rng, total, 2)
        yield "full-selected", [([a, b], x), ([a], y)], [a]
        yield "full-selected", [([a, b], x), ([a, b, c], y)], rng.choice([[], [a, b], [b]])
        if total >= 3:
            x, y, z = compositions(rng, total, 3)
            yield "full", [([a, b], x), ([b, a, c], y), ([c, b, a], z)], rng.choice([[], [a], [a, b]])
    for _ in range(nrand):
        ns = rng.sample(pool, rng.randint(1, 5))
        counts = compositions(rng, total, rng.randint(1, min(6, total)))
        if rng.random() < 0.3:
            counts.append(0)
        dens = rng.choice([0.3, 0.6, 0.9])
        rows = [([p for p in ns if rng.random() < dens], cnt) for cnt in counts]
        plats = sorted(set(p for k, _ in rows for p in k))
        ps = [p for p in plats if rng.random() < 0.5] if rng.random() < 0.6 else []
        yield "split", rows, ps


def sweep_transforms(rng, rows, allp):
    for k in rng.sample([2, 3, 5, 7, 10, 12, 100, 1000], 2) + [rng.randint(2, 10 ** 4)]:
        yield {"t": "scale", "k": k}
    if len(rows) >= 2:
        order = list(range(len(rows)))
        rng.shuffle(order)
        yield {"t": "reorder", "order": order}
    if allp:
        # order preserving (prefix, or rank numbers of another shape) and arbitrary
        yield {"t": "rename", "ren": ({p: "z" + p for p in allp} if rng.random() < 0.5 else {p: "q%02d" % i for i, p in enumerate(allp)})}
        perm = allp[:]
        rng.shuffle(perm)
        yield {"t": "rename", "ren": {p: "r-" + q for p, q in zip(allp, perm)}}


def total_sweep(ctx, drv, report):
    """every total 1..N: whether a float formula keeps a percentage <= 100 and scale invariant depends on the particular
    total (a reciprocal 100.0 / total is inexact for most totals), so all small totals are visited, not a random few"""
    top = ctx.n(200, 1500)
    for total in range(1, top + 1):
        for shape, sm, ps in sweep_tables(ctx.rng, total, 4 if total <= 200 else 2):
            ctx.dist[f"total-sweep:{shape}"] += 1
            check_case(ctx, drv if total <= 200 else None, report, sm, ps, f"total-sweep:{shape}")
            rows = merged_rows(sm)
            allp = sorted(set(p for k, _ in rows for p in k))
            for tr in sweep_transforms(ctx.rng, rows, allp):
                exact_case(ctx, report, sm, ps, tr, f"total-sweep:{shape}")


def clustering_case(ctx, report, sm, scratch):
    """the distance matrix printed by the clustering report: cell (p, q) is the Jaccard distance of p and q to two decimals"""
    import io

    setmap = {}
    for k, c in sm:
        setmap[frozenset(k)] = setmap.get(frozenset(k), 0) + c
    want = oracle(sm, [])
    plats = want["plats"]
    if len(plats) < 2 or any(d is None for row in want["matrix"] for d in row):
        return
    case = {"setmap": [[list(k), c] for k, c in sm], "origin": "clustering-report", "report": "clustering"}
    buf = io.StringIO()
    try:
        report.clustering(str(scratch / "dendrogram.png"), setmap, stream=buf)
    except Exception as e:  # noqa
        ctx.violation(f"clustering report raises {type(e).__name__}: {e}", case)
        return
    finally:
        try:
            from matplotlib import pyplot as _plt
            _plt.close("all")   # the report leaves its figure open; the harness makes hundreds of them
        except Exception:  # noqa
            pass
    ctx.count(key=f"clustering-report:platforms={len(plats)}")
    rows = [[c.strip() for c in ln.strip().strip("│").split("│")] for ln in buf.getvalue().splitlines() if ln.strip().startswith("│")]
    header = rows[0][1:] if rows else []
    if not rows or sorted(header) != sorted(plats) or [r[0] for r in rows[1:]] != header:
        ctx.corr_break("clustering-report layout", case, rows[:2], {"header": plats})
        return
    # the cell in the row labelled p and the column labelled q is the distance of p and q, whatever order the labels are in
    idx = {p: k for k, p in enumerate(plats)}
    bad = []
    for i, p in enumerate(header):
        for j, q in enumerate(header):
            w = want["matrix"][idx[p]][idx[q]]
            try:
                cell = Fraction(rows[1 + i][1 + j])
            except (ValueError, IndexError):
                bad.append(f"cell ({p},{q}) is {rows[1 + i][1 + j:2 + j]}")
                continue
            if abs(cell - w) > Fraction(5, 1000) + Fraction(TOL):
                bad.append(f"printed distance({p},{q}) = {rows[1 + i][1 + j]}, the Jaccard distance of their line sets is {w} = {float(w):.4f}")
    if bad:
        ctx.violation("clustering report: " + "; ".join(bad[:3]), case)


def summary_case(ctx, report, sm):
    """the metric lines printed by the summary report equal the definitions (two decimals)"""
    import io
    import re

    setmap = {}
    for k, c in sm:
        setmap[frozenset(k)] = setmap.get(frozenset(k), 0) + c
    if sum(setmap.values()) == 0:
        return
    want = oracle(sm, [])
    case = {"setmap": [[list(k), c] for k, c in sm], "origin": "summary-report", "report": "summary"}
    buf = io.StringIO()
    try:
        report.summary(setmap, buf)
    except Exception as e:  # noqa
        ctx.violation(f"summary report raises {type(e).__name__}: {e}", case)
        return
    ctx.count(key="summary-report" + ("" if any(not k for k in setmap) else ":no-unused-row"))
    text = buf.getvalue()
    bad = []
    for label, key in (("Code Divergence", "divergence"), ("Coverage (%)", "coverage"), ("Avg. Coverage (%)", "avg")):
        m = re.search(r"^" + re.escape(label) + r": (\S+)$", text, re.M)
        if not m:
            ctx.corr_break("summary-report layout", case, text[-300:], label)
            return
        w = want[key]
        if w is None:
            if m.group(1) != "nan":
                bad.append(f"{label}: printed {m.group(1)}, the definition is undefined (NaN)")
        else:
            try:
                ok = abs(Fraction(m.group(1)) - w) <= Fraction(5, 1000) + Fraction(TOL)
            except ValueError:
                ok = False
            if not ok:
                bad.append(f"{label}: printed {m.group(1)}, the definition gives {w} = {float(w):.4f}")
    m = re.search(r"^Total SLOC: (\d+)$", text, re.M)
    if not m or int(m.group(1)) != sum(setmap.values()):
        bad.append(f"Total SLOC: printed {m.group(1) if m else None}, the table holds {sum(setmap.values())} lines")
    if bad:
        ctx.violation("summary report: " + "; ".join(bad[:3]), case)


def tables_exhaustive(nplat, counts):
    names = NAMES[:nplat]
    subsets = [tuple(s) for r in range(nplat + 1) for s in itertools.combinations(names, r)]
    for combo in itertools.product([None] + counts, repeat=len(subsets)):
        yield [(list(s), c) for s, c in zip(subsets, combo) if c is not None]


def random_table(rng):
    nplat = rng.randint(0, 8)
    pool = rng.choice(NAME_POOLS)
    names = rng.sample(pool, nplat)
    n = rng.randint(0, 12)
    sm = []
    for _ in range(n):
        k = [p for p in names if rng.random() < rng.choice([0.2, 0.5, 0.8])]
        c = rng.choice([0, 1, 2, 3, 5, 10, 999, 10 ** 6, 10 ** 12, rng.randint(0, 10 ** 12)])
        sm.append((k, c))
    return sm


def subsets_of(plats, rng, limit):
    subs = [list(s) for r in range(len(plats) + 1) for s in itertools.combinations(plats, r)]
    if len(subs) > limit:
        subs = [[]] + rng.sample(subs, limit - 1)
    return subs


def run(ctx, drv):
    cb = core.import_codebasin()
    from codebasin import report

    ctx.rule = ("tables = lists of (platform set, count); exhaustive over <=2 platforms with counts {absent,0,1,2,5} "
                "(quick) / <=3 platforms with counts {absent,0,1,5} (thorough) x every platforms-argument subset; "
                "random tables up to 8 platforms, counts up to 1e12. Non-trivial = distinct (table, platforms argument) "
                "with >= 2 platforms, divergence defined and non-zero, coverage strictly between 0 and 100.  Clustering report: 40 (quick) / 400 "
                "(thorough) tables over 2-7 platforms (plain letters, or names such as p2 / p10 / node2 / node10 whose natural and lexicographic "
                "orders differ); every printed cell is compared, by its row and column labels, with the exact Jaccard distance.  "
                "Total sweep: for EVERY total 1..200 (quick) / 1..1500 (thorough) tables with exactly that many lines - every line used "
                "by every (selected) platform, and random splits over 1-5 platforms - each checked against the definitions, "
                "against the exact ranges 0 <= x <= 100 / 0 <= d <= 1 and, bit for bit, against itself with all counts multiplied by a "
                "common factor (2 fixed + 1 random factor), rows reordered, platforms renamed (order preserving and arbitrary).")
    ctx.assumptions += [
        "float VALUE accepted when within 1e-9 relative of the exact rational (IEEE rounding is not modelled); the RANGES are "
        "checked exactly (0 <= coverage, average coverage <= 100, 0 <= distance, divergence <= 1) and 'unchanged by renaming / "
        "reordering / scaling' bit for bit, except: average coverage and divergence under a renaming that changes the sorted "
        "order of the platforms (other summation order), distance and divergence when scaling takes the table beyond 2^53 lines "
        "(distance() converts to float before dividing) - these stay at 1e-9",
        "reading of 'NaN exactly when undefined': coverage NaN iff no lines; average coverage NaN iff no lines or no platforms; "
        "distance NaN iff neither platform has a line; divergence NaN iff < 2 platforms or some pair has no line",
    ]
    # corpus first
    import json
    for f in sorted((core.VERIF / "corpus" / "C07").glob("*.json")):
        c = json.loads(f.read_text())
        check_case(ctx, drv, report, [(k, n) for k, n in c["setmap"]], c.get("platforms", []), "corpus:" + f.name)
    # exhaustive
    for nplat, counts in ([(1, [0, 1, 2, 5]), (2, [0, 1, 2, 5])] + ([(3, [0, 1, 5])] if ctx.thorough() or ctx.budget_scale > 1 else [])):
        for sm in tables_exhaustive(nplat, counts):
            plats = sorted(set(p for k, _ in sm for p in k))
            for ps in subsets_of(plats, ctx.rng, 8 if nplat < 3 else 3):
                check_case(ctx, drv, report, sm, ps, f"exhaustive{nplat}")
    ctx.exhaustive = True
    # random
    for i in range(ctx.n(4000, 30000)):
        sm = random_table(ctx.rng)
        plats = sorted(set(p for k, _ in sm for p in k))
        ps = [p for p in plats if ctx.rng.random() < 0.5] if ctx.rng.random() < 0.7 else []
        check_case(ctx, drv, report, sm, ps, "random")
        if i % 3 == 0:
            metamorphic(ctx, report, sm, ctx.rng)
        if i % 4 == 1:
            history(ctx, report, sm, ctx.rng)
        if i % 3 == 2:
            summary_case(ctx, report, sm if ctx.rng.random() < 0.5 else [(k, c) for k, c in sm if k])
    # the clustering report's printed distance matrix (2-7 platforms, distinct pair distances)
    with core.Scratch() as scratch:
        for i in range(ctx.n(40, 400)):
            # plain letters, or names whose natural and lexicographic orders differ (p2 / p10): labels and cells must agree
            # … or hyphenated names whose concatenations collide ("cpu" + "omp-gpu" vs "cpu-omp" + "gpu")
            pool = ctx.rng.choice([NAMES, NAMES, ["p0", "p1", "p10", "p11", "p2", "p9", "node2", "node10"],
                                   ["cpu", "cpu-omp", "gpu", "omp-gpu", "omp", "cpu-omp-gpu", "a", "a-a"]])
            names = sorted(ctx.rng.sample(pool, ctx.rng.choice([2, 3, 4, 4, 5, 5, 6, 7])))
            sm = [([p], ctx.rng.randint(1, 9)) for p in names]
            for _ in range(ctx.rng.randint(2, 10)):
                sm.append(([p for p in names if ctx.rng.random() < 0.5], ctx.rng.choice([0, 1, 2, 3, 5, 10, 40])))
            clustering_case(ctx, report, sm, scratch)
    # every small total, last: the draws of the older streams stay what they were for a given VERIF_SEED
    total_sweep(ctx, drv, report)


def search(ctx, drv):
    run(ctx, drv)


def replay(ctx, drv, case):
    core.import_codebasin()
    from codebasin import report

    sm = [(k, n) for k, n in case["setmap"]]
    if case.get("report") == "summary":
        c2 = core.Ctx(ctx.prop, "quick", 0)
        summary_case(c2, report, sm)
        return {"violations": [w for w, _ in c2.violations], "definition": {k: str(v) for k, v in oracle(sm, []).items() if k != "matrix"}}
    if case.get("report") == "clustering":
        c2 = core.Ctx(ctx.prop, "quick", 0)
        with core.Scratch() as scratch:
            clustering_case(c2, report, sm, scratch)
        return {"violations": [w for w, _ in c2.violations], "definition": oracle(sm, [])}
    if case.get("exact"):
        c2 = core.Ctx(ctx.prop, "quick", 0)
        detail = {}
        exact_case(c2, report, sm, case.get("platforms", []), case["exact"], case.get("origin", "replay"), detail)
        hexed = {k: ({m: (fhex(v) if m != "matrix" else [[fhex(x) for x in r] for r in v]) for m, v in d.items() if m != "plats"}
                     if isinstance(d, dict) else d) for k, d in detail.items()}
        return {"violations": [w for w, _ in c2.violations], "transformation": describe(case["exact"]), **detail, "bit_patterns": hexed,
                "definition": oracle(sm, case.get("platforms", []))}
    got, _ = impl(report, sm, case.get("platforms", []))
    out = {"implementation": got, "definition": oracle(sm, case.get("platforms", [])), "outside_documented_range": range_violations(got)}
    if drv is not None:
        out["model"] = drv.ask({"op": "metrics", "setmap": case["setmap"], "platforms": case.get("platforms", [])})
    return out
