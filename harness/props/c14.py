"""C14 — results are deterministic and independent of enumeration order.

Runtime part of the check (the Lean theorems of `CbiVerif/Props/C14.lean` cover the modelled
pipeline for ALL orders; here the real code is run under many concrete orders):

  A. CLI stream      — `codebasin`, `codebasin.tree`, `codebasin.coverage compute` in fresh interpreter
                       processes under different PYTHONHASHSEED values, with the files created in
                       different orders, `os.scandir`/`os.listdir` shuffled by a `sitecustomize` shim
                       (placed in a scratch directory of the harness, no change to the repo) and the
                       `[platform.*]` tables permuted.  Compared byte-for-byte.  The code bases carry the shapes of
                       `harness/gen/ordershapes.py` (unguarded conditional include files under multi-pass compilers,
                       macro-indirection conditionals with per-platform inner values, incomplete databases next to
                       same-named headers): inputs on which one shared file is visited several times, so that a
                       visit-order dependence has something to act on.
  B. table stream    — `report.summary/divergence/distance/coverage/average_coverage` in process on the
                       same setmap with shuffled dict insertion orders and shuffled frozenset
                       construction; compared bit-for-bit, and against the Lean model (driver).
  C. analysis stream — `finder.find` + `get_setmap` in process with permuted platform order and a
                       shuffling `os.scandir`; attribution / setmap compared, and the Lean model's
                       `getSetmap` (insertion order included) against the real `get_setmap`.
  D. modes stream    — user-defined compiler modes (`.cbi/config`) activated in random command-line order with
                       repeats, several hash seeds; parse_args' defines against the Lean model.
  E. hash-seed stream — the table stream's values (`float.hex`) and summary text computed in fresh interpreters under
                       different PYTHONHASHSEED values (set iteration order of the platform names changes).
  F. textperm stream — (`c14_text.py`) text-level code bases of the C06 `txt` generator presented with the files, the
                       `[platform.*]` tables and the database entries rearranged (entries also repeated), analysed in process
                       and in fresh interpreters under several hash seeds; all observations identical, and equal to the
                       composed Lean model `C14C.canonOf (C06C.analyse ..)` the theorems of `Props/C14Compose.lean` are about.

Reading of the property fixed here: every result the statement lists (platform-set table, metrics,
distance matrix, per-line attribution, coverage export, duplicate groups) is compared byte-for-byte /
bit-for-bit — including the Duplicates section and coverage.json, whose order was repaired (D28, D29).
The order of sibling rows in the cbi-tree *view* is not a listed result: cbi-tree is compared as data
(legend and platform letters byte-for-byte; rows keyed by path with identical figures; sibling order free).
"""
from __future__ import annotations

import concurrent.futures as cf
import io
import itertools
import json
import math
import os
import random
import re
import struct
from fractions import Fraction
from pathlib import Path

from harness import core
from harness.gen import codebase as cbgen
from harness.props import c14_text as CT
from harness.gen import ordershapes

SHIM = r'''
# interposed by the CBI verification harness (C14): shuffles directory enumeration
import os as _os, random as _random
_seed = _os.environ.get("CBI_VERIF_SCANDIR_SHUFFLE")
if _seed is not None:
    _orig_scandir = _os.scandir
    _orig_listdir = _os.listdir

    class _ScandirIt:
        def __init__(self, entries):
            self._it = iter(entries)
        def __iter__(self):
            return self
        def __next__(self):
            return next(self._it)
        def __enter__(self):
            return self
        def __exit__(self, *a):
            return False
        def close(self):
            pass

    def _key(path):
        try:
            return _seed + "|" + _os.fsdecode(_os.fspath(path))
        except TypeError:
            return _seed + "|fd"

    def scandir(path="."):
        with _orig_scandir(path) as it:
            entries = list(it)
        entries.sort(key=lambda e: _os.fsdecode(e.name))
        _random.Random(_key(path)).shuffle(entries)
        return _ScandirIt(entries)

    def listdir(path="."):
        names = _orig_listdir(path)
        try:
            names.sort()
        except TypeError:
            pass
        _random.Random(_key(path)).shuffle(names)
        return names

    _os.scandir = scandir
    _os.listdir = listdir
'''

NAMES = ["A", "B", "C", "D", "E", "F", "G", "H"]
ROOT_TOKEN = "<ROOT>"


# --------------------------------------------------------------------------
# A. CLI stream
# --------------------------------------------------------------------------
def make_variant(rng, desc, k):
    """one schedule: hash seed, scandir shuffle, platform order, file creation order"""
    plats = list(desc["platforms"])
    files = list(desc["texts"])
    if k == 0:
        return {"k": 0, "hashseed": 0, "scandir": None, "platform_order": plats, "file_order": files}
    po = plats[:]
    rng.shuffle(po)
    fo = files[:]
    rng.shuffle(fo)
    return {"k": k, "hashseed": rng.randrange(1, 2 ** 32 - 1), "scandir": rng.randrange(1, 10 ** 9),
            "platform_order": po, "file_order": fo}


def env_for(shimdir, v):
    ee = {"PYTHONPATH": f"{shimdir}{os.pathsep}{core.REPO}", "PYTHONHASHSEED": str(v["hashseed"]),
          "PYTHONWARNINGS": "ignore"}
    if v.get("scandir") is not None:
        ee["CBI_VERIF_SCANDIR_SHUFFLE"] = str(v["scandir"])
    return ee


def run_variant(base, desc, v, shimdir, extra_files=None, reports=None):
    """create the code base for schedule v under base/v<k>/cb and run the three front ends"""
    root = Path(base) / f"v{v['k']:03d}" / "cb"
    root.mkdir(parents=True)
    root = root.resolve()
    cbgen.write_codebase(root, desc, platform_order=v["platform_order"], file_order=v["file_order"])
    for rel, text in (extra_files or {}).items():
        p = root / rel
        p.parent.mkdir(parents=True, exist_ok=True)
        p.write_text(text)
    for ln, tg in desc.get("hardlinks", []):
        (root / ln).parent.mkdir(parents=True, exist_ok=True)
        os.link(root / tg, root / ln)
    ee = env_for(shimdir, v)
    out = {}
    args = []
    for r in reports or []:
        args += ["-R", r]
    rc, so, se = core.run_cli("codebasin", args + ["analysis.toml"], cwd=root, env_extra=ee)
    out["main"] = (rc, so.replace(str(root), ROOT_TOKEN), se[-400:] if rc else "")
    if reports is None:
        rc, so, se = core.run_cli("codebasin.tree", ["analysis.toml"], cwd=root, env_extra=ee)
        out["tree"] = (rc, so.replace(str(root), ROOT_TOKEN), se[-400:] if rc else "")
        db = next((p for p in sorted(desc["platforms"]) if desc["platforms"][p]), None)
        if db is not None:
            rc, so, se = core.run_cli("codebasin.coverage", ["compute", "-S", str(root), "-o", "coverage.json", f"{db}.json"],
                                      cwd=root, env_extra=ee)
            cov = (root / "coverage.json").read_text() if rc == 0 and (root / "coverage.json").exists() else None
            out["cov"] = (rc, cov, se[-400:] if rc else "")
    return out


SECTION_PATTERNS = [
    ("summary_table", r"\nSummary\n=======\n(.*?)\nCode Divergence:"),
    ("metric_lines", r"\n(Code Divergence: [^\n]*\nCoverage \(%\): [^\n]*\nAvg\. Coverage \(%\): [^\n]*\nTotal SLOC: [^\n]*)"),
    ("distance_matrix", r"\nDistance Matrix:\n(.*?)\n\nDendrogram written to"),
    ("duplicates", r"\nDuplicates\n==========\n(.*)$"),
]


def sections(stdout):
    out = {}
    for name, pat in SECTION_PATTERNS:
        m = re.search(pat, stdout, re.S)
        out[name] = m.group(1) if m else None
    m = re.search(r"Dendrogram written to (\S+)", stdout)
    out["dendrogram_name"] = m.group(1) if m else None
    m = re.search(r"^(.*?)\nSummary\n=======\n", stdout, re.S)
    out["preamble"] = m.group(1) if m else None
    return out


def parse_duplicates(text):
    """Duplicates section -> list of groups (lists of path strings) or None"""
    if text is None:
        return None
    groups = []
    for line in text.splitlines():
        if re.match(r"^Match \d+:$", line):
            groups.append([])
        elif line.startswith("- ") and groups:
            groups[-1].append(line[2:])
    return groups


def groups_as_set(groups):
    return None if groups is None else sorted(sorted(g) for g in groups)


def tree_rows_by_path(out):
    """cbi-tree output -> (legend text, {path: (letters, sloc, cov, avg, is_dir)}, ordered list of paths)"""
    clean = cbgen.ANSI.sub("", out)
    head = clean.split("\n[", 1)[0]
    rows = cbgen.parse_tree(out)
    stack = []
    table = {}
    order = []
    for letters, sloc, cov, avg, depth, is_dir, name in rows:
        del stack[depth:]
        stack.append(name.split(" -> ")[0].rstrip("/"))
        path = "/".join(stack)
        table[path] = (letters, sloc, cov, avg, is_dir, name)
        order.append(path)
    return head, table, order


def compare_cli(ctx, drv, desc, variants, results, origin):
    """compare every schedule with schedule 0"""
    base = results[0]
    bsec = sections(base["main"][1])
    for v, res in zip(variants[1:], results[1:]):
        case_base = {"kind": "cli", "origin": origin, "desc": desc, "variants": [variants[0], v]}
        ctx.count(key="cli-schedule")
        if res["main"][0] != base["main"][0]:
            ctx.violation(f"codebasin exit status differs between schedules: {base['main'][0]} vs {res['main'][0]} "
                          f"({res['main'][2] or base['main'][2]})", dict(case_base, section="exit"))
            continue
        sec = sections(res["main"][1])
        for name in ("summary_table", "metric_lines", "distance_matrix"):
            if sec[name] != bsec[name]:
                ctx.violation(f"{name} differs between two schedules of the same analysis:\n{bsec[name]}\n--- vs ---\n{sec[name]}",
                              dict(case_base, section=name))
        if sec["duplicates"] != bsec["duplicates"]:
            ga, gb = parse_duplicates(bsec["duplicates"]), parse_duplicates(sec["duplicates"])
            same = ga is not None and groups_as_set(ga) == groups_as_set(gb)
            ctx.violation(f"Duplicates report differs between two schedules ({'order only' if same else 'different groups'}):\n"
                          f"{bsec['duplicates']}\n--- vs ---\n{sec['duplicates']}", dict(case_base, section="duplicates", groups=[ga, gb]))
        if sec["dendrogram_name"] != bsec["dendrogram_name"]:
            ctx.dist["note:dendrogram_file_name_follows_toml_order"] += 1
        if sec["preamble"] != bsec["preamble"]:
            ctx.dist["note:preamble_differs"] += 1
        # ---- cbi-tree: rows keyed by path
        if "tree" in base:
            if res["tree"][0] != base["tree"][0]:
                ctx.violation("cbi-tree exit status differs between schedules", dict(case_base, section="tree-exit"))
            elif res["tree"][1] != base["tree"][1]:
                ha, ta, oa = tree_rows_by_path(base["tree"][1])
                hb, tb, ob = tree_rows_by_path(res["tree"][1])
                if ha != hb:
                    ctx.violation(f"cbi-tree legend / platform letters differ between two schedules:\n{ha}\n--- vs ---\n{hb}",
                                  dict(case_base, section="tree-legend"))
                elif ta != tb:
                    ctx.violation("cbi-tree rows differ as data (keyed by path) between two schedules: "
                                  f"{sorted(set(ta.items()) ^ set(tb.items()))[:4]}", dict(case_base, section="tree-rows"))
                else:
                    ctx.dist["tree_sibling_order_differs(not a listed result)"] += 1
        # ---- coverage.json
        if "cov" in base:
            if res["cov"][0] != base["cov"][0]:
                ctx.violation("codebasin.coverage exit status differs between schedules", dict(case_base, section="cov-exit"))
            elif res["cov"][1] != base["cov"][1]:
                ja, jb = json.loads(base["cov"][1]), json.loads(res["cov"][1])
                key = lambda r: r["file"]  # noqa: E731
                same = sorted(ja, key=key) == sorted(jb, key=key)
                ctx.violation(f"coverage.json differs between two schedules ({'record order only' if same else 'as data'})",
                              dict(case_base, section="coverage.json"))
    # ---- model vs implementation on schedule 0: printed duplicates and coverage export, order included
    if drv is not None:
        g0 = parse_duplicates(bsec["duplicates"])
        if g0:
            files = [[p, str(i)] for i, grp in enumerate(g0) for p in grp]
            random.Random(len(files)).shuffle(files)
            m = drv.ask({"op": "order_dups", "files": files, "pick": "rev"})
            ctx.count(key="model:order_dups")
            if m["printed"] != g0:
                ctx.corr_break("order_dups", {"files": files}, g0, m)
        if "cov" in base and base["cov"][1]:
            j0 = json.loads(base["cov"][1])
            recs = [[r["file"], r["id"], r["used_lines"], r["unused_lines"]] for r in j0]
            shuffled = recs[:]
            random.Random(len(recs)).shuffle(shuffled)
            m = drv.ask({"op": "order_cov", "records": shuffled})
            ctx.count(key="model:order_cov")
            if m["export"] != recs:
                ctx.corr_break("order_cov", {"records": shuffled}, recs, m)
    # non-triviality of the case
    rows, tot, metrics = cbgen.parse_summary(base["main"][1])
    nonempty = [k for k in rows if k]
    if len(nonempty) >= 2 and metrics.get("divergence") not in (None, "nan"):
        ctx.nontrivial.add("cli:" + json.dumps(desc["texts"], sort_keys=True)[:2000] + repr(sorted(desc["platforms"])))
    ctx.dist[f"cli:platform_sets={len(rows)}"] += 1
    for sh in desc.get("shapes", {}):
        ctx.dist[f"cli:shape={sh}"] += 1
    ctx.dist[f"cli:dup_groups={len(parse_duplicates(bsec['duplicates']) or [])}"] += 1


def gen_desc(rng, scratch, force=()):
    """a random code base description (nothing kept on disk); `force` names shapes of `ordershapes` that must be present"""
    nplat = rng.choice([2, 3, 3, 4, 4])
    desc = cbgen.gen_codebase(rng, scratch, nplat=nplat, dup_pool=True, symlinks=rng.random() < 0.3, write=False)
    # some commands define the same macro twice with different bodies (-DA=1 ... -DA=0): the outcome
    # (CBI keeps the first) must not depend on any iteration order either
    for entries in desc["platforms"].values():
        for e in entries:
            defs = [a for a in e["arguments"] if a.startswith("-D") and "=" in a]
            if defs and rng.random() < 0.6:
                d = rng.choice(defs)
                name, val = d[2:].split("=")
                e["arguments"].insert(e["arguments"].index("-c"), f"-D{name}={1 - int(val)}")
    # several duplicate groups in different directories (the order of the groups in the report then
    # depends on the enumeration order unless the report sorts them)
    if rng.random() < 0.6:
        dirs = sorted({os.path.dirname(f) for f in desc["texts"]})
        for g in range(rng.randint(2, 3)):
            for k in range(rng.randint(2, 3)):
                name = os.path.join(rng.choice(dirs), f"{rng.choice('abmz')}{rng.randint(0, 99)}_g{g}_{k}.h")
                desc["texts"][name] = [f"int group{g};", f"int group{g}_b;"]
    # a probe file whose attribution is sensitive to the value every macro ends up with, compiled by
    # every platform with its own defines (half of them given twice with different bodies)
    probe = []
    for n, k in (("A", 1), ("B", 4), ("C", 7)):
        probe += [f"#if {n} == 1"] + [f"int {n.lower()}1_{j};" for j in range(k)]
        probe += [f"#elif {n} == 0"] + [f"int {n.lower()}0_{j};" for j in range(k + 1)]
        probe += ["#else"] + [f"int {n.lower()}x_{j};" for j in range(k + 2)] + ["#endif"]
    desc["texts"]["c14_probe.c"] = probe
    for entries in desc["platforms"].values():
        args = ["gcc"]
        for n in ("A", "B", "C"):
            r = rng.random()
            if r < 0.2:
                continue
            v = rng.randint(0, 1)
            args.append(f"-D{n}={v}")
            if r > 0.6:
                args.append(f"-D{n}={1 - v}")
        defs = args[1:]
        rng.shuffle(defs)
        entries.append({"file": "c14_probe.c", "directory": ".", "arguments": ["gcc"] + defs + ["-c", "c14_probe.c"]})
    # an alias whose extension belongs to another language family than its target: the one physical file must be
    # parsed in the language of the *resolved* path whichever alias the (hash-ordered) pre-parse loop meets first
    if rng.random() < 0.6:
        for n in range(rng.randint(1, 3)):
            d = rng.choice(sorted({os.path.dirname(f) for f in desc["texts"]}))
            tgt = os.path.join(d, f"phys_{n}.F90")
            desc["texts"][tgt] = ["! set up", f"program p{n}", "! a comment line", "  integer :: i", "! another", f"end program p{n}"]
            desc["links"].append((os.path.join(d, f"phys_{n}.{rng.choice(['inc', 'h', 'c'])}"), tgt))
            if rng.random() < 0.5:
                ctgt = os.path.join(d, f"cphys_{n}.c")
                desc["texts"][ctgt] = ["int q; // c comment", "/* block", "   comment */", "int r;"]
                desc["links"].append((os.path.join(d, f"cphys_{n}.f90"), ctgt))
    # a header that only some platforms can resolve (their commands name its directory with -I): what one platform
    # finds or fails to find must not leak into another, so the order of the [platform.*] tables must not matter
    if len(desc["platforms"]) >= 2 and rng.random() < 0.7:
        desc["texts"]["c14_onlyinc/c14_cfg.h"] = ["#define C14_CFG 1", "int cfg_decl;"]
        desc["texts"]["c14_cfg_user.c"] = ['#include "c14_cfg.h"', "#ifdef C14_CFG", "int with_cfg;", "int with_cfg2;", "#else",
                                           "int without_cfg;", "#endif"]
        names = sorted(desc["platforms"])
        have = set(rng.sample(names, rng.randint(1, len(names) - 1)))
        for pname in names:
            inc = ["-I", "c14_onlyinc"] if pname in have else []
            desc["platforms"][pname].append({"file": "c14_cfg_user.c", "directory": ".",
                                             "arguments": ["gcc"] + inc + ["-c", "c14_cfg_user.c"]})
    # the same header name in two include directories (override directory before generic one): which one is found is
    # decided by the order of the -I options on the command line, never by a set / hash order
    if rng.random() < 0.7:
        desc["texts"]["c14_inc_tuned/c14_arch.h"] = ["#define C14_TUNED 1", "int tuned_decl;"]
        desc["texts"]["c14_inc_generic/c14_arch.h"] = ["#define C14_GENERIC 1", "int generic_decl_a;", "int generic_decl_b;"]
        desc["texts"]["c14_inc_other/c14_unrelated.h"] = ["int unrelated;"]
        desc["texts"]["c14_arch_user.c"] = ["#include <c14_arch.h>", "#ifdef C14_TUNED", "int tuned_a;", "#endif", "#ifdef C14_GENERIC",
                                            "int generic_a;", "int generic_b;", "int generic_c;", "#endif"]
        for pname in sorted(desc["platforms"]):
            dirs = ["c14_inc_tuned", "c14_inc_generic", "c14_inc_other"]
            rng.shuffle(dirs)
            inc = []
            for dn in dirs[:rng.randint(2, 3)]:
                inc += rng.choice([["-I", dn], ["-I" + dn], ["-isystem", dn]])
            desc["platforms"][pname].append({"file": "c14_arch_user.c", "directory": ".",
                                             "arguments": ["gcc"] + inc + ["-c", "c14_arch_user.c"]})
    # platform names that differ only in case: every sort of names has to be total, not case-folded (a tie is broken by
    # set iteration order, i.e. by the hash seed)
    if len(desc["platforms"]) >= 2 and (rng.random() < 0.3 or "case-variant-names" in force):
        a, b = rng.sample(sorted(desc["platforms"]), 2)
        if a.upper() != a and a.upper() not in desc["platforms"]:
            desc["platforms"] = {(a.upper() if k == b else k): v for k, v in desc["platforms"].items()}   # e.g. cpu and CPU
    # a symbolic link in another directory than its (in-tree) target: the file's lines belong to the target's directory
    # in the tree view whichever of the two names the walk meets first
    if rng.random() < 0.5:
        srcs = [f for f in desc["texts"] if "/" in f and f.endswith((".c", ".cpp", ".h", ".hpp"))]
        if srcs:
            t = rng.choice(srcs)
            desc["links"].append((f"c14_drivers/{'a' if rng.random() < 0.5 else 'z'}_" + os.path.basename(t), t))
    # two hard-linked names of one file plus a byte-identical copy: all three are members with the same content, so they
    # form one duplicate group whichever of them the (hash-ordered) grouping loop meets first
    desc["hardlinks"] = []
    if rng.random() < 0.5:
        d = rng.choice(sorted({os.path.dirname(f) for f in desc["texts"]}))
        body = ["int hard_linked;", "int twice;"]
        desc["texts"][os.path.join(d, "c14_hl_a.h")] = body
        desc["texts"][os.path.join(d, "c14_hl_copy.h")] = list(body)
        desc["hardlinks"].append((os.path.join(d, "c14_hl_b.h"), os.path.join(d, "c14_hl_a.h")))
        if rng.random() < 0.5:
            desc["hardlinks"].append(("c14_hl_c.h", os.path.join(d, "c14_hl_a.h")))
    # shapes whose result is a union / lookup over several visits of one shared file (see harness/gen/ordershapes.py): an
    # unguarded conditional include file under multi-pass compilers (pass order = set order of the pass names), conditionals on
    # macros defined in terms of a macro that differs per platform / pass (shared directive nodes, platform order), unresolvable
    # includes next to several same-named files of the code base (registration order = set(codebase) order)
    ordershapes.add_shapes(rng, desc, force=force)
    # JSON-clean (tuples -> lists) so that a replay file reproduces it exactly
    return json.loads(json.dumps({k: desc[k] for k in ("texts", "platforms", "links", "hardlinks", "shapes") if k in desc}))


def cli_submit(ctx, pool, scratch, shimdir):
    """generate the cases and schedules (main thread, ctx.rng) and queue the subprocess runs"""
    ncases = ctx.n(8, 16)
    nvar = 48 if ctx.thorough() else 8
    jobs = []
    for i in range(ncases):
        # every shape of ordershapes in a third of the cases (plus at random), case-variant platform names in every fourth
        desc = gen_desc(ctx.rng, scratch, force=(ordershapes.SHAPES[i % 3],) + (("case-variant-names",) if i % 4 == 1 else ()))
        variants = [make_variant(ctx.rng, desc, k) for k in range(nvar)]
        base = scratch / f"case{i:03d}"
        futs = [pool.submit(run_variant, base, desc, v, shimdir) for v in variants]
        jobs.append((desc, variants, futs, base))
    ctx.extra["cli_cases"] = ncases
    ctx.extra["schedules_per_case"] = nvar
    return jobs


def cli_collect(ctx, drv, jobs):
    import shutil

    for desc, variants, futs, base in jobs:
        results = [f.result() for f in futs]
        compare_cli(ctx, drv, desc, variants, results, "random")
        ctx.sample({"kind": "cli", "platforms": {p: len(e) for p, e in desc["platforms"].items()},
                    "files": sorted(desc["texts"]), "schedules": len(variants),
                    "summary": (sections(results[0]["main"][1])["metric_lines"] or "").splitlines()[:1]}, cap=4)
        shutil.rmtree(base, ignore_errors=True)


# --------------------------------------------------------------------------
# B. table stream (in process)
# --------------------------------------------------------------------------
def bits(x):
    return struct.pack(">d", x) if isinstance(x, float) else repr(x)


def random_table(rng):
    nplat = rng.randint(2, 7)
    names = NAMES[:nplat]
    style = rng.random()
    if style < 0.35:
        # totals that put percentages / averages on a x.xx5 rounding boundary
        total = rng.choice([32, 64, 96, 160, 224, 288, 352, 800, 1600])
        n = rng.randint(2, 8)
        cuts = sorted(rng.randint(0, total) for _ in range(n - 1))
        counts = [b - a for a, b in zip([0] + cuts, cuts + [total])]
    else:
        counts = [rng.choice([0, 1, 2, 3, 5, 7, 10, 33, 999, rng.randint(0, 10 ** 6), rng.randint(0, 10 ** 12)])
                  for _ in range(rng.randint(1, 12))]
    table = {}
    for c in counts:
        k = tuple(p for p in names if rng.random() < rng.choice([0.2, 0.5, 0.8]))
        table[k] = table.get(k, 0) + c
    return [[list(k), c] for k, c in table.items()]


def build_setmap(entries, rng):
    """dict[frozenset,int] with shuffled insertion order; every frozenset built from a shuffled list"""
    import collections

    items = entries[:]
    rng.shuffle(items)
    sm = collections.defaultdict(int)
    for k, c in items:
        kk = list(k)
        rng.shuffle(kk)
        # distinct string objects, inserted in a different order, with a few removed-and-readded
        # members so that the hash table layout (and hence the iteration order) can differ
        s = set()
        for x in kk:
            s.add("".join(list(x)))
        sm[frozenset(s)] += c
    return sm, items


def plain_sum(xs, start=0):
    import functools
    import operator

    return functools.reduce(operator.add, xs, start)


def observe_table(report, sm):
    buf = io.StringIO()
    try:
        report.summary(sm, stream=buf)
        text = buf.getvalue()
    except Exception as e:  # noqa
        text = f"EXC:{type(e).__name__}"
    plats = sorted(report.extract_platforms(sm))

    def call(f, *a):
        try:
            return f(*a)
        except Exception as e:  # noqa
            return f"EXC:{type(e).__name__}"

    vals = {"divergence": call(report.divergence, sm), "coverage": call(report.coverage, sm),
            "average_coverage": call(report.average_coverage, sm)}
    # the same under an interpreter whose builtin sum is a plain left fold (CPython <= 3.11; 3.12 compensates):
    # emulated by interposing the name `sum` in codebasin.report for the duration of the call
    report.sum = plain_sum
    try:
        vals["average_coverage[plain-sum]"] = call(report.average_coverage, sm)
    finally:
        del report.sum
    dist = {(p, q): call(report.distance, sm, p, q) for p in plats for q in plats}
    return text, plats, vals, dist


def frac(s):
    if s is None:
        return None
    n, d = s.split("/")
    return Fraction(int(n), int(d))


def close(f, q, tol=1e-9):
    if q is None:
        return isinstance(f, float) and math.isnan(f)
    if not isinstance(f, (int, float)) or (isinstance(f, float) and math.isnan(f)):
        return False
    return abs(Fraction(f) - q) <= Fraction(tol) * max(1, abs(q))


def check_table(ctx, drv, report, entries, rng, origin, norders=4):
    base_sm, base_items = build_setmap(entries, random.Random(0))
    base = observe_table(report, base_sm)
    ctx.count(key="table")
    sizes = [len(set(k)) for k, _ in entries]
    if len(sizes) != len(set(sizes)) and len(base[1]) >= 2:
        ctx.nontrivial.add("table:" + repr(sorted((tuple(sorted(k)), c) for k, c in entries)))
    for _ in range(norders):
        sm, items = build_setmap(entries, rng)
        got = observe_table(report, sm)
        ctx.count(key="table-order")
        case = {"kind": "table", "origin": origin, "entries": entries, "order_a": base_items, "order_b": items}
        if got[0] != base[0]:
            ctx.violation(f"report.summary prints different text for two insertion orders of the same setmap:\n{base[0]}\n--- vs ---\n{got[0]}",
                          dict(case, section="summary"))
        for k in ("divergence", "coverage", "average_coverage", "average_coverage[plain-sum]"):
            if bits(got[2][k]) != bits(base[2][k]):
                ctx.violation(f"report.{k} returns {base[2][k]!r} and {got[2][k]!r} for two insertion orders of the same setmap",
                              dict(case, section=k))
        if {k: bits(v) for k, v in got[3].items()} != {k: bits(v) for k, v in base[3].items()}:
            ctx.violation("report.distance differs for two insertion orders of the same setmap", dict(case, section="distance"))
    # ---- model vs implementation (rows in printed order, sorted platforms, values)
    if drv is not None:
        contribs = [[list(k), c] for k, c in base_sm.items()]
        m = drv.ask({"op": "order_analysis", "contribs": contribs})
        diffs = []
        if m["plats"] != base[1]:
            diffs.append("plats")
        rows_impl = [(r[0], int(r[1])) for r in re.findall(r"│\s*(\{.*?\})\s*│\s*(\d+)\s*│", base[0])]
        if m["rows"] is None:
            if not base[0].startswith("EXC:ZeroDivisionError"):
                diffs.append("rows(model: ZeroDivisionError)")
        elif [(r[0], r[1]) for r in m["rows"]] != rows_impl:
            diffs.append("rows")
        for k, mk in (("divergence", "divergence"), ("coverage", "coverage"), ("average_coverage", "avg"),
                      ("average_coverage[plain-sum]", "avg")):
            if not close(base[2][k], frac(m[mk])):
                # F-C07-1 (coverage of a table without platforms) is C07's recorded finding
                if k == "coverage" and not base[1]:
                    continue
                diffs.append(k)
        if m["plats"] == base[1]:
            for i, p in enumerate(base[1]):
                for j, q in enumerate(base[1]):
                    if not close(base[3][(p, q)], frac(m["matrix"][i][j])):
                        diffs.append(f"distance[{p}][{q}]")
        if diffs:
            ctx.corr_break("order_analysis", {"contribs": contribs, "diffs": diffs[:6]},
                           {"text": base[0], "vals": {k: repr(v) for k, v in base[2].items()}}, m)


def path_order_stream(ctx, drv):
    """the order `report.duplicates` prints in (`sorted(sorted(m) for m in matches)` on Path objects) against the
    Lean `printedDuplicates pathLe pathGroupLe`, on names where string order and component order disagree"""
    if drv is None:
        return
    segs = ["a", "a-b", "a.b", "a b", "ab", "b", "A", "a0", "~", "%"]
    for _ in range(ctx.n(150, 1500)):
        paths = set()
        while len(paths) < ctx.rng.randint(2, 9):
            paths.add("/r/" + "/".join(ctx.rng.choice(segs) for _ in range(ctx.rng.randint(1, 3))))
        paths = sorted(paths)
        ctx.rng.shuffle(paths)
        ngroups = ctx.rng.randint(1, max(1, len(paths) // 2))
        groups = [g for g in (paths[i::ngroups] for i in range(ngroups)) if len(g) >= 2]
        if not groups:
            continue
        impl = [[str(p) for p in g] for g in sorted(sorted(Path(p) for p in g) for g in groups)]
        files = [[p, "x" * (i + 1)] for i, g in enumerate(groups) for p in g]
        ctx.rng.shuffle(files)
        m = drv.ask({"op": "order_dups", "files": files, "pick": ctx.rng.choice(["id", "rev", "rot"])})
        ctx.count(key="model:path-order")
        if m["printed"] != impl:
            ctx.corr_break("order_dups/path-order", {"kind": "paths", "files": files}, impl, m)


def table_stream(ctx, drv):
    core.import_codebasin()
    from codebasin import report

    path_order_stream(ctx, drv)

    for f in sorted((core.VERIF / "corpus" / "C14").glob("*.json")):
        c = json.loads(f.read_text())
        if c.get("kind") == "table":
            check_table(ctx, drv, report, c["entries"], ctx.rng, "corpus:" + f.name)
    # small exhaustive family: all tables over 2 platforms with counts in {absent,1,2} + equal-size ties over 3 platforms
    subs2 = [[], ["A"], ["B"], ["A", "B"]]
    for combo in itertools.product([None, 1, 2], repeat=4):
        entries = [[s, c] for s, c in zip(subs2, combo) if c is not None]
        if entries:
            check_table(ctx, drv, report, entries, ctx.rng, "exhaustive2", norders=2)
    import time

    t0 = time.time()
    limit = (25 if not ctx.thorough() else 150) * ctx.budget_scale
    for i in range(ctx.n(700, 12000)):
        check_table(ctx, drv, report, random_table(ctx.rng), ctx.rng, "random")
        if time.time() - t0 > limit:  # loaded machine: stop early, the counts in the evidence are the measured ones
            ctx.notes.append(f"table stream stopped after {i + 1} random tables (time limit {limit:.0f}s)")
            break


# --------------------------------------------------------------------------
# E. hash-seed stream: the same tables evaluated in fresh interpreters under different hash seeds
# --------------------------------------------------------------------------
RAW_SCRIPT = r'''
import collections, functools, hashlib, io, json, operator, sys, warnings
warnings.simplefilter("ignore")
import codebasin
from codebasin import report
assert codebasin.__file__.startswith(sys.argv[2]), codebasin.__file__
def hx(v):
    return v.hex() if isinstance(v, float) else repr(v)
def call(f, *a):
    try:
        return hx(f(*a))
    except Exception as e:
        return "EXC:" + type(e).__name__
def plain_sum(xs, start=0):
    return functools.reduce(operator.add, xs, start)
def summary_text(sm):
    buf = io.StringIO()
    try:
        report.summary(sm, stream=buf)
        return buf.getvalue()
    except Exception as e:
        return "EXC:" + type(e).__name__
out = []
for entries in json.load(open(sys.argv[1])):
    sm = collections.defaultdict(int)
    for k, c in entries:
        sm[frozenset(k)] += c
    plats = sorted(report.extract_platforms(sm))
    buf = io.StringIO()
    try:
        report.summary(sm, stream=buf)
        text = buf.getvalue()
    except Exception as e:
        text = "EXC:" + type(e).__name__
    # builtin sum as a plain left fold (CPython <= 3.11), emulated by interposing the name in codebasin.report
    report.sum = plain_sum
    try:
        plain = {"average_coverage[plain-sum]": call(report.average_coverage, sm), "summary[plain-sum]": summary_text(sm)}
    finally:
        del report.sum
    out.append({"summary": text, "divergence": call(report.divergence, sm), "coverage": call(report.coverage, sm),
                "average_coverage": call(report.average_coverage, sm), **plain,
                "distance": [[call(report.distance, sm, p, q) for q in plats] for p in plats]})
json.dump(out, sys.stdout)
'''


def run_raw(scratch, tables_file, seed):
    import subprocess
    import sys

    env = dict(os.environ, PYTHONPATH=str(core.REPO), PYTHONHASHSEED=str(seed), MPLBACKEND="Agg")
    p = subprocess.run([sys.executable, str(scratch / "raw_metrics.py"), str(tables_file), str(core.REPO)],
                       cwd=str(scratch), env=env, capture_output=True, text=True, timeout=600)
    if p.returncode != 0:
        raise RuntimeError("raw metrics script failed: " + p.stderr[-500:])
    return json.loads(p.stdout)


def hashseed_submit(ctx, pool, scratch):
    (scratch / "raw_metrics.py").write_text(RAW_SCRIPT)
    ntab = ctx.n(300, 3000)
    nseeds = 32 if ctx.thorough() else 8
    tables = [c["entries"] for c in (json.loads(f.read_text()) for f in sorted((core.VERIF / "corpus" / "C14").glob("*.json")))
              if c.get("kind") == "table"]
    tables += [random_table(ctx.rng) for _ in range(ntab)]
    tf = scratch / "raw_tables.json"
    tf.write_text(json.dumps(tables))
    seeds = [0] + [ctx.rng.randrange(1, 2 ** 32 - 1) for _ in range(nseeds - 1)]
    return tables, seeds, [pool.submit(run_raw, scratch, tf, s) for s in seeds]


def hashseed_collect(ctx, job):
    tables, seeds, futs = job
    outs = [f.result() for f in futs]
    for ti, entries in enumerate(tables):
        base = outs[0][ti]
        ctx.count(key="hashseed-table")
        for seed, o in zip(seeds[1:], outs[1:]):
            got = o[ti]
            if got == base:
                continue
            diff = [k for k in base if base[k] != got[k]]
            case = {"kind": "hashseed", "entries": entries, "seeds": [0, seed], "differs": diff}
            ctx.violation(f"{', '.join(diff)} of the same setmap differ between PYTHONHASHSEED=0 and {seed}: "
                          f"{ {k: (base[k], got[k]) for k in diff if not k.startswith('summary')} }"
                          + (" ([plain-sum] = builtin sum interposed by a plain left fold, the semantics of CPython <= 3.11)"
                             if all('plain-sum' in k for k in diff) else ""), case)
            break
    ctx.extra["hashseed_tables"] = len(tables)
    ctx.extra["hashseed_seeds"] = len(seeds)


# --------------------------------------------------------------------------
# C. analysis stream (in process): finder.find / get_setmap under permuted orders
# --------------------------------------------------------------------------
class ShuffledScandir:
    """in-process equivalent of the shim: os.scandir returns entries in a seeded shuffled order"""

    def __init__(self, seed):
        self.seed = seed

    def __enter__(self):
        self.orig = os.scandir
        orig, seed = self.orig, self.seed

        class It:
            def __init__(self, entries):
                self._it = iter(entries)

            def __iter__(self):
                return self

            def __next__(self):
                return next(self._it)

            def __enter__(self):
                return self

            def __exit__(self, *a):
                return False

            def close(self):
                pass

        def scandir(path="."):
            with orig(path) as it:
                entries = sorted(it, key=lambda e: e.name)
            random.Random(f"{seed}|{os.fspath(path)}").shuffle(entries)
            return It(entries)

        os.scandir = scandir
        return self

    def __exit__(self, *a):
        os.scandir = self.orig
        return False


def contributions(cb, st):
    """what get_setmap folds over, in its own enumeration order: (association set as iterated, num_lines)"""
    from codebasin.preprocessor import CodeNode

    out = []
    for fn in cb:
        path = Path(fn)
        if path.is_symlink() and path.resolve() in cb:
            continue
        tree = st.get_tree(fn)
        assoc = st.get_map(fn)
        for node in tree.walk():
            if isinstance(node, CodeNode):
                out.append([list(assoc[node]), node.num_lines])
    return out


def analysis_stream(ctx, drv, scratch):
    core.import_codebasin()
    from codebasin import report

    import time

    t0 = time.time()
    limit = (30 if not ctx.thorough() else 200) * ctx.budget_scale
    n = ctx.n(25, 250)
    for i in range(n):
        if time.time() - t0 > limit:
            ctx.notes.append(f"analysis stream stopped after {i} code bases (time limit {limit:.0f}s)")
            break
        root = scratch / f"an{i:04d}"
        root.mkdir()
        root = root.resolve()
        desc = gen_desc(ctx.rng, scratch, force=(ordershapes.SHAPES[i % 3],))
        for sh in desc.get("shapes", {}):
            ctx.dist[f"analysis:shape={sh}"] += 1
        cbgen.write_codebase(root, desc)
        plats = list(desc["platforms"])
        try:
            cb, st = cbgen.analyse(root, plats)
            base_attr = cbgen.attribution(list(cb), st, str(root))
            base_files = list(cb)
            base_setmap = st.get_setmap(cb)
            base_contribs = contributions(cb, st)
        except Exception as e:  # noqa  (an analysis error is not C14's business; it must merely be reproducible)
            base_attr = base_setmap = None
            base_err = f"{type(e).__name__}: {e}"
        ctx.count(key="analysis")
        buf = io.StringIO()
        if base_setmap is not None and sum(base_setmap.values()) > 0:
            report.summary(base_setmap, stream=buf)
        base_text = buf.getvalue()
        # ---- Lean model of get_setmap: same dict, insertion order included
        if drv is not None and base_setmap is not None:
            m = drv.ask({"op": "order_analysis", "contribs": base_contribs})
            impl = [[sorted(k), c] for k, c in base_setmap.items()]
            if m["setmap"] != impl:
                ctx.corr_break("order_analysis/get_setmap", {"contribs": base_contribs}, impl, m["setmap"])
            rows_impl = [[r[0], int(r[1])] for r in re.findall(r"│\s*(\{.*?\})\s*│\s*(\d+)\s*│", base_text)]
            if base_text and m["rows"] is not None and [[r[0], r[1]] for r in m["rows"]] != rows_impl:
                ctx.corr_break("order_analysis/summary-rows", {"contribs": base_contribs}, rows_impl, m["rows"])
        if base_setmap is not None and len([k for k in base_setmap if k]) >= 2:
            ctx.nontrivial.add("analysis:" + json.dumps(desc["texts"], sort_keys=True)[:2000])
        # ---- attribution = union of the per-platform visits (Lean: assocOf), platforms taken in any order
        if drv is not None and base_attr is not None and i % 2 == 0:
            events = []
            try:
                for p in plats:
                    cbp, stp = cbgen.analyse(root, [p])
                    for f, lines in cbgen.attribution(list(cbp), stp, str(root)).items():
                        events += [[p, f, ln] for ln, ps in lines.items() if ps]
            except Exception as e:  # noqa
                events = None
                ctx.notes.append(f"single-platform analysis failed where the joint analysis did not: {type(e).__name__}")
            if events is not None:
                ctx.rng.shuffle(events)
                queries = [[f, ln] for f, lines in sorted(base_attr.items()) for ln in sorted(lines)]
                ma = drv.ask({"op": "order_assoc", "events": events, "queries": queries})
                impl = [sorted(base_attr[f][ln]) for f, ln in queries]
                ctx.count(key="analysis-union")
                if ma["assoc"] != impl:
                    bad = [(q, a, b) for q, a, b in zip(queries, impl, ma["assoc"]) if a != b][:3]
                    ctx.corr_break("order_assoc", {"kind": "analysis", "desc": desc, "platform_order": plats, "scandir": 0,
                                                   "first_diffs": bad}, impl[:20], ma["assoc"][:20])
        for j in range(3):
            po = plats[:]
            ctx.rng.shuffle(po)
            seed = ctx.rng.randrange(10 ** 9)
            case = {"kind": "analysis", "desc": desc, "platform_order": po, "scandir": seed}
            ctx.count(key="analysis-order")
            try:
                with ShuffledScandir(seed):
                    cb2, st2 = cbgen.analyse(root, po)
                    files2 = list(cb2)
                    attr2 = cbgen.attribution(files2, st2, str(root))
                    sm2 = st2.get_setmap(cb2)
                    contribs2 = contributions(cb2, st2)
            except Exception as e:  # noqa
                if base_attr is not None or f"{type(e).__name__}: {e}" != base_err:
                    ctx.violation(f"analysis fails under one enumeration order only: {type(e).__name__}: {e}", case)
                continue
            if base_attr is None:
                ctx.violation(f"analysis fails under one enumeration order only: {base_err}", case)
                continue
            if files2 != base_files:
                ctx.dist["analysis:enumeration_order_changed"] += 1
            if sorted(files2) != sorted(base_files):
                ctx.violation("the set of code-base files differs between enumeration orders", case)
            if attr2 != base_attr:
                bad = [f for f in base_attr if attr2.get(f) != base_attr[f]][:3]
                ctx.violation(f"per-line attribution differs between orders for {bad}", case)
            if dict(sm2) != dict(base_setmap):
                ctx.violation(f"get_setmap differs between orders: {dict(base_setmap)} vs {dict(sm2)}", case)
            if sum(sm2.values()) > 0:
                b2 = io.StringIO()
                report.summary(sm2, stream=b2)
                if b2.getvalue() != base_text:
                    ctx.violation(f"summary text differs between orders:\n{base_text}\n--- vs ---\n{b2.getvalue()}", case)
            if drv is not None:
                m2 = drv.ask({"op": "order_analysis", "contribs": contribs2})
                impl2 = [[sorted(k), c] for k, c in sm2.items()]
                if m2["setmap"] != impl2:
                    ctx.corr_break("order_analysis/get_setmap", {"contribs": contribs2}, impl2, m2["setmap"])
        import shutil
        shutil.rmtree(root, ignore_errors=True)


# --------------------------------------------------------------------------
# D. modes stream: defines contributed by several active compiler modes
# --------------------------------------------------------------------------
def gen_modes_case(rng):
    nmodes = rng.randint(2, 4)
    agree = rng.random() < 0.5  # half of the cases: all modes agree on every macro they share
    body = {n: str(rng.randint(1, 2)) for n in ("X", "Y", "Z")}
    modes = []
    for i in range(nmodes):
        defs = []
        for name in rng.sample(["X", "Y", "Z"], rng.randint(1, 2)):
            defs.append([name, body[name] if agree else str(rng.randint(1, 2))])
        modes.append({"name": f"m{i}", "defines": defs})
    active = rng.sample(range(nmodes), rng.randint(2, nmodes))
    active += [rng.choice(active) for _ in range(rng.randint(0, 2))]  # a flag may be given more than once
    rng.shuffle(active)
    return {"modes": modes, "active": active}


def modes_files(mc):
    cfg = ["[compiler.mycc]", ""]
    for m in mc["modes"]:
        cfg += ["[[compiler.mycc.parser]]", f'flags = ["-f{m["name"]}"]', 'action = "append_const"', 'dest = "modes"',
                f'const = "{m["name"]}"', ""]
    for m in mc["modes"]:
        defs = ", ".join(f'"{n}={b}"' for n, b in m["defines"])
        cfg += ["[[compiler.mycc.modes]]", f'name = "{m["name"]}"', f"defines = [{defs}]", ""]
    src = []
    for n in ("X", "Y", "Z"):
        src += [f"#if {n} == 1", f"int {n.lower()}_one;", f"#elif {n} == 2", f"int {n.lower()}_two_a;", f"int {n.lower()}_two_b;",
                "#else", f"int {n.lower()}_none_a;", f"int {n.lower()}_none_b;", f"int {n.lower()}_none_c;", "#endif"]
    return {".cbi/config": "\n".join(cfg) + "\n"}, src


PASSES_CFG = """
[compiler.mycc]

[[compiler.mycc.parser]]
flags = ["-farch", "--arch"]
action = "extend_match"
pattern = "[a-z]+"
format = "arch-$value"
dest = "passes"
default = ["arch-base"]

[[compiler.mycc.parser]]
flags = ["-ftarget"]
action = "extend_match"
pattern = "[a-z]+"
format = "arch-$value"
dest = "passes"
default = ["arch-x"]
override = true

[[compiler.mycc.passes]]
name = "arch-base"
defines = ["PB=1"]

[[compiler.mycc.passes]]
name = "arch-x"
defines = ["PX=1"]

[[compiler.mycc.passes]]
name = "arch-y"
defines = ["PY=1"]

[[compiler.mycc.passes]]
name = "arch-z"
defines = ["PZ=1"]
"""


def gen_passes_case(rng):
    """several platforms compiling one file with a user compiler whose options select passes (list defaults, with and without
    `override`): a platform that relies on the default passes must not see what another platform's command selected, so the
    order of the [platform.*] tables must not matter"""
    src = []
    for n in ("PB", "PX", "PY", "PZ"):
        src += [f"#ifdef {n}"] + [f"int {n.lower()}_{j};" for j in range(1 + "BXYZ".index(n[1]))] + ["#endif"]
    src += ["int common;"]
    plats = {}
    for pname in rng.sample(["p0", "p1", "p2", "p3"], rng.randint(2, 4)):
        entries = []
        for _ in range(rng.randint(1, 2)):
            flags = []
            if rng.random() < 0.5:
                flags += [rng.choice(["-farch=", "--arch="]) + rng.choice(["y", "z", "y,z", "x"])]
            if rng.random() < 0.3:
                flags += ["-ftarget=" + rng.choice(["y", "z", "y,z"])]
            rng.shuffle(flags)
            entries.append({"file": "a.c", "directory": ".", "arguments": ["mycc"] + flags + ["-c", "a.c"]})
        plats[pname] = entries
    return {"texts": {"a.c": src}, "links": [], "platforms": plats}


def passes_submit(ctx, pool, scratch, shimdir):
    jobs = []
    nvar = 24 if ctx.thorough() else 6
    for i in range(ctx.n(4, 12)):
        desc = gen_passes_case(ctx.rng)
        variants = []
        for k in range(nvar):
            v = make_variant(ctx.rng, desc, k)
            v["scandir"] = None
            variants.append(v)
        base = scratch / f"passes{i:03d}"
        extra = {".cbi/config": PASSES_CFG}
        futs = [pool.submit(run_variant, base, desc, v, shimdir, extra, ["summary"]) for v in variants]
        jobs.append((desc, extra, variants, futs))
    return jobs


def passes_collect(ctx, jobs):
    for desc, extra, variants, futs in jobs:
        results = [f.result() for f in futs]
        secs = [sections(r["main"][1]) for r in results]
        if any(r["main"][0] != 0 or s["summary_table"] is None for r, s in zip(results, secs)):
            ctx.notes.append(f"passes case did not produce a summary: {results[0]['main'][2]}")
            continue
        used = {a.split("=")[0] for es in desc["platforms"].values() for e in es for a in e["arguments"] if a.startswith("-")}
        if len(used) > 1:
            ctx.nontrivial.add("passes:" + json.dumps(desc["platforms"], sort_keys=True))
        for v, sec in zip(variants[1:], secs[1:]):
            ctx.count(key="passes-schedule")
            if sec["summary_table"] != secs[0]["summary_table"] or sec["metric_lines"] != secs[0]["metric_lines"]:
                case = {"kind": "modes", "desc": desc, "extra_files": extra, "variants": [variants[0], v], "stream": "passes"}
                ctx.violation("summary depends on the order of the [platform.*] tables / hash seed when a user compiler's options "
                              f"select passes:\n{secs[0]['summary_table']}\n--- vs ---\n{sec['summary_table']}", case)
                break


def modes_submit(ctx, pool, scratch, shimdir):
    ncases = ctx.n(4, 12)
    nseeds = 24 if ctx.thorough() else 6
    jobs = []
    for i in range(ncases):
        mc = gen_modes_case(ctx.rng) if i else {"modes": [{"name": "m0", "defines": [["X", "1"]]}, {"name": "m1", "defines": [["X", "2"]]}],
                                                  "active": [0, 1]}
        extra, src = modes_files(mc)
        flags = [f"-f{mc['modes'][a]['name']}" for a in mc["active"]]
        desc = {"texts": {"a.c": src}, "links": [],
                "platforms": {"p": [{"file": "a.c", "directory": ".", "arguments": ["mycc"] + flags + ["-c", "a.c"]}]}}
        variants = []
        for k in range(nseeds):
            v = make_variant(ctx.rng, desc, k)
            v["scandir"] = None
            variants.append(v)
        base = scratch / f"modes{i:03d}"
        futs = [pool.submit(run_variant, base, desc, v, shimdir, extra, ["summary"]) for v in variants]
        jobs.append((mc, desc, extra, variants, futs, parse_args_defines(scratch / f"modes_inproc{i:03d}", desc, extra)))
    return jobs


def parse_args_defines(root, desc, extra):
    """what config.load_database makes of the command in this process: the `defines` list of the default pass"""
    core.import_codebasin()
    from codebasin import config

    root.mkdir()
    root = root.resolve()
    cbgen.write_codebase(root, desc)
    for rel, text in extra.items():
        (root / rel).parent.mkdir(parents=True, exist_ok=True)
        (root / rel).write_text(text)
    cwd = os.getcwd()
    try:
        os.chdir(root)
        config._compilers = None  # .cbi/config is read relative to the working directory and cached
        entries = config.load_database(str(root / "p.json"), str(root))
        return [e["defines"] for e in entries if e["pass_name"] == "default"]
    except Exception as e:  # noqa
        return f"EXC:{type(e).__name__}: {e}"
    finally:
        os.chdir(cwd)
        config._compilers = None


def modes_collect(ctx, drv, jobs):
    for mc, desc, extra, variants, futs, impl_defines in jobs:
        results = [f.result() for f in futs]
        flags = [mc["modes"][a]["name"] for a in mc["active"]]
        table = [[m["name"], m["defines"]] for m in mc["modes"]]
        flat = [d for a in dict.fromkeys(mc["active"]) for d in mc["modes"][a]["defines"]]
        consistent = all(d[1] == e[1] for d in flat for e in flat if d[0] == e[0])
        if drv is not None:
            m = drv.ask({"op": "order_modes", "cmdline": [], "table": table, "flags": flags, "names": ["X", "Y", "Z"]})
            ctx.count(key="model:order_modes")
            want = [[f"{n}={b}" for n, b in m["defines"]]]
            if impl_defines != want or m["consistent"] != consistent:
                ctx.corr_break("order_modes", {"kind": "modes-model", "table": table, "flags": flags}, impl_defines, m)
        tables = [sections(r["main"][1])["summary_table"] for r in results]
        ctx.count(key="modes-consistent" if consistent else "modes-conflicting")
        if any(r["main"][0] != 0 or t is None for r, t in zip(results, tables)):
            ctx.notes.append(f"modes case did not produce a summary: {results[0]['main'][2]}")
        for v, r, t in zip(variants[1:], results[1:], tables[1:]):
            ctx.count(key="modes-schedule")
            if t != tables[0] or sections(r["main"][1])["metric_lines"] != sections(results[0]["main"][1])["metric_lines"]:
                case = {"kind": "modes", "modes_case": mc, "desc": desc, "extra_files": extra, "variants": [variants[0], v],
                        "consistent": consistent}
                ctx.violation(f"summary depends on PYTHONHASHSEED with user-defined compiler modes:\n{tables[0]}\n--- vs ---\n{t}", case)
                break
        if consistent is False:
            ctx.nontrivial.add("modes:" + json.dumps(mc, sort_keys=True))


# --------------------------------------------------------------------------
def shim_selftest(scratch, shimdir):
    """the interposition must be active in child interpreters, and schedules must really differ"""
    d = scratch / "shimtest"
    d.mkdir()
    for i in range(12):
        (d / f"f{i:02d}.c").write_text("")
    orders = set()
    for seed in (None, 1, 2, 3):
        env = dict(os.environ, PYTHONPATH=f"{shimdir}{os.pathsep}{core.REPO}", PYTHONHASHSEED="0")
        if seed is not None:
            env["CBI_VERIF_SCANDIR_SHUFFLE"] = str(seed)
        import subprocess
        import sys

        p = subprocess.run([sys.executable, "-c",
                            "import os,pathlib;print([e.name for e in os.scandir('.')]);print([p.name for p in pathlib.Path('.').rglob('*')])"],
                           cwd=d, env=env, capture_output=True, text=True, timeout=60)
        assert p.returncode == 0, p.stderr
        a, b = p.stdout.strip().splitlines()
        assert a == b or seed is None, "pathlib does not go through the interposed os.scandir"
        orders.add(b)
    assert len(orders) >= 3, "the scandir shim is not active in child interpreters"


def run(ctx, drv):
    ctx.rule = ("CLI stream: random code bases (2-4 platforms, 3-10 files incl. a probe file sensitive to the value of every "
                "macro, commands with repeated -D, duplicates pool, sometimes a symlink) x schedules (PYTHONHASHSEED, "
                "os.scandir/os.listdir shuffle seed, file creation order, [platform.*] order); code bases also contain the same header name in two or "
                "three -I/-isystem directories, a header only some platforms can resolve, aliases whose extension belongs to another language "
                "family, cross-directory symbolic links, hard-linked names plus a byte-identical copy, platform names that differ only in case "
                "(forced in every fourth CLI case); shapes of harness/gen/ordershapes.py, each forced in a third of the code bases and added at "
                "random (p=0.6) to the others: [multipass] an unguarded include file without #define/#include/#pragma whose conditionals read "
                "__CUDA_ARCH__ / __SYCL_DEVICE_ONLY__ / __SPIR__ / __NVPTX__ / _OPENMP, included (sometimes twice) from translation units "
                "compiled by nvcc (default, --gpu-architecture, several -gencode) or icpx/icx -fsycl [-fsycl-targets=a,b] next to single-pass "
                "g++/clang++ platforms; [indirect] conditionals on macros defined in terms of another macro (alias, two-level alias, "
                "parenthesised expression, function-like) whose inner macro every platform's command line (and every compiler pass) sets "
                "differently; [incomplete] user includes that no -I resolves (base name only, and directory-qualified) next to 2-3 same-named "
                "headers per name in per-backend directories defining different macros, a few platforms with the complete include paths; "
                "every schedule is compared with "
                "schedule 0. Table stream: setmaps over 2-7 platforms (all tables over 2 platforms with counts {absent,1,2} "
                "exhaustively; random ones incl. totals on x.xx5 rounding boundaries) x shuffled dict/frozenset construction "
                "orders, in process. Hash-seed stream: the same kind of tables evaluated in fresh interpreters under 8/32 hash "
                "seeds, values compared as float.hex. Analysis stream: finder.find + get_setmap in process under permuted "
                "platform order and shuffled os.scandir, plus attribution = union of single-platform analyses. Modes stream: "
                "user compilers with 2-4 modes; passes stream: a user compiler whose options select passes (list defaults with and without override), 2-4 "
                "platforms, permuted [platform.*] order. Textperm stream: text-level code bases (C01 conditional programs decorated with C05 material, "
                "1-4 files, 0-4 platforms, 0-3 compile commands with different -D lists per file and platform) in 3 presentations "
                "(files, [platform.*] tables and database entries rearranged, entries repeated), in process and in fresh interpreters "
                "under 3/6 hash seeds, compared with each other and with the composed Lean model (op c14text); non-trivial there = "
                ">= 2 files, >= 2 platforms, >= 2 platform sets. Non-trivial = distinct code bases whose table has >= 2 non-empty platform sets "
                "and a defined divergence, distinct tables with a tie in set size and >= 2 platforms, distinct conflicting mode "
                "configurations.")
    ctx.extra["evidence_label"] = "partial (theorems: all orders of the modelled pipeline; runtime and third-party iteration orders: sampled)"
    ctx.assumptions += [
        "PARTIAL: the theorems cover the modelled pipeline (attribution as set union, get_setmap, summary rows, all four metric lines "
        "and the distance matrix for law-free float operations, the printed duplicates list, the coverage export list, tree-node "
        "setmaps, mode defines) for ALL orders; "
        "iteration order inside CPython (set/dict layout) and inside third-party libraries (pathlib, tabulate, tomllib, "
        "jsonschema, scipy/matplotlib) is only sampled by the runs above",
        "per-entry preprocessing is a function of the entry alone (fresh Platform per entry; C01/C04 models); the shared "
        "ParserState only caches parse trees by real path — for the text-level pipeline without #include resolution this is no "
        "longer an assumption: C14.Text.* (Props/C14Compose.lean) prove order independence of C06C.analyse, whose per-entry "
        "step is the C01 associator on the C05 parse of the text, and the textperm stream ties that model to the real code",
        "text-level theorems (C14.Text.*): file names distinct, platform names distinct, no #include resolution (C04's layer), no "
        "symbolic links; WHICH exception surfaces first when several inputs are faulty is not a listed result and is not compared "
        "(C14.Text.first_exception_depends_on_order); that the analysis raises at all is compared",
        "Python's builtin sum() is modelled as a left fold of an arbitrary binary operation over the sorted platform list "
        "(any deterministic summation of the same list gives the same result); because CPython >= 3.12 sums floats with "
        "compensation, average_coverage is additionally observed with the name `sum` interposed in codebasin.report by a "
        "plain left fold (the semantics of CPython <= 3.11, which the package's requires-python admits)",
        "pathlib orders paths by their component lists (str(p).split('/')) compared as Python lists of strings; sorted() "
        "is modelled by a stable merge sort (irrelevant: the keys are distinct)",
        "the order of sibling rows in the cbi-tree view is not a result listed by the property: cbi-tree is compared as data "
        "(legend and letters byte-for-byte, rows keyed by path)",
        "hash seeds and scandir orders are sampled (8 / 48 schedules per code base), not enumerated",
        "the dendrogram PNG and its file name (which follows the order of the [platform.*] tables) are not among the "
        "results listed by the property and are not compared",
    ]
    with core.Scratch() as scratch:
        shimdir = scratch / "shim"
        shimdir.mkdir()
        (shimdir / "sitecustomize.py").write_text(SHIM)
        shim_selftest(scratch, shimdir)
        ctx.extra["shim_active"] = True
        with cf.ThreadPoolExecutor(max_workers=min(16, (os.cpu_count() or 4))) as pool:
            # replay the corpus first
            for f in sorted((core.VERIF / "corpus" / "C14").glob("*.json")):
                c = json.loads(f.read_text())
                if c.get("kind") == "cli":
                    res = [run_variant(scratch / ("corpus_" + f.stem), c["desc"], v, shimdir) for v in c["variants"]]
                    compare_cli(ctx, drv, c["desc"], c["variants"], res, "corpus:" + f.name)
            # the subprocess streams run in the pool while the in-process streams run here
            import time

            t = [time.time()]
            cli_jobs = cli_submit(ctx, pool, scratch, shimdir)
            modes_jobs = modes_submit(ctx, pool, scratch, shimdir)
            passes_jobs = passes_submit(ctx, pool, scratch, shimdir)
            hs_job = hashseed_submit(ctx, pool, scratch)
            tp_job = CT.submit(ctx, pool, scratch)
            t.append(time.time())
            table_stream(ctx, drv)
            t.append(time.time())
            analysis_stream(ctx, drv, scratch)
            t.append(time.time())
            tp_in = CT.inprocess(ctx, tp_job[0], seconds=10 if not ctx.thorough() else 100)
            t.append(time.time())
            hashseed_collect(ctx, hs_job)
            modes_collect(ctx, drv, modes_jobs)
            passes_collect(ctx, passes_jobs)
            cli_collect(ctx, drv, cli_jobs)
            t.append(time.time())
            CT.collect(ctx, drv, tp_job, tp_in)
            from harness.props import c14_metrics as CM  # metric lines / distance matrix of the text-level pipeline (Props/C14Metrics.lean)
            CM.stream(ctx, drv)
            t.append(time.time())
            ctx.extra["timings_s"] = dict(zip(["submit", "table_stream", "analysis_stream", "textperm_in_process", "wait_for_subprocesses", "textperm_compare"],
                                              [round(b - a, 1) for a, b in zip(t, t[1:])]))


def search(ctx, drv):
    run(ctx, drv)


def replay(ctx, drv, case):
    if case.get("kind") == "textperm":
        return CT.replay(ctx, drv, case)
    if case.get("kind") == "textmetrics":
        from harness.props import c14_metrics as CM
        return CM.replay(ctx, drv, case)
    out = {"kind": case.get("kind"), "section": case.get("section")}
    if case.get("kind") in ("cli", "modes"):
        with core.Scratch() as scratch:
            shimdir = scratch / "shim"
            shimdir.mkdir()
            (shimdir / "sitecustomize.py").write_text(SHIM)
            res = [run_variant(scratch / "replay", case["desc"], dict(v, k=i), shimdir, case.get("extra_files"),
                               ["summary"] if case["kind"] == "modes" else None) for i, v in enumerate(case["variants"])]
            sec = [sections(r["main"][1]) for r in res]
            out["implementation"] = {"schedule_a": sec[0], "schedule_b": sec[1],
                                     "differing_sections": [k for k in sec[0] if sec[0][k] != sec[1][k]]}
            if "tree" in res[0]:
                out["implementation"]["tree_equal"] = res[0]["tree"][1] == res[1]["tree"][1]
                out["implementation"]["tree_a"] = res[0]["tree"][1]
                out["implementation"]["tree_b"] = res[1]["tree"][1]
            if "cov" in res[0]:
                out["implementation"]["coverage_json_equal"] = res[0]["cov"][1] == res[1]["cov"][1]
            out["spec"] = "all listed sections byte-identical for every schedule"
            if case["desc"].get("shapes"):
                out["shapes_in_code_base"] = case["desc"]["shapes"]   # see harness/gen/ordershapes.py
            if case["kind"] == "modes" and drv is not None and "modes_case" in case:
                mc = case["modes_case"]
                out["model"] = drv.ask({"op": "order_modes", "cmdline": [], "names": ["X", "Y", "Z"],
                                        "table": [[m["name"], m["defines"]] for m in mc["modes"]],
                                        "flags": [mc["modes"][a]["name"] for a in mc["active"]]})
            else:
                out["model"] = "C14.summary_rows_of_contribs / metrics_perm_anyfloat / dups_printed_paths / coverage_perm: same result for every order"
    elif case.get("kind") == "table":
        core.import_codebasin()
        import collections

        from codebasin import report

        obs = []
        for order in (case["order_a"], case["order_b"]):
            sm = collections.defaultdict(int)
            for k, c in order:
                sm[frozenset(k)] += c
            t = observe_table(report, sm)
            obs.append({"text": t[0], "values": {k: repr(v) for k, v in t[2].items()}})
        out["implementation"] = obs
        out["spec"] = "identical text and bit-identical values"
        if drv is not None:
            out["model"] = [drv.ask({"op": "order_analysis", "contribs": o}) for o in (case["order_a"], case["order_b"])]
    elif case.get("kind") == "hashseed":
        with core.Scratch() as scratch:
            (scratch / "raw_metrics.py").write_text(RAW_SCRIPT)
            tf = scratch / "t.json"
            tf.write_text(json.dumps([case["entries"]]))
            out["implementation"] = {f"PYTHONHASHSEED={s}": run_raw(scratch, tf, s)[0] for s in case["seeds"]}
            out["spec"] = "identical text and bit-identical values for every hash seed"
            if drv is not None:
                out["model"] = drv.ask({"op": "order_analysis", "contribs": case["entries"]})
    elif case.get("kind") == "analysis":
        core.import_codebasin()
        with core.Scratch() as scratch:
            root = (scratch / "cb")
            root.mkdir()
            root = root.resolve()
            cbgen.write_codebase(root, case["desc"])
            cb, st = cbgen.analyse(root, list(case["desc"]["platforms"]))
            a = {"setmap": {str(sorted(k)): v for k, v in st.get_setmap(cb).items()}}
            with ShuffledScandir(case["scandir"]):
                cb2, st2 = cbgen.analyse(root, case["platform_order"])
                b = {"setmap": {str(sorted(k)): v for k, v in st2.get_setmap(cb2).items()},
                     "attribution_equal": cbgen.attribution(list(cb2), st2, str(root)) == cbgen.attribution(list(cb), st, str(root))}
            out["implementation"] = {"order_a": a, "order_b": b}
            out["spec"] = "identical"
            if case["desc"].get("shapes"):
                out["shapes_in_code_base"] = case["desc"]["shapes"]
    return out
