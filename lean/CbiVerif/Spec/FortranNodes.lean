import CbiVerif.Spec.FortranRef
/-!
Node grouping of a free-form Fortran source, written from the property text on top of the C17 reference scanner
(`Spec/FortranRef.lean`), NOT from the code: a preprocessor directive line (R6) is a unit of its own — it is what a
conditional tests or what a conditional selects as a whole — and the counted lines between two directive lines (statement
text, sentinel comments; blank and comment lines left out) are selected or skipped TOGETHER by the conditionals around
them.  So the counted lines of a text fall into groups: one per directive line, one per maximal run of counted
non-directive lines between directive lines.  A `#` line whose first token is `##` (`isPasteLine`) is counted by the
reference like every `#` line but is not a directive: it belongs to the run of counted lines around it.  (Inside the reference's `WF` a directive never stands inside a continued
statement, so a group never cuts a statement.)

Core Lean only.
-/
namespace CbiVerif.Fortran

/-- the text of a `#` line (after leading blanks) starts with `##`: its first token is the paste operator `##`, not `#`, so
    by the property's reading ("a directive is a line whose first token is `#`") it is NOT a preprocessor directive but
    counted text that is selected or skipped together with the counted lines around it -/
def isPasteLine : List Char → Bool
  | [] => false
  | c :: cs => if pyIsSpace c then isPasteLine cs else c == '#' && cs.head? == some '#'

def flushGroup (acc : List Nat) : List (Bool × List Nat) := if acc.isEmpty then [] else [(false, acc)]

/-- `n` lines read so far, `acc` the open group of counted non-directive lines; per line the verdict of the reference -/
def refNodesAux : Nat → List Nat → List (List Char) → List (Bool × Bool) → List (Bool × List Nat)
  | n, acc, l :: ls, (c, _) :: r =>
    if isDirectiveLine l && !isPasteLine l then flushGroup acc ++ (true, [n + 1]) :: refNodesAux (n + 1) [] ls r
    else refNodesAux (n + 1) (if c then acc ++ [n + 1] else acc) ls r
  | _, acc, _, _ => flushGroup acc

/-- the groups (is a directive, physical lines) of a text the reference accepts; `[]` outside `WF` -/
def refNodes (s : String) : List (Bool × List Nat) :=
  match refText s with
  | some r => refNodesAux 0 [] (textLines s) r
  | none => []

end CbiVerif.Fortran
