import CbiVerif.PP.Analyse
import CbiVerif.Lemmas.MacroObjSpec
import CbiVerif.Lemmas.MacroDefined
import CbiVerif.Lemmas.MacroPlainCheck
/-! Helper lemmas for the composition theorems of `Props/C01.lean`: the value the end-to-end models give to a controlling
expression (`PP.condValue`, `Model/ExpandPP.lean`) in terms of the two proved components, the total expander `MX.cbiExpand`
(C03) and the evaluator `Eval.cbiEval` (C02); top-level corollaries of the `defined` step lemmas (`Lemmas/MacroDefined.lean`)
for the token lists `#ifdef X` / `#ifndef X` are parsed to. -/
namespace CbiVerif.MX
open CbiVerif.PP

/-- holds for every non-zero regenerated `max_level` -/
theorem lim_ne_zero : realCfg.lim ≠ 0 := by
  have : CbiVerif.Gen.maxLevel ≠ 0 := by decide
  simpa only [realCfg] using this

theorem run_succ_cont (c : Cfg) (tbl : Table) (f : Nat) (s s' : MS) (h : step c tbl s = .cont s') :
    run c tbl (f + 1) s = run c tbl f s' := by
  rw [run, h]

/-- a run that ends within `k` iterations ends under the fuel `cbiExpand` grants -/
theorem cbiExpand_of_run (tbl : Table) (t : Tok) (ts r : List Tok) (k : Nat)
    (h : run realCfg tbl k (initState (t :: ts)) = .ok r) (hk : k ≤ 4000000) : cbiExpand tbl (t :: ts) = .ok r := by
  unfold cbiExpand expandWith
  simp only [lim_ne_zero, if_false, List.isEmpty_cons, Bool.false_eq_true]
  exact run_mono_fuel realCfg tbl k _ _ h _ (by unfold fuelFor; omega)

/-- the last two iterations of a top-level run: the only stream is exhausted, `expand` returns it without its holes -/
theorem run_exhausted (tbl : Table) (L : List (Option Tok)) (n : Nat) (hn : n ≥ L.length) :
    run realCfg tbl 2 ⟨[⟨L, n, false⟩], [none], [], none⟩ = .ok (filterSome L) := by
  have h1 : step realCfg tbl ⟨[⟨L, n, false⟩], [none], [], none⟩ = .cont ⟨[], [], [], some (filterSome L)⟩ := by
    simp [step, eopState, hn]
  have h2 : step realCfg tbl ⟨[], [], [], some (filterSome L)⟩ = .done (filterSome L) := by simp [step]
  simp only [run, h1, h2]

/-- `defined ( X )` as a whole expression (what `#ifdef X` is parsed to): the single number token read from the table;
    `X` is consumed, never looked up for expansion — whatever `X` is defined as -/
theorem cbiExpand_defined_paren (tbl : Table) (dt lp x rp : Tok) (hd : dt.kind = .ident) (hdt : dt.text = "defined")
    (hlp : lp.text = "(") (hx : x.kind = .ident) (hrp : rp.text = ")") :
    cbiExpand tbl [dt, lp, x, rp] = .ok [numTok (isDefined tbl x.text) x.pw] := by
  have h1 := step_defined_paren realCfg tbl [] [] [] [none] [] false dt lp x rp hd hdt hlp hx hrp
  simp only [List.nil_append, List.length_nil, Nat.zero_add] at h1
  have h1' : step realCfg tbl (initState [dt, lp, x, rp]) = _ := h1
  have h2 := run_exhausted tbl [none, none, none, some (numTok (isDefined tbl x.text) x.pw)] 4 (by simp)
  refine cbiExpand_of_run tbl dt _ _ 3 ?_ (by omega)
  rw [show (3 : Nat) = 2 + 1 from rfl, run_succ_cont _ _ _ _ _ h1', h2]; simp [filterSome]

/-- `! defined ( X )` as a whole expression (what `#ifndef X` is parsed to) -/
theorem cbiExpand_not_defined_paren (tbl : Table) (bang dt lp x rp : Tok) (hb : bang.kind ≠ .ident) (hd : dt.kind = .ident)
    (hdt : dt.text = "defined") (hlp : lp.text = "(") (hx : x.kind = .ident) (hrp : rp.text = ")") :
    cbiExpand tbl [bang, dt, lp, x, rp] = .ok [bang, numTok (isDefined tbl x.text) x.pw] := by
  have hb' : (bang.kind != TKind.ident) = true := by simpa using hb
  have h0 : step realCfg tbl (initState [bang, dt, lp, x, rp])
      = .cont ⟨[⟨[some bang, some dt, some lp, some x, some rp], 1, false⟩], [none], [], none⟩ := by
    simp [step, initState, hb']
  have h1 := step_defined_paren realCfg tbl [some bang] [] [] [none] [] false dt lp x rp hd hdt hlp hx hrp
  simp only [List.cons_append, List.nil_append, List.length_cons, List.length_nil, Nat.zero_add] at h1
  have h2 := run_exhausted tbl [some bang, none, none, none, some (numTok (isDefined tbl x.text) x.pw)] 5 (by simp)
  refine cbiExpand_of_run tbl bang _ _ 4 ?_ (by omega)
  rw [show (4 : Nat) = (2 + 1) + 1 from rfl, run_succ_cont _ _ _ _ _ h0, run_succ_cont _ _ _ _ _ h1, h2]; simp [filterSome]

/-- `defined X` as a whole expression -/
theorem cbiExpand_defined_plain (tbl : Table) (dt x : Tok) (hd : dt.kind = .ident) (hdt : dt.text = "defined") (hx : x.kind = .ident)
    (hxp : x.text ≠ "(") : cbiExpand tbl [dt, x] = .ok [numTok (isDefined tbl x.text) x.pw] := by
  have h1 := step_defined_plain realCfg tbl [] [] [] [none] [] false dt x hd hdt hx hxp
  simp only [List.nil_append, List.length_nil, Nat.zero_add] at h1
  have h1' : step realCfg tbl (initState [dt, x]) = _ := h1
  have h2 := run_exhausted tbl [none, some (numTok (isDefined tbl x.text) x.pw)] 2 (by simp)
  refine cbiExpand_of_run tbl dt _ _ 3 ?_ (by omega)
  rw [show (3 : Nat) = 2 + 1 from rfl, run_succ_cont _ _ _ _ _ h1', h2]; simp [filterSome]

end CbiVerif.MX

namespace CbiVerif.PP
open CbiVerif.MX

/-- `condValue` spelled out over the two proved components -/
theorem condValue_eq (tbl : Table) (toks : List Tok) :
    condValue tbl toks =
      match cbiExpand tbl toks with
      | .ok ts => CbiVerif.Eval.evaluatePP ts
      | .error e => .error e
      | .fuel => .error (.other "ModelOutOfFuel") := by
  unfold condValue runExpandT
  cases cbiExpand tbl toks <;> rfl

theorem condValue_of_expand (tbl : Table) (toks ts : List Tok) (h : cbiExpand tbl toks = .ok ts) :
    condValue tbl toks = CbiVerif.Eval.evaluatePP ts := by
  rw [condValue_eq, h]

/-- the truth values of `evaluatePP` are those of the proved evaluator `Eval.cbiEval` on the tokens without their flags -/
theorem evaluatePP_ok_iff (ts : List Tok) (b : Bool) :
    CbiVerif.Eval.evaluatePP ts = .ok b ↔ CbiVerif.Eval.cbiEval (ts.map CbiVerif.Eval.eraseFlags) = .ok b := by
  unfold CbiVerif.Eval.evaluatePP
  cases h : CbiVerif.Eval.cbiEval (ts.map CbiVerif.Eval.eraseFlags) with
  | ok v => simp
  | error e =>
    cases e with
    | parse => simp
    | other n =>
      match n with
      | 0 => simp
      | 1 => simp
      | 2 => simp
      | 3 => simp
      | n + 4 => simp

/-- the evaluator on the number `defined` was replaced by -/
theorem evaluatePP_defined (tbl : Table) (n : String) (pw : Bool) :
    CbiVerif.Eval.evaluatePP [numTok (isDefined tbl n) pw] = .ok (tbl.get n).isSome := by
  unfold isDefined
  cases (tbl.get n).isSome <;> cases pw <;> rfl

theorem evaluatePP_not_defined (tbl : Table) (n : String) (pw : Bool) :
    CbiVerif.Eval.evaluatePP [mkTok .op "!" true, numTok (isDefined tbl n) pw] = .ok (!(tbl.get n).isSome) := by
  unfold isDefined
  cases (tbl.get n).isSome <;> cases pw <;> rfl

end CbiVerif.PP
