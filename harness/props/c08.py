"""C08 — translation units and platforms are analysed in isolation and compose.

Implementation: codebasin.finder.find (fresh Platform per database entry), codebasin.platform,
                codebasin.config.load_database, `-p` filtering in codebasin.__main__._main and
                codebasin.tree._tree (run in-process through the real entry points, and as
                subprocesses for a sample).
Model (Lean):   driver op "c08find":
                  cached = CbiVerif.FindCache.findC (semC fs): the total, fuelled model of finder.find WITH its
                           shared parse cache (the definition Part 3 of Props/C08.lean is about), all language
                           front ends; compared with the implementation on EVERY code base (also inside F-C08-1);
                  mixed  = its language-mixing log (FindCache.mixLog; NoMix <=> mixed == []);
                  cached_eq_ref = the conclusion of C08.find_cached_eq_findG_partial, evaluated;
                  model  = CbiVerif.FindInst.findI = FindFold.findG (analyseEntry fs): the C-family INSTANCE of the same
                           total engine (FindInst.semPP; C08.findI_is_engine), no partial def,
                  spec   = stateless union, pp = the state-threading run of that instance (FindInst.findPP;
                           C08.findI_eq_cached: equal to model on every input),
                  class_ok / model_eq_cached = hypothesis ClassOK and conclusion of
                           C08.findI_eq_cached_engine_partial, evaluated.
Property oracle (spec vs implementation): the property text applied to the implementation's own
                runs — every run happens in a forked child process, so a single-command run
                really starts from a fresh state:
                  full run  ==  union over single-command runs        (per platform, per node)
                  -p X run  ==  full run projected onto X             (per node; summary counts merged)
                  permuted databases / platform order == full run
                  random sub-configurations == union of their single-command runs (histories)
                  full run succeeds  <=>  every single-command run succeeds
Streams:        main / lang / paste (harness/gen/c08gen.py) and `tu` (harness/gen/c08tu.py, run_tu below): databases
                mixing entries with and without `directory`, conditional `#pragma once` with deliberate multiple
                inclusion, `__COUNTER__` conditions - state that is neither in the macro table nor in the once-list
                of the per-command Platform object.  Same oracles for every stream.
"""
from __future__ import annotations

import collections
import io
import itertools
import json
import os
import pickle
import re
import sys

from harness import core
from harness.gen import c08gen
from harness.gen import c08tu
from harness.gen import codebase as cbgen

KIND = {"CodeNode": "code", "IfNode": "ifk", "ElIfNode": "elifk", "ElseNode": "elsek", "EndIfNode": "endk",
        "DefineNode": "define", "UndefNode": "undef", "IncludeNode": "include", "PragmaNode": "pragma",
        "UnrecognizedDirectiveNode": "unrecognized"}
WARN_RE = re.compile(r"(.*?):(\d+): (user|system) include '(.*?)' not found")
C_EXT = (".c", ".h", ".cpp", ".cc", ".hpp", ".cxx", ".hxx", ".inc", ".cu", ".cuh")


# ---------------------------------------------------------------------------
# process isolation: every analysis runs in a forked child (fresh module state of codebasin:
# compiler definitions, argparse defaults, class attributes, parse trees)
# ---------------------------------------------------------------------------
def isolated(fn, *args):
    r, w = os.pipe()
    sys.stdout.flush()
    sys.stderr.flush()
    pid = os.fork()
    if pid == 0:
        code = 0
        try:
            os.close(r)
            try:
                out = fn(*args)
            except BaseException as e:  # noqa
                out = {"exc": type(e).__name__, "msg": str(e)[:300]}
            with os.fdopen(w, "wb") as f:
                pickle.dump(out, f)
        except BaseException:  # noqa
            code = 3
        finally:
            os._exit(code)
    os.close(w)
    with os.fdopen(r, "rb") as f:
        data = f.read()
    os.waitpid(pid, 0)
    if not data:
        return {"exc": "ChildDied", "msg": ""}
    return pickle.loads(data)


class _Cap:
    def __init__(self):
        import logging

        class H(logging.Handler):
            def __init__(s):
                super().__init__(level=logging.WARNING)
                s.recs = []

            def emit(s, r):
                s.recs.append(r.getMessage())

        self.h = H()


def _extract(st, codebase, cfg, d, recs):
    """observable result of one run, paths relative to the scratch directory d"""
    from codebasin.preprocessor import CodeNode

    files = {}
    for f in st.get_filenames():
        tree = st.get_tree(f)
        m = st.get_map(f)
        files[os.path.relpath(f, d)] = [[KIND[type(n).__name__], list(n.lines), sorted(m[n])]
                                        for n in tree.walk() if isinstance(n, CodeNode)]
    warns = []
    for msg in recs:
        mm = WARN_RE.match(msg)
        if mm:
            warns.append([mm.group(3), os.path.relpath(mm.group(1), d), int(mm.group(2)), mm.group(4)])
    setmap = {}
    if codebase is not None:
        for k, v in st.get_setmap(codebase).items():
            setmap[",".join(sorted(k))] = v
    return {"ok": files, "warns": sorted(warns), "setmap": setmap,
            "cfg": [[p, [{k: e[k] for k in ("file", "defines", "include_paths", "include_files")} for e in es]]
                    for p, es in cfg.items()],
            "codebase": sorted(codebase) if codebase is not None else []}


def child_main(d, toml, pflags, tool):
    """the real entry point (`codebasin` or `codebasin.tree`) in this (forked) process, with
    finder.find wrapped only to keep a reference to what it returns"""
    import logging

    import codebasin.finder as F

    root = os.path.join(d, "cb")
    os.chdir(root)
    cap = {}
    orig = F.find

    def spy(rootdir, codebase, configuration, **kw):
        kw["show_progress"] = False
        st = orig(rootdir, codebase, configuration, **kw)
        cap.update(st=st, cfg=configuration, codebase=codebase)
        return st

    F.find = spy
    c = _Cap()
    lg = logging.getLogger("codebasin")
    lg.addHandler(c.h)
    # the report functions bind sys.stdout at import time: capture at the descriptor level
    out_path = os.path.join(d, "var", f"stdout_{os.getpid()}.txt")
    fd = os.open(out_path, os.O_WRONLY | os.O_CREAT | os.O_TRUNC)
    os.dup2(fd, 1)
    os.dup2(os.open(os.devnull, os.O_WRONLY), 2)
    pf = [x for p in pflags for x in ("-p", p)]
    code = None
    try:
        if tool == "tree":
            import codebasin.tree as T

            lg.setLevel(logging.DEBUG)
            T._tree(T._build_parser().parse_args(pf + [toml]))
        else:
            import codebasin.__main__ as M

            sys.argv = ["codebasin", "-R", "summary"] + pf + [toml]
            M._main()
    except SystemExit as e:
        code = e.code
    if "st" not in cap:
        return {"exc": "NoFind", "msg": f"exit {code}"}
    out = _extract(cap["st"], cap["codebase"], cap["cfg"], d, c.h.recs)
    sys.stdout.flush()
    with open(out_path) as f:
        out["stdout"] = f.read()
    return out


def child_find(d, plat_cmds, tag):
    """finder.find on an explicit ordered configuration (platform -> commands), through the
    real load_database"""
    import logging

    from codebasin import CodeBase, config, finder

    root = os.path.join(d, "cb")
    os.chdir(root)
    c = _Cap()
    lg = logging.getLogger("codebasin")
    lg.setLevel(logging.WARNING)
    lg.addHandler(c.h)
    os.dup2(os.open(os.devnull, os.O_WRONLY), 2)
    cfg = {}
    for name, cmds in plat_cmds:
        db = os.path.join(d, "var", f"{tag}_{name}.json")
        with open(db, "w") as g:
            json.dump([c08gen.db_entry(x, root) for x in cmds], g)
        cfg[name] = config.load_database(db, root)
    cb = CodeBase(root)
    st = finder.find(root, cb, cfg)
    return _extract(st, cb, cfg, d, c.h.recs)


# ---------------------------------------------------------------------------
# views of a result
# ---------------------------------------------------------------------------
def triples(res):
    """{(file, node index, platform)}"""
    return {(f, i, p) for f, nodes in res["ok"].items() for i, n in enumerate(nodes) for p in n[2]}


def by_platform(res, p):
    return {(f, i) for (f, i, q) in triples(res) if q == p}


def lines_of(res_list, keys):
    """physical lines of the nodes (for messages)"""
    out = []
    for (f, i) in sorted(keys)[:6]:
        for r in res_list:
            if f in r.get("ok", {}) and i < len(r["ok"][f]):
                out.append(f"{f}:{r['ok'][f][i][1]}")
                break
    return out


def project_setmap(setmap, X):
    out = collections.Counter()
    for k, v in setmap.items():
        ks = [p for p in k.split(",") if p and p in X]
        out[",".join(sorted(ks))] += v
    return {k: v for k, v in out.items()}


def nz(sm):
    return {k: v for k, v in sm.items() if v}


# ---------------------------------------------------------------------------
# known findings (classifiers are predicates on the concrete failing input)
# ---------------------------------------------------------------------------
def _family(path):
    ext = os.path.splitext(path)[1]
    if ext in (".f90", ".F90"):
        return "fortran"
    if ext in (".s", ".S", ".asm"):
        return "asm"
    return "c"


def is_lang_case(case):
    """F-C08-1: a file that is not in the code base (so it is parsed on first inclusion, in the
    includer's language) is included by translation units of different language families"""
    desc = case["desc"]
    if case.get("model_mixed") == []:
        # the model of the shared parse cache ran on this very input — the full configuration and
        # every single-command configuration — and logged no language-mixing event (FindCache.NoMix
        # holds for all of them): by C08.find_cached_eq_findG_partial / cached_union_of_commands_partial
        # all these runs are inside the proved part, so a discrepancy is NOT this finding
        return False
    from_src = collections.defaultdict(set)
    cmds = [c for cs in desc["platforms"].values() for c in cs]
    fams = {c["file"]: _family(c["file"]) for c in cmds}
    for rel, text in desc["texts"].items():
        base = os.path.basename(rel)
        in_cb = rel.startswith("cb/") and os.path.splitext(rel)[1] in (
            ".f90", ".F90", ".c", ".h", ".cpp", ".cc", ".hpp", ".cxx", ".hxx", ".inc", ".S", ".s", ".asm")
        if in_cb:
            continue
        for f, fam in fams.items():
            t = desc["texts"].get("cb/" + f, "")
            if re.search(r'#\s*include\s*["<]' + re.escape(base) + '[">]', t):
                from_src[rel].add(fam)
    return any(len(v) >= 2 for v in from_src.values())


PASTE_RE = re.compile(r"#\s*define\s+(\w+)\(([^)]*)\)(.*)")


def is_paste_case(case):
    """F-C08-2: a function-like macro whose replacement stringifies a parameter (#p) and later
    pastes the same parameter (p ## …) is invoked in a computed #include"""
    desc = case["desc"]
    macros = set()
    for text in desc["texts"].values():
        for line in text.splitlines():
            m = PASTE_RE.match(line.strip())
            if not m:
                continue
            for prm in [x.strip() for x in m.group(2).split(",") if x.strip()]:
                body = m.group(3)
                s = re.search(r"#\s*" + re.escape(prm) + r"\b", body)
                if s and re.search(r"\b" + re.escape(prm) + r"\s*##", body[s.end():]):
                    macros.add(m.group(1))
    if not macros:
        return False
    for text in desc["texts"].values():
        for line in text.splitlines():
            m = re.match(r"\s*#\s*include\s+(\w+)\s*\(", line)
            if m and m.group(1) in macros:
                return True
    return False


CLASSIFIERS = [("F-C08-1", is_lang_case), ("F-C08-2", is_paste_case)]


def known_class(ctx, case):
    for fid, pred in CLASSIFIERS:
        for k in ctx.known:
            if k["id"] == fid and pred(case):
                return k
    return None



# ---------------------------------------------------------------------------
# minimisation of a failing code base (oracle: full run vs union of single-command runs)
# ---------------------------------------------------------------------------
def union_mismatch(d, desc):
    """platforms whose full-run attribution differs from the union of their single-command runs
    (or ['*'] if success does not compose); [] if the composition holds"""
    plats = [p for p in desc["platforms"] if desc["platforms"][p]]
    if not plats:
        return []
    full = isolated(child_find, d, [(p, desc["platforms"][p]) for p in plats], "sfull")
    single = {(p, i): isolated(child_find, d, [(p, [c])], f"sone_{p}_{i}")
              for p in plats for i, c in enumerate(desc["platforms"][p])}
    oks = all("ok" in x for x in single.values())
    if ("ok" in full) != oks:
        return ["*"]
    if "ok" not in full:
        return []
    out = []
    for p in plats:
        want = set()
        for i in range(len(desc["platforms"][p])):
            want |= by_platform(single[(p, i)], p)
        if by_platform(full, p) != want:
            out.append(p)
    return out


def shrink(desc, budget_s=20.0):
    """greedy: drop platforms, commands, files, then lines, while the composition still fails"""
    import copy
    import time

    t0 = time.time()

    def fails(cand):
        with core.Scratch() as d0:
            d = os.path.realpath(d0)
            c08gen.write(d, cand)
            return bool(union_mismatch(d, cand))

    cur = copy.deepcopy(desc)
    if not fails(cur):
        return None
    changed = True
    while changed and time.time() - t0 < budget_s:
        changed = False
        for p in list(cur["platforms"]):
            if len(cur["platforms"]) > 1:
                cand = copy.deepcopy(cur)
                del cand["platforms"][p]
                if fails(cand):
                    cur, changed = cand, True
                    continue
            for i in reversed(range(len(cur["platforms"].get(p, [])))):
                if time.time() - t0 > budget_s:
                    break
                cand = copy.deepcopy(cur)
                del cand["platforms"][p][i]
                if sum(len(v) for v in cand["platforms"].values()) >= 1 and fails(cand):
                    cur, changed = cand, True
        used = {"cb/" + c["file"] for cs in cur["platforms"].values() for c in cs}
        for f in list(cur["texts"]):
            if f in used or time.time() - t0 > budget_s:
                continue
            cand = copy.deepcopy(cur)
            del cand["texts"][f]
            if fails(cand):
                cur, changed = cand, True
    # lines (one pass, largest files first)
    for f in sorted(cur["texts"], key=lambda x: -len(cur["texts"][x])):
        lines = cur["texts"][f].split("\n")
        i = 0
        while i < len(lines) and time.time() - t0 < budget_s:
            cand = copy.deepcopy(cur)
            cand["texts"][f] = "\n".join(lines[:i] + lines[i + 1:])
            if lines[i] and fails(cand):
                lines = lines[:i] + lines[i + 1:]
                cur = cand
            else:
                i += 1
    cur["features"] = desc["features"] + ["minimised"]
    return cur

# ---------------------------------------------------------------------------
# one code base
# ---------------------------------------------------------------------------
def model_request(d, desc, res, select=(), pp=False, lite=False):
    files = {os.path.join(d, p): t for p, t in desc["texts"].items()}
    return {"op": "c08find", "files": files, "codebase": res["codebase"],
            "config": [{"name": p, "entries": es} for p, es in res["cfg"]], "select": list(select), "pp": pp,
            "lite": lite}


def model_view(m, d):
    """driver result -> same shape as the implementation's"""
    if m is None or "ok" not in m:
        return {"exc": (m or {}).get("exc", "?")}
    return {"ok": {os.path.relpath(f, d): [[k, l, sorted(ps)] for k, l, ps in nodes] for f, nodes in m["ok"].items()},
            "warns": sorted([w[0], os.path.relpath(w[1], d), w[2], w[3]] for w in m["warns"])}


def same_attr(impl, model):
    """implementation result vs model result: the model lists every file it was given; the
    implementation only those it parsed — a file missing on one side must have no attribution"""
    if ("ok" in impl) != ("ok" in model):
        return False, "one side raised"
    if "ok" not in impl:
        return True, ""
    for f in set(impl["ok"]) | set(model["ok"]):
        a, b = impl["ok"].get(f), model["ok"].get(f)
        if a is None or b is None:
            if any(n[2] for n in (a or b)):
                return False, f"{f}: attributed on one side only"
            continue
        if a != b:
            return False, f"{f}: nodes differ"
    if impl["warns"] != model["warns"]:
        return False, "warnings differ"
    return True, ""


def check_codebase(ctx, drv, desc, origin, cli=False, only=None):
    """returns a report dict (also used by replay)"""
    rng = ctx.rng
    rep = {"origin": origin, "checks": []}
    plats = list(desc["platforms"])
    allcmds = [(p, i) for p in plats for i in range(len(desc["platforms"][p]))]
    case = {"desc": desc, "origin": origin}
    with core.Scratch() as d0:
        d = os.path.realpath(d0)
        c08gen.write(d, desc)
        full_cfg = [(p, desc["platforms"][p]) for p in plats]
        toml = c08gen.write_variant(d, "full", full_cfg)
        full = isolated(child_main, d, toml, [], "main")
        rep["full"] = {k: full.get(k) for k in ("exc", "msg", "setmap", "warns")}
        rep["full"]["cfg_view"] = _cfg_view(full, d)
        ctx.count(key=f"stream={desc['stream']};platforms={len(plats)};commands={len(allcmds)}")
        for ft in desc["features"]:
            ctx.dist["feature:" + ft] += 1
        # ---- the Lean models on the full configuration (asked first: the mixing log of the cached
        # model is the decidable hypothesis NoMix of the theorems, evaluated on this input)
        m = None
        if drv is not None and "cfg" in full:
            m = drv.ask(model_request(d, desc, full, pp=(desc["stream"] != "lang")))
            if isinstance(m.get("mixed"), list):
                ctx.dist["NoMix(full):" + ("holds" if not m["mixed"] else "fails")] += 1
                rep["model_mixed_full"] = m["mixed"]

        def bad(what, **extra):
            c = dict(case, what=what, **extra)
            rep["checks"].append({"violation": what, **{k: v for k, v in extra.items()}})
            verdict = ctx.classify(c, what, CLASSIFIERS)
            if verdict == "violation" and origin != "replay" and not ctx.extra.get("minimised") \
                    and ("union of its single-command" in what or "single-command runs:" in what):
                ctx.extra["minimised"] = True  # once per check run
                small = shrink(desc)
                if small is not None:
                    ctx.violations.insert(0, ("[minimised] " + what, {"desc": small, "origin": origin + ":minimised", "what": what}))
                    ctx.extra["minimised"] = "first union violation reduced from %d to %d text lines" % (
                        sum(t.count("\n") for t in desc["texts"].values()), sum(t.count("\n") for t in small["texts"].values()))
            return verdict

        # ---- single-command runs (fresh process each)
        single = {}
        for (p, i) in allcmds:
            single[(p, i)] = isolated(child_find, d, [(p, [desc["platforms"][p][i]])], f"one_{p}_{i}")
            ctx.count(key="run:single")
        # the decidable hypothesis of the composition theorems for the cached run, evaluated: the
        # mixing logs of the full configuration and of every single-command configuration
        if m is not None and isinstance(m.get("mixed"), list) and all("cfg" in s for s in single.values()):
            allmix = list(m["mixed"])
            for (p, i), s1 in single.items():
                m1 = drv.ask(model_request(d, desc, s1, lite=True))
                ctx.count(key="corr:c08find-cached-single")
                allmix += m1.get("mixed") or []
                c1 = model_view(m1.get("cached"), d)
                ok1, why1 = same_attr(s1, c1)
                if not ok1:
                    ctx.corr_break("c08find:cached-single", {"desc": desc, "platform": p, "command": i, "why": why1},
                                   _small(s1), _small(c1))
            case["model_mixed"] = allmix
            ctx.dist["NoMix(full and singles):" + ("holds" if not allmix else "fails")] += 1
        if origin == "replay":
            rep["single_cfg_view"] = {f"{p}[{i}]": _cfg_view(s1, d).get(p) for (p, i), s1 in single.items()}
        ok_singles = all("ok" in s for s in single.values())
        rep["single_fail"] = [f"{p}[{i}]: {s.get('exc')} {s.get('msg', '')[:80]}" for (p, i), s in single.items() if "ok" not in s]
        # success composes
        if ("ok" in full) != ok_singles:
            bad(f"full run {'succeeds' if 'ok' in full else 'raises ' + str(full.get('exc'))} but single-command runs: "
                f"{rep['single_fail'] or 'all succeed'}")
        if "ok" in full:
            ctx.dist["full:ok"] += 1
        else:
            ctx.dist["full:exception"] += 1
        state_matters = False
        if "ok" in full and ok_singles:
            # ---- union of commands, per platform
            for p in plats:
                want = set()
                for i in range(len(desc["platforms"][p])):
                    want |= by_platform(single[(p, i)], p)
                got = by_platform(full, p)
                if got != want:
                    diff = got ^ want
                    bad(f"platform {p}: full run != union of its single-command runs at "
                        f"{lines_of([full] + list(single.values()), diff)} "
                        f"(only in full: {len(got - want)}, only in union: {len(want - got)})", platform=p)
            rep["per_platform"] = {}
            for p in plats:
                un = set()
                for i in range(len(desc["platforms"][p])):
                    un |= by_platform(single[(p, i)], p)
                rep["per_platform"][p] = {"implementation_full": _lines(full, by_platform(full, p)),
                                          "union_of_single_command_runs": _lines_multi(list(single.values()), un)}
            # non-triviality: two commands visit a common file with different outcomes
            seen = collections.defaultdict(set)
            for (p, i), s in single.items():
                for f, nodes in s["ok"].items():
                    sig = tuple(bool(n[2]) for n in nodes)
                    if any(sig):
                        seen[f].add(sig)
            state_matters = any(len(v) >= 2 for v in seen.values())
            if state_matters and len(allcmds) >= 2:
                ctx.nontrivial.add(json.dumps([desc["texts"], desc["platforms"]], sort_keys=True))
            # ---- -p subsets through the real front end
            subsets = [list(s) for r in range(1, len(plats) + 1) for s in itertools.combinations(plats, r)]
            if len(subsets) > ctx.n(7, 15):
                subsets = rng.sample(subsets, ctx.n(7, 15))
            for X in subsets:
                flags = X[:]
                rng.shuffle(flags)
                tool = "tree" if rng.random() < 0.25 else "main"
                sub = isolated(child_main, d, toml, flags, tool)
                ctx.count(key="run:-p/" + tool)
                if "ok" not in sub:
                    bad(f"-p {X} raises {sub.get('exc')} {sub.get('msg')} although the full run succeeds", select=X)
                    continue
                want = {t for t in triples(full) if t[2] in X}
                got = triples(sub)
                if got != want:
                    diff = {(f, i) for (f, i, _) in got ^ want}
                    bad(f"-p {X} ({tool}): attribution is not the projection of the full run at "
                        f"{lines_of([full, sub], diff)}", select=X)
                if nz(sub["setmap"]) != nz(project_setmap(full["setmap"], X)):
                    bad(f"-p {X}: setmap {nz(sub['setmap'])} != projection of the full setmap "
                        f"{nz(project_setmap(full['setmap'], X))}", select=X)
                if tool == "main":
                    rows, total, _ = cbgen.parse_summary(sub["stdout"])
                    printed = {",".join(sorted(k)): v[0] for k, v in rows.items()}
                    if nz(printed) != nz(project_setmap(full["setmap"], X)) or total != sum(full["setmap"].values()):
                        bad(f"-p {X}: printed summary {printed} (total {total}) != projection of the full run "
                            f"{project_setmap(full['setmap'], X)}", select=X)
            # ---- permutations of the database entries and of the platform order
            for k in range(ctx.n(2, 4)):
                order = plats[:]
                rng.shuffle(order)
                pc = []
                for p in order:
                    cmds = desc["platforms"][p][:]
                    rng.shuffle(cmds)
                    pc.append((p, cmds))
                if k % 2 == 0:
                    perm = isolated(child_main, d, c08gen.write_variant(d, f"perm{k}", pc), [], "main")
                else:
                    perm = isolated(child_find, d, pc, f"permf{k}")
                ctx.count(key="run:permutation")
                if "ok" not in perm:
                    bad(f"permuted configuration raises {perm.get('exc')}", order=[[p, [c['file'] for c in cs]] for p, cs in pc])
                elif triples(perm) != triples(full):
                    diff = {(f, i) for (f, i, _) in triples(perm) ^ triples(full)}
                    bad(f"attribution changes with the order of commands/platforms at {lines_of([full, perm], diff)}",
                        order=[[p, [c["arguments"] for c in cs]] for p, cs in pc])
            # ---- histories: random sub-configurations (prefixes / subsets of the commands)
            for k in range(ctx.n(2, 5)):
                chosen = [c for c in allcmds if rng.random() < 0.6] or [rng.choice(allcmds)]
                rng.shuffle(chosen)
                pc = collections.OrderedDict()
                for (p, i) in chosen:
                    pc.setdefault(p, []).append(desc["platforms"][p][i])
                hist = isolated(child_find, d, list(pc.items()), f"hist{k}")
                ctx.count(key="run:history")
                if "ok" not in hist:
                    bad(f"sub-configuration raises {hist.get('exc')}", chosen=chosen)
                    continue
                for p in pc:
                    want = set()
                    for (q, i) in chosen:
                        if q == p:
                            want |= by_platform(single[(q, i)], p)
                    got = by_platform(hist, p)
                    if got != want:
                        bad(f"platform {p} in the sub-configuration {chosen}: != union of its single-command runs at "
                            f"{lines_of([hist] + list(single.values()), got ^ want)}", chosen=chosen, platform=p)
            # ---- argument parsing composes (load_database of the whole database vs of each command)
            for p in plats:
                fe = [e for q, es in full["cfg"] if q == p for e in es]
                se = [e for i in range(len(desc["platforms"][p])) for q, es in single[(p, i)]["cfg"] for e in es]
                key = lambda e: json.dumps(e, sort_keys=True)  # noqa
                if sorted(map(key, fe)) != sorted(map(key, se)):
                    bad(f"platform {p}: load_database of the whole database yields other entries than the commands "
                        f"loaded one by one", platform=p)
        # ---- real CLIs (fresh interpreters) on a sample
        if cli and "ok" in full and plats:
            root = os.path.join(d, "cb")
            c08gen.write_variant(d, "cli", full_cfg, in_root=True)
            X = sorted(rng.sample(plats, rng.randint(1, len(plats))))
            pf = [x for p in X for x in ("-p", p)]
            rc, out, err = core.run_cli("codebasin", ["-R", "summary"] + pf + ["analysis.toml"], cwd=root)
            ctx.count(key="run:cli-codebasin")
            rows, total, _ = cbgen.parse_summary(out)
            printed = {",".join(sorted(k)): v[0] for k, v in rows.items()}
            if rc != 0 or nz(printed) != nz(project_setmap(full["setmap"], X)):
                bad(f"`codebasin -p {X}` (rc {rc}) prints {printed}, projection of the unfiltered in-process run is "
                    f"{project_setmap(full['setmap'], X)}", select=X, cli="codebasin")
            rc, out, err = core.run_cli("codebasin.tree", pf + ["analysis.toml"], cwd=root)
            ctx.count(key="run:cli-tree")
            trows = cbgen.parse_tree(out)
            want_total = sum(full["setmap"].values())
            if rc != 0 or not trows or trows[0][1] != str(want_total):
                bad(f"`cbi-tree -p {X}` (rc {rc}) root SLOC {trows[0][1] if trows else None} != {want_total}", select=X, cli="tree")
            else:
                legend = dict(re.findall(r"^([A-Z]): (\S+)$", cbgen.ANSI.sub("", out), re.M))
                used = {p for k, v in project_setmap(full["setmap"], X).items() if v for p in k.split(",") if p}
                if set(legend.values()) != used:
                    bad(f"`cbi-tree -p {X}` legend {sorted(legend.values())} != platforms using a line {sorted(used)}", select=X, cli="tree")
        # ---- correspondence 1: the total model WITH the shared parse cache (every stream, every language)
        if m is not None and "cached" in m:
            cv = model_view(m.get("cached"), d)
            okc, whyc = same_attr(full, cv)
            mixed = m.get("mixed") or []
            rep["cached_model"] = {"agrees_with_implementation": okc, "why": whyc, "exc": cv.get("exc"),
                                   "mixing_events": [[os.path.relpath(x[0], d), x[1], x[2]] for x in mixed],
                                   "equals_findG_of_cache_free_analysis": m.get("cached_eq_ref")}
            if "ok" in cv and "per_platform" in rep:
                for p in plats:
                    rep["per_platform"][p]["cached_model"] = _lines(cv, by_platform(cv, p))
            ctx.count(key="corr:c08find-cached")
            if not okc:
                ctx.corr_break("c08find:cached", {"desc": desc, "why": whyc}, _small(full), _small(cv))
            if not mixed and m.get("cached_eq_ref") is not True:
                ctx.notes.append(f"driver: NoMix but findC != findRefG on {origin} (contradicts find_cached_eq_findG_partial)")
                ctx.corr_break("c08find:cached-vs-ref", {"desc": desc}, m.get("cached_eq_ref"), True)
            if mixed:
                ctx.dist["mixing:cached==findG" if m.get("cached_eq_ref") else "mixing:cached!=findG"] += 1
        # ---- correspondence 2: the C-family instance of the generic fold (no Fortran/asm front end there)
        if m is not None and desc["stream"] != "lang":
            mv, sv, pv = model_view(m.get("model"), d), model_view(m.get("spec"), d), model_view(m.get("pp"), d)
            ok, why = same_attr(full, mv)
            rep["model"] = {"agrees_with_implementation": ok, "why": why, "exc": mv.get("exc"),
                            "model_equals_spec": mv == sv}
            if "ok" in mv and "per_platform" in rep:
                for p in plats:
                    rep["per_platform"][p]["model"] = _lines(mv, by_platform(mv, p))
                    if "ok" in sv:
                        rep["per_platform"][p]["spec"] = _lines(sv, by_platform(sv, p))
            ctx.count(key="corr:c08find")
            if not ok:
                kf = known_class(ctx, case)
                if kf:
                    # inside a recorded finding's class the implementation is known to leave the
                    # model (= the property's reference); that is the finding, not a broken tie
                    ctx.known_finding(kf["id"], kf["what_fails"])
                    ctx.dist["model-disagrees-inside-known-finding"] += 1
                else:
                    ctx.corr_break("c08find", {"desc": desc, "why": why}, _small(full), _small(mv))
            if mv != sv:
                ctx.notes.append(f"driver: model != spec on {origin} (contradicts theorem findI_eq_specI)")
                ctx.corr_break("c08find:model-vs-spec", {"desc": desc}, _small(mv), _small(sv))
            okp, whyp = same_attr(mv, pv)
            if not okp:
                ctx.dist["pp.find!=findI"] += 1
                ctx.notes.append(f"state-threading run findPP differs from findI on {origin}: {whyp} "
                                 "(contradicts findI_eq_cached)")
                if "pp" in m:
                    ctx.corr_break("c08find:pp", {"desc": desc, "why": whyp}, _small(mv), _small(pv))
            # the engine-agreement theorem, evaluated: ClassOK and NoMix => findI == findC (semC fs), exactly
            if isinstance(m.get("class_ok"), bool):
                ctx.dist["ClassOK(full):" + ("holds" if m["class_ok"] else "fails")] += 1
                if m["class_ok"] and not (m.get("mixed") or []):
                    ctx.count(key="corr:c08find-engines")
                    if m.get("model_eq_cached") is not True:
                        ctx.notes.append(f"driver: ClassOK and NoMix but findI != findC on {origin} "
                                         "(contradicts findI_eq_cached_engine_partial)")
                        ctx.corr_break("c08find:engines", {"desc": desc}, m.get("model_eq_cached"), True)
            # three-way: with no mixing event the cached total model and the generic-fold instance agree
            if "cached" in m and not (m.get("mixed") or []):
                okm, whym = same_attr(model_view(m.get("cached"), d), mv)
                if not okm:
                    ctx.dist["findC!=findI"] += 1
                    ctx.notes.append(f"total cached model findC differs from findI on {origin}: {whym}")
            # the model of -p
            if "ok" in full and plats and "ok" in mv:
                X = sorted(rng.sample(plats, rng.randint(1, len(plats))))
                mxr = drv.ask(model_request(d, desc, full, select=X))
                mx = model_view(mxr.get("model"), d)
                want = {t for t in triples(full) if t[2] in X}
                ctx.count(key="corr:c08find-select")
                if ("ok" not in mx or triples(mx) != want) and not known_class(ctx, case):
                    ctx.corr_break("c08find-select", {"desc": desc, "select": X}, sorted(want)[:20],
                                   sorted(triples(mx))[:20] if "ok" in mx else mx)
                # … and of the cached model: under NoMix (full and selected run) it is the projection
                cx = model_view(mxr.get("cached"), d)
                if not (m.get("mixed") or []) and not (mxr.get("mixed") or []):
                    ctx.count(key="corr:c08find-cached-select")
                    if "ok" not in cx or triples(cx) != want:
                        ctx.corr_break("c08find-cached-select", {"desc": desc, "select": X}, sorted(want)[:20],
                                       sorted(triples(cx))[:20] if "ok" in cx else cx)
        rep["state_matters"] = state_matters
    return rep


def _cfg_view(res, d):
    """what load_database made of the databases: per platform [file, include directories] relative to the scratch directory"""
    if "cfg" not in res:
        return {}
    return {p: [[os.path.relpath(e["file"], d), [os.path.relpath(x, d) for x in e["include_paths"]]] for e in es]
            for p, es in res["cfg"]}


def _lines(res, keys):
    out = collections.defaultdict(list)
    for (f, i) in sorted(keys):
        out[f] += res["ok"][f][i][1]
    return {f: sorted(v) for f, v in out.items()}


def _lines_multi(results, keys):
    out = collections.defaultdict(set)
    for (f, i) in keys:
        for r in results:
            if f in r.get("ok", {}) and i < len(r["ok"][f]):
                out[f] |= set(r["ok"][f][i][1])
                break
    return {f: sorted(v) for f, v in sorted(out.items())}


def _small(res):
    if "ok" not in res:
        return res
    return {"ok": {f: n for f, n in res["ok"].items() if any(x[2] for x in n)}, "warns": res.get("warns")}


# ---------------------------------------------------------------------------
def preimport():
    """import (only import) everything the children need, so that a fork is cheap; no codebasin
    function is ever called in this process"""
    core.import_codebasin()
    import codebasin.__main__  # noqa
    import codebasin.config  # noqa
    import codebasin.finder  # noqa
    import codebasin.report  # noqa
    import codebasin.tree  # noqa
    _memoise_schema_check()


_CHECKED = {}


def _memoise_schema_check():
    """jsonschema.validate() re-checks the (static) schema against its meta-schema on every call
    (0.03-0.2 s each; it dominated the cost of a run).  The harness memoises that meta-check per
    schema text; the validation of the instance is unchanged."""
    import pkgutil

    import jsonschema
    from jsonschema import exceptions, validators

    if getattr(jsonschema.validate, "_c08", False):
        return

    def validate(instance, schema, cls=None, *args, **kwargs):
        key = json.dumps(schema, sort_keys=True)
        v = _CHECKED.get(key)
        if v is None:
            c = cls or validators.validator_for(schema)
            c.check_schema(schema)
            v = _CHECKED[key] = c(schema, *args, **kwargs)
        err = exceptions.best_match(v.iter_errors(instance))
        if err is not None:
            raise err

    validate._c08 = True
    jsonschema.validate = validate
    for name in ("analysis.schema", "compilation-database.schema", "coverage.schema", "cbiconfig.schema"):
        data = pkgutil.get_data("codebasin", "schema/" + name)
        if data:
            schema = json.loads(data)
            key = json.dumps(schema, sort_keys=True)
            c = validators.validator_for(schema)
            c.check_schema(schema)
            _CHECKED[key] = c(schema)


def run(ctx, drv):
    preimport()
    ctx.rule = (
        "generated code bases (2-4 shared headers with guards / #pragma once / none, nested and computed includes, the "
        "same header name in two -I directories, -include files, headers outside the code base, function-like macros "
        "in #if, -D sets differing per command, multi-pass compilers and a user-defined extend_match compiler; a stream "
        "with C / Fortran / assembler includers of one header that is outside or inside the code base and may include "
        "a second foreign file; a stream `tu` of small code bases with state a translation unit can leave outside its "
        "macro table: compilation databases mixing entries with and without `directory` (root / sub-directories, "
        "relative and absolute, `file` and -I spelled relative to the entry's directory, the same spellings below "
        "several directories), headers whose `#pragma once` sits under a conditional and that are included several "
        "times on purpose with other WANT_* switches by units in which the condition is true and units in which it is "
        "false, `#if` / `#elif` on `__COUNTER__` in >= 2 units), 1-4 "
        "platforms; every analysis runs in its own forked process. Per code base: full run vs the union of all "
        "single-command runs, <=7 (quick) / <=15 (thorough) -p subsets through the real _main/_tree, permutations of "
        "commands and platforms, random sub-configurations, load_database whole vs per command, the Lean models (the "
        "total model with the shared parse cache on the full and on every single-command configuration, the "
        "generic-fold instance on the full configuration and one -p selection). "
        "Non-trivial = distinct code bases with >= 2 commands in which two single-command runs visit a common file "
        "with different active/inactive patterns (so per-command state decides the outcome)."
    )
    ctx.assumptions += [
        "a 'compile command analysed alone from a fresh state' is observed as: the tool run in a newly forked process "
        "on a configuration holding that single database command (all its compiler passes)",
        "attribution is compared per parse-tree node (kind, physical lines, platform set), which implies per line",
        "an entry without `directory` is read relative to the analysis root (what load_database documents); the "
        "single-command run of such an entry is a database holding that entry alone, loaded by the real load_database",
        "`__COUNTER__` conditions are judged by composition only (full == union of fresh single-command runs == any "
        "order == projection), never against a value: an implementation without the extension (identifier = 0) and "
        "one that restarts the sequence per translation unit both compose; the Lean model has no `__COUNTER__` "
        "(identifier = 0, as the pinned code), so adding the extension correctly would show as a correspondence break",
        "the generic-fold instance findI is the C-family instance (FindInst.semPP) of the one total engine of "
        "Model/Exclude.lean (C08.findI_is_engine); it equals the cached engine under the driver's semantics on inputs "
        "satisfying the decidable ClassOK and NoMix (C08.findI_eq_cached_engine_partial; both evaluated by the driver "
        "on every full configuration); the total model with the shared parse "
        "cache (FindCache.findC, the subject of the cache-transparency theorems) has all three front ends and is "
        "compared with the implementation on every stream, including the F-C08-1 stream (it reproduces the finding)",
        "F-C08-1 is accepted as the explanation of a discrepancy only if the cached model logged a language-mixing "
        "event on that input (NoMix fails); with NoMix the run is inside the proved part and a discrepancy is a violation",
        "warnings are compared with the model (correspondence) but a change of warnings alone is not counted as a "
        "violation of C08",
        "jsonschema's re-validation of codebasin's static schema files against the meta-schema is memoised by the "
        "harness (it dominated run time); the validation of the instances is unchanged",
        "findI does not thread the parse cache (ParserState.trees); findC does, and C08.find_cached_eq_findG_partial "
        "proves the two forms equal under NoMix; the state-threading port PP.find is run as well (distribution keys "
        "'pp.find!=findI', 'findC!=findI' count disagreements between the models)",
    ]
    # corpus first
    for f in sorted((core.VERIF / "corpus" / "C08").glob("*.json")):
        if f.name.startswith("tu_"):
            continue  # replayed by run_tu (under its own generator, so that the main stream is not shifted)
        c = json.loads(f.read_text())
        check_codebase(ctx, drv, c["desc"], "corpus:" + f.name)
    spent_tu = run_tu(ctx, drv)
    n = ctx.n(30, 300)
    for i in range(n):
        if ctx.elapsed() > (65 if not ctx.thorough() else 470) * max(1.0, ctx.budget_scale / 2) + spent_tu:
            ctx.notes.append(f"time budget reached after {i} code bases")
            break
        r = ctx.rng.random()
        if i == 1 or (i > 3 and r < 0.06):
            desc = c08gen.gen_lang(ctx.rng)
        elif i == 2 or (i > 3 and r < 0.12):
            desc = c08gen.gen_paste(ctx.rng)
        else:
            desc = c08gen.gen_main(ctx.rng)
        rep = check_codebase(ctx, drv, desc, f"seed{ctx.seed}:{i}", cli=(i % 7 == 3))
        if len(ctx.samples) < 4:
            ctx.sample({"origin": rep["origin"], "stream": desc["stream"], "features": desc["features"],
                        "platforms": {p: [c["arguments"] for c in cs] for p, cs in desc["platforms"].items()},
                        "files": sorted(desc["texts"]), "state_matters": rep.get("state_matters")})


def run_tu(ctx, drv):
    """stream `tu` (harness/gen/c08tu.py): databases mixing entries with / without `directory`, conditional
    `#pragma once` + deliberate multiple inclusion, `__COUNTER__` conditions.  Same oracles as every other
    code base (check_codebase).  The stream draws from a generator forked from ctx.rng WITHOUT advancing it, so
    the main stream below is the one it was before this stream existed.  Returns the seconds it took (the main
    loop's time budget is extended by that much)."""
    import random
    import time

    t0 = time.time()
    main_rng = ctx.rng
    probe = random.Random()
    probe.setstate(main_rng.getstate())
    ctx.rng = random.Random(probe.getrandbits(64) ^ 0xC08)
    limit = (15 if not ctx.thorough() else 60) * max(1.0, ctx.budget_scale / 2)
    try:
        for f in sorted((core.VERIF / "corpus" / "C08").glob("tu_*.json")):
            check_codebase(ctx, drv, json.loads(f.read_text())["desc"], "corpus:" + f.name)
        for i in range(ctx.n(14, 90)):
            if i >= 6 and time.time() - t0 > limit:
                ctx.notes.append(f"stream tu: time budget reached after {i} code bases")
                break
            force = ("dirs", "once", "counter")[i % 3] if i < 6 else None  # each shape twice, then free mixtures
            desc = c08tu.gen_tu(ctx.rng, force)
            for k in c08tu.shape(desc):
                ctx.dist["tu:" + k] += 1
            rep = check_codebase(ctx, drv, desc, f"seed{ctx.seed}:tu{i}")
            if i < 1 or (i == 1 and len(ctx.samples) < 2):
                ctx.sample({"origin": rep["origin"], "stream": "tu", "features": desc["features"],
                            "platforms": {p: [c08gen.db_entry(c, "$ROOT") for c in cs] for p, cs in desc["platforms"].items()},
                            "files": sorted(desc["texts"]), "state_matters": rep.get("state_matters")})
    finally:
        ctx.rng = main_rng
    return min(time.time() - t0, limit + 5)


def search(ctx, drv):
    run(ctx, drv)


def replay(ctx, drv, case):
    preimport()
    desc = case["desc"]
    ctx2 = core.Ctx("C08", "quick", ctx.seed)
    rep = check_codebase(ctx2, drv, desc, "replay", cli=bool(case.get("cli")))
    if any("directory" in c for cs in desc["platforms"].values() for c in cs):
        # entries as written into the databases ($ROOT = the analysis root; no "directory" key = none written)
        rep_entries = {p: [c08gen.db_entry(c, "$ROOT") for c in cs] for p, cs in desc["platforms"].items()}
    else:
        rep_entries = None
    pp = rep.get("per_platform", {})
    differing = {p: v for p, v in pp.items()
                 if len({json.dumps(x, sort_keys=True) for x in v.values()}) > 1} or pp
    out = {"what": case.get("what"),
           "files": desc["texts"], "platforms": {p: [c["arguments"] for c in cs] for p, cs in desc["platforms"].items()},
           "implementation_full_run": {k: (rep.get("full") or {}).get(k) for k in ("exc", "msg", "setmap")},
           "entries_loaded_by_load_database (whole databases)": (rep.get("full") or {}).get("cfg_view"),
           "entries_loaded_by_load_database (each command alone)": rep.get("single_cfg_view"),
           "single_command_failures": rep.get("single_fail"),
           "lines_used_per_platform (platforms where implementation / union / model / spec differ, else all)": differing,
           "database_entries": rep_entries,
           "checks_failed": rep["checks"], "model": rep.get("model"),
           "violations": [w for w, _ in ctx2.violations], "known_findings": sorted(ctx2.known_seen),
           "correspondence_breaks": len(ctx2.corr_breaks)}
    return out
