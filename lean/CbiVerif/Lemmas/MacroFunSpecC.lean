import CbiVerif.Lemmas.MacroFunSpecB
/-! # C03, function-like fragment against the specification, part C: top level, and the syntactic sub-fragment "simple"

* `Ref_eq_prosser` — the reference started with nothing disabled = `Spec.Prosser.prosserToks` (the specification's own fuel is
  handled by a computed bound: `cost + L + 1 < defaultFuel`);
* `simple_conf` — for `SimpleTbl` / `simpleText` texts whose calls have exactly as many arguments as parameters (`exactArity`)
  the additional condition `confb` holds with `L = |ts|`, nesting budget `|tbl| + 1`. -/
namespace CbiVerif.MX
open CbiVerif.PP
open CbiVerif.Spec.Prosser (T K Macros Unspec)

/-- **function-like fragment: reference `Ref` = specification** (spellings) -/
theorem Ref_eq_prosser (tbl : Table) (hC : ConfTbl tbl) (L d : Nat) (ts : List Tok) (hts : ∀ t ∈ ts, CTok tbl t)
    (hfit : fitsb tbl d [] ts = true) (hconf : confb tbl L d [] ts = true)
    (hfuel : cost tbl d [] ts + L + 1 < CbiVerif.Spec.Prosser.defaultFuel) :
    ∃ out, CbiVerif.Spec.Prosser.prosserToks (specTableF tbl) (ts.map (toSpec [])) = .ok out ∧
      out.map (·.text) = (Ref tbl d [] ts).map spellTok := by
  have hag : Agree [] [] := by intro x; simp
  obtain ⟨c, R, hc, hR, hx⟩ := ref_spec tbl hC L d [] ts [] hag hts hfit hconf
  refine ⟨R, ?_, hR⟩
  obtain ⟨g, hg, hgL⟩ : ∃ g, CbiVerif.Spec.Prosser.defaultFuel = (g + 1) + c ∧ L < g + 1 :=
    ⟨CbiVerif.Spec.Prosser.defaultFuel - c - 1, by omega, by omega⟩
  have := hx (g + 1) true [] [] hgL
  simp only [List.append_nil, List.nil_append] at this
  unfold CbiVerif.Spec.Prosser.prosserToks
  rw [hg, this]
  simp [Spec.Prosser.expand]

/-! ## exact arity, as a syntactic condition on the text -/
def arityScan (tbl : Table) : Nat → List Tok → Bool
  | 0, _ => true
  | _ + 1, [] => true
  | n + 1, t :: ts =>
    if t.kind != .ident then arityScan tbl n ts
    else
      match tbl.get t.text with
      | none => arityScan tbl n ts
      | some m =>
        match m.args with
        | none => arityScan tbl n ts
        | some ps =>
          match callOf ts with
          | none => arityScan tbl n ts
          | some (args, rest) => arityOk ps args && arityScan tbl n rest

/-- every call of a function-like macro in the text has exactly as many arguments as the macro has parameters -/
def exactArity (tbl : Table) (ts : List Tok) : Bool := arityScan tbl ts.length ts

theorem inert_ref_inert (tbl : Table) (d : Nat) (D : NoExp) (a : List Tok) (h : ∀ t ∈ a, Inert tbl t) :
    ∀ t ∈ Ref tbl d D a, Inert tbl t := by
  obtain ⟨g, hg, e⟩ := inert_ref_map tbl d D a h
  rw [e]
  intro t ht
  obtain ⟨x, hx, rfl⟩ := List.mem_map.mp ht
  rcases hg x with e | e <;> rw [e]
  · exact h x hx
  · exact paint_inert tbl x (h x hx)

/-- lists without function-like macro names: no call is ever met -/
theorem obj_conf (tbl : Table) (hT : SimpleTbl tbl) (L : Nat) : ∀ (d : Nat) (D : NoExp) (ts : List Tok),
    (∀ t ∈ ts, ObjTok tbl t) → confb tbl L d D ts = true := by
  intro d
  induction d with
  | zero => intro D ts _; simp [confb]
  | succ d ihd =>
    intro D ts hts
    simp only [confb]
    suffices hs : ∀ (n : Nat) (ts : List Tok), (∀ t ∈ ts, ObjTok tbl t) →
        scanConf tbl L (Ref tbl d) (confb tbl L d) n D ts = true from hs ts.length ts hts
    intro n
    induction n with
    | zero => intro ts _; simp [scanConf]
    | succ n ih =>
      intro ts hts
      cases ts with
      | nil => simp [scanConf]
      | cons a as =>
        have i1 := ih as (fun t ht => hts t (by simp [ht]))
        have ha := hts a (by simp)
        simp only [scanConf]
        by_cases hk : (a.kind != TKind.ident) = true
        · simp only [hk, if_true, i1]
        · have hki : a.kind = .ident := by simpa using hk
          have hk' : (a.kind != TKind.ident) = false := by simpa using hk
          simp only [hk', Bool.false_eq_true, if_false]
          by_cases hq : (!a.expandable || D.contains (some a.text)) = true
          · simp only [hq, if_true, i1]
          · have hq' : (!a.expandable || D.contains (some a.text)) = false := by simpa using hq
            simp only [hq', Bool.false_eq_true, if_false]
            cases hm : tbl.get a.text with
            | none => simp only [i1]
            | some m =>
              have hobj := ha.2 hki m hm
              have hbody : ∀ t ∈ fixpw m.replacement a.pw, ObjTok tbl t :=
                all_fixpw (ObjTok tbl) (fun _ _ h => h) _ _ (hT.bodies _ _ hm)
              simp only [hobj, ihd _ _ hbody, i1, Bool.and_self]

/-- **simple texts with exact arity**: the additional condition holds, with `L` any bound on the length of the text -/
theorem simple_conf (tbl : Table) (hT : SimpleTbl tbl) (L d : Nat) (D : NoExp) (hD : ∀ x, D.contains (some x) = false) :
    ∀ (n : Nat) (ts : List Tok), ts.length ≤ n → ts.length ≤ L → simpleScan tbl n ts = true → arityScan tbl n ts = true →
      scanConf tbl L (Ref tbl d) (confb tbl L d) n D ts = true := by
  intro n
  induction n with
  | zero => intro ts _ _ _ _; simp [scanConf]
  | succ n ih =>
    intro ts hn hL hs har
    cases ts with
    | nil => simp [scanConf]
    | cons a as =>
      have hn' : as.length ≤ n := by simp at hn; omega
      have hL' : as.length ≤ L := by simp at hL; omega
      simp only [simpleScan, Bool.and_eq_true] at hs
      obtain ⟨_, hs⟩ := hs
      simp only [arityScan] at har
      simp only [scanConf]
      by_cases hk : (a.kind != TKind.ident) = true
      · rw [if_pos hk] at hs har
        simp only [hk, if_true]; exact ih as hn' hL' hs har
      · have hk' : (a.kind != TKind.ident) = false := by simpa using hk
        rw [if_neg hk] at hs har
        simp only [hk', Bool.false_eq_true, if_false]
        by_cases hq : (!a.expandable || D.contains (some a.text)) = true
        · simp only [hq, if_true]
          have hexp : a.expandable = false := by
            rw [hD a.text] at hq; simpa using hq
          cases hm : tbl.get a.text with
          | none => simp only [hm] at hs har; exact ih as hn' hL' hs har
          | some m =>
            simp only [hm] at hs har
            cases hargs : m.args with
            | none => simp only [hargs] at hs har; exact ih as hn' hL' hs har
            | some ps => simp [hargs, hexp] at hs
        · have hq' : (!a.expandable || D.contains (some a.text)) = false := by simpa using hq
          simp only [hq', Bool.false_eq_true, if_false]
          cases hm : tbl.get a.text with
          | none => simp only [hm] at hs har; exact ih as hn' hL' hs har
          | some m =>
            simp only [hm] at hs har
            dsimp only
            cases hargs : m.args with
            | none =>
              simp only [hargs] at hs har
              dsimp only
              have hbody : ∀ t ∈ fixpw m.replacement a.pw, ObjTok tbl t :=
                all_fixpw (ObjTok tbl) (fun _ _ h => h) _ _ (hT.bodies _ _ hm)
              simp only [obj_conf tbl hT L d _ _ hbody, ih as hn' hL' hs har, Bool.and_self]
            | some ps =>
              simp only [hargs, Bool.and_eq_true] at hs har
              dsimp only
              obtain ⟨_, hs⟩ := hs
              cases hcall : callOf as with
              | none =>
                simp only [hcall, Bool.and_eq_true] at hs har
                dsimp only
                exact ih as hn' hL' hs.2 har
              | some ar =>
                obtain ⟨args, rest⟩ := ar
                simp only [hcall, Bool.and_eq_true, decide_eq_true_eq, List.all_eq_true] at hs har
                dsimp only
                obtain ⟨⟨_, hinert⟩, hsr⟩ := hs
                obtain ⟨hao, harr⟩ := har
                have hrl := callOf_length as args rest hcall
                have i1 := ih rest (by omega) (by omega) hsr harr
                have hargI : ∀ x ∈ args, ∀ t ∈ x, Inert tbl t := fun x hx t ht => inert_of_check tbl t (hinert x hx t ht)
                have hsum : sumLen args + rest.length + 1 = as.length := by
                  cases as with
                  | nil => simp [callOf] at hcall
                  | cons lp r =>
                    simp only [callOf] at hcall
                    split at hcall
                    · have := splitArgs_sum _ _ _ _ _ _ hcall
                      simp only [sumLen, List.map_nil, List.sum_nil, List.length_nil, List.length_cons] at this ⊢
                      omega
                    · cases hcall
                have hbodyTok : ∀ t ∈ fixpw (substRef ps (args.map (Ref tbl d (none :: D))) m.replacement) a.pw, ObjTok tbl t := by
                  apply all_fixpw (ObjTok tbl) (fun _ _ h => h)
                  apply all_substRef (ObjTok tbl) (fun _ _ h => h) ps _ _ (hT.bodies _ _ hm)
                  intro e he t ht
                  obtain ⟨x, hx, rfl⟩ := List.mem_map.mp he
                  exact (inert_ref_inert tbl d (none :: D) x (hargI x hx) t ht).obj
                have hall : (args.all fun a => decide (a.length ≤ L) && a.all (inertb tbl)) = true := by
                  rw [List.all_eq_true]
                  intro x hx
                  have h1 := mem_sumLen args x hx
                  have h2 : x.length ≤ L := by omega
                  simp only [Bool.and_eq_true, decide_eq_true_eq, List.all_eq_true]
                  exact ⟨h2, hinert x hx⟩
                simp only [hao, hall, obj_conf tbl hT L d _ _ hbodyTok, i1, Bool.and_self]

/-- **the simple fragment with exact arity is inside the conformance fragment** -/
theorem simple_confb (tbl : Table) (hT : SimpleTbl tbl) (ts : List Tok) (h : simpleText tbl ts = true) (ha : exactArity tbl ts = true) :
    confb tbl ts.length (tbl.length + 1) [] ts = true := by
  simp only [confb]
  exact simple_conf tbl hT ts.length tbl.length [] (by intro x; simp) ts.length ts (Nat.le_refl _) (Nat.le_refl _) h ha

end CbiVerif.MX
