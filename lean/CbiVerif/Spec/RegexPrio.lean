import CbiVerif.Model.Regex
/-!
# The priority order of a back-tracking regular-expression matcher, written without back-tracking

`allMatches r s caps` lists EVERY way in which `r` can match at the beginning of the text `s` (what is left
unread, and the groups), in the order in which Python's `re` prefers them: the matches through the first
alternative before those through the second, one more iteration of a repetition before stopping (greedy), the
body of `?` before skipping it, and — for a sequence — the preferences of the left part dominate those of the
right part (lexicographic order).  There is no continuation, no failure and no retry in this definition: it is
the specification the continuation-passing matcher of `Model/Regex.lean` is proved against
(`Props/C12RegexComplete.lean`: the matcher returns the first acceptable element of this list, and the list holds
exactly the matches of the language `Spec.Regex.Match`).

The repetition is unrolled at most `|s|` times (`starAll`): inside the fragment (`inFragment`: the body of `*` / `+`
cannot match the empty string, which is what the pattern parser guarantees) every iteration consumes a character,
so nothing is cut off (`allMatches_complete`).

Core Lean only (linked into the driver: op `re_spec`).
-/
namespace CbiVerif.Regex

/-- one way to match: the unread rest of the text and the groups -/
abbrev MRes := List Char × Caps

/-- greedy repetition: first everything that starts with one more iteration (in the order of the body), last "stop here" -/
def starAll (body : List Char → Caps → List MRes) : Nat → List Char → Caps → List MRes
  | 0, s, caps => [(s, caps)]
  | n + 1, s, caps => (body s caps).flatMap (fun x => starAll body n x.1 x.2) ++ [(s, caps)]

/-- every match of `r` at the beginning of `s`, most preferred first -/
def allMatches : Re → List Char → Caps → List MRes
  | .empty, s, caps => [(s, caps)]
  | .chr c, s, caps =>
    match s with
    | x :: t => if x == c then [(t, caps)] else []
    | [] => []
  | .any, s, caps =>
    match s with
    | x :: t => if x != '\n' then [(t, caps)] else []
    | [] => []
  | .cls neg items, s, caps =>
    match s with
    | x :: t => if classTest neg items x then [(t, caps)] else []
    | [] => []
  | .seq a b, s, caps => (allMatches a s caps).flatMap (fun x => allMatches b x.1 x.2)
  | .alt a b, s, caps => allMatches a s caps ++ allMatches b s caps
  | .star r, s, caps => starAll (fun s0 c0 => allMatches r s0 c0) s.length s caps
  | .plus r, s, caps =>
    (allMatches r s caps).flatMap (fun x => starAll (fun s0 c0 => allMatches r s0 c0) x.1.length x.1 x.2)
  | .opt r, s, caps => allMatches r s caps ++ [(s, caps)]
  | .group i r, s, caps => (allMatches r s caps).map (fun x => (x.1, (i, s.take (s.length - x.1.length)) :: x.2))
  | .eol, s, caps => if s.isEmpty || s == ['\n'] then [(s, caps)] else []

/-- may a top-level match attempt at `s` report the match that leaves `s'` (with `adv`: not an empty one) -/
def acceptable (adv : Bool) (s : List Char) (x : MRes) : Bool := !(adv && x.1.length == s.length)

/-- the match Python's priorities select at the beginning of `s`: the most preferred acceptable one -/
def firstMatch (r : Re) (adv : Bool) (s : List Char) : Option MRes := (allMatches r s []).find? (acceptable adv s)

/-- the fragment of the priority theorem: the body of every `*` / `+` cannot match the empty string -/
def inFragment : Re → Bool
  | .seq a b => inFragment a && inFragment b
  | .alt a b => inFragment a && inFragment b
  | .star r => !nullable r && inFragment r
  | .plus r => !nullable r && inFragment r
  | .opt r => inFragment r
  | .group _ r => inFragment r
  | _ => true

/-- `re.findall` computed from the specification alone: leftmost acceptable position, the most preferred match
    there, continue behind it (after an empty match the next one at that position must be non-empty) -/
def specSearch (r : Re) : Nat → List Char → Bool → Option (Nat × List Char × List Char × Caps)
  | off, s, adv =>
    match firstMatch r adv s with
    | some (s', caps) => some (off, s, s', caps)
    | none =>
      match s with
      | [] => none
      | _ :: t => specSearch r (off + 1) t false

def specScan (r : Re) : Nat → Nat → List Char → Bool → List Hit
  | 0, _, _, _ => []
  | fuel + 1, off, s, adv =>
    match specSearch r off s adv with
    | none => []
    | some (st, sAt, rest, caps) =>
      let len := sAt.length - rest.length
      ⟨st, sAt.take len, caps⟩ :: specScan r fuel (st + len) rest (len == 0)

def specFindall (r : Re) (ng : Nat) (s : List Char) : List (List (List Char)) :=
  (specScan r (2 * s.length + 3) 0 s false).map (Hit.fields ng)

end CbiVerif.Regex
