import Lean.Data.Json
import CbiVerif.Model.C14Metrics
import CbiVerif.Model.Metrics
import CbiVerif.Drv.C14Compose
import CbiVerif.Drv.Order
/-! driver op for C14 / C07 on the composed text-level pipeline — metric lines and distance matrix:
`{"op":"c14textmetrics","variants":[{"files":[..],"plats":[..]}, ..]}` (variants as for `c14text`) →
`{"results":[ {"ok":{"divergence":"p/q"|null,"coverage":..,"avg":..,"total":n,"plats":[..],"matrix":[[..]..]}} | {"exc":true}, ..],
   "invariant": b,
   "defs":[ {"hyps":b, "agree":b, "model":{"coverage":..,"avg":..,"divergence":..,"distances":[[..]..]}, "reference":{..}} | null, ..]}`
* `ok` = `C14C.metricsOfTexts ratOps` and `C14C.distanceMatrixOfTexts ratOps` — the definitions `Props/C14Metrics.lean` is about
  (`Order.metricLines` / `Order.distanceMatrix` of `C06C.setmapOfTexts`), floats instantiated by exact rationals, NaN = null;
* `invariant` = those two readings are equal for all variants sent (`metrics_of_texts_deterministic`, `distance_matrix_of_texts_perm`
  evaluated on the presentations sent);
* `defs` = per variant on which the analysis does not raise: C07's definitions (`Model/Metrics.lean`) on `get_setmap` of the texts
  (`model`) and on the reference attribution read line by line, `C14C.lineSetmap (C14C.refLines ..)` (`reference`); `hyps` = the
  hypotheses of `C14.Text.metrics_of_texts_are_definitions` hold (distinct paths, every text inside the guard, the reference accepts
  every unit); `agree` = the two are equal — the statement of that theorem evaluated natively. -/
open Lean
namespace CbiVerif.Drv.C14Metrics
open CbiVerif.SM CbiVerif.C06C CbiVerif.C14C CbiVerif.Drv.C14Compose CbiVerif.Drv.Order

abbrev R := Option Rat

abbrev Reading := (R × R × R × Nat) × (List String × List (List R))

def sameReading (a b : Option Reading) : Bool :=
  match a, b with
  | none, none => true
  | some x, some y => decide (x.1 = y.1) && decide (x.2.1 = y.2.1) && decide (x.2.2 = y.2.2)
  | _, _ => false

/-- the two readings the theorems are about, in a comparable form -/
def reading (v : List SrcFile × List Plat) : Option Reading :=
  match metricsOfTexts ratOps v.1 v.2, distanceMatrixOfTexts ratOps v.1 v.2 with
  | some m, some d => some ((m.divergence, m.coverage, m.avgCoverage, m.totalSloc), d)
  | _, _ => none

def matrixJson (rows : List (List R)) : Json := Json.arr (rows.map fun row => Json.arr (row.map ratJson).toArray).toArray

def readingJson : Option Reading → Json
  | none => Json.mkObj [("exc", Json.bool true)]
  | some (m, d) => Json.mkObj [("ok", Json.mkObj [
      ("divergence", ratJson m.1), ("coverage", ratJson m.2.1), ("avg", ratJson m.2.2.1), ("total", Json.num m.2.2.2),
      ("plats", jstrs d.1), ("matrix", matrixJson d.2)])]

/-- C07's definitions on a setmap: coverage and average coverage of all platforms, divergence, all distances over `names` -/
def defsOn (sm : CbiVerif.Metrics.Setmap) (names : List String) : R × R × R × List (List R) :=
  (CbiVerif.Metrics.coverage sm [], CbiVerif.Metrics.averageCoverage sm [], CbiVerif.Metrics.divergence sm,
   names.map fun p => names.map fun q => CbiVerif.Metrics.distance sm p q)

def defsJson (x : R × R × R × List (List R)) : Json :=
  Json.mkObj [("coverage", ratJson x.1), ("avg", ratJson x.2.1), ("divergence", ratJson x.2.2.1), ("distances", matrixJson x.2.2.2)]

/-- decidable form of the hypotheses of `metrics_of_texts_are_definitions` -/
def hyps (files : List SrcFile) (plats : List Plat) (ps : List Parsed) : Bool :=
  decide (files.map (·.path)).Nodup && files.all (fun f => C06C.guard f.text) &&
  (files.zip ps).all fun x => plats.all fun pl => pl.entries.all fun e => !(e.file == x.1.path) || refAccepts x.2.pnodes e.defs

def defsOfVariant (v : List SrcFile × List Plat) : Json :=
  match setmapOfTexts v.1 v.2, mapE (fun f => parseSrc f.text) v.1 with
  | .ok sm, .ok ps =>
    let names := v.2.map (·.name)
    let a := defsOn sm names
    let b := defsOn (lineSetmap (refLines v.2 v.1 ps)) names
    Json.mkObj [("hyps", Json.bool (hyps v.1 v.2 ps)), ("agree", Json.bool (decide (a = b))), ("model", defsJson a), ("reference", defsJson b)]
  | _, _ => Json.null

def handle (j : Json) : Json :=
  let vs := ((j.getObjValAs? (Array Json) "variants").toOption.getD #[]).toList.map variantOf
  let rs := vs.map reading
  let inv := match rs with
    | [] => true
    | r :: rest => rest.all fun r' => sameReading r' r
  Json.mkObj [("results", Json.arr (rs.map readingJson).toArray), ("invariant", Json.bool inv),
    ("defs", Json.arr (vs.map defsOfVariant).toArray)]

def handlers : List (String × (Json → Json)) := [("c14textmetrics", handle)]

end CbiVerif.Drv.C14Metrics
