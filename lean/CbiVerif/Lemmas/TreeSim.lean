import CbiVerif.Model.Assoc
/-! Lemmas for `C01.assoc_eq_ref`: the visitor over the built tree and the flat reference
machine stay related (`Rel`) over every structured program; mutual induction over
`Item/Block/Conts` with `skip` (an inactive reference ignores a block) and `balanced`
(an active block leaves the stack as it found it). -/
namespace CbiVerif.Cond
variable {Env : Type}

theorem refRun_append (M : Sem Env) (r : RState Env) (xs ys : List Lbl) :
    refRun M r (xs ++ ys) = refRun M (refRun M r xs) ys := by
  simp [refRun, List.foldl_append]

theorem visitList_append (M : Sem Env) (st : AState Env) (xs ys : List Tree) :
    visitList M st (xs ++ ys) = visitList M (visitList M st xs) ys := by
  induction xs generalizing st with
  | nil => simp [visitList]
  | cons x xs ih => simp [visitList, ih]

-- skipping: an inactive reference state ignores a whole block
mutual
theorem Item.skip (M : Sem Env) (i : Item) (r : RState Env) (h : r.active = false) :
    refRun M r i.lines = r := by
  cases i with
  | code id => simp [Item.lines, refRun, refStep, h]
  | dir id p => simp [Item.lines, refRun, refStep, h]
  | cond id p b rest =>
    simp only [Item.lines]
    have e : refRun M r (⟨id, .ifk, p⟩ :: (b.lines ++ rest.lines))
        = refRun M { r with stack := ⟨false, true, false, false⟩ :: r.stack } (b.lines ++ rest.lines) := by
      simp [refRun, refStep, h]
    rw [e, refRun_append, Block.skip M b _ (by simp [RState.active])]
    exact Conts.skipDead M rest r
theorem Block.skip (M : Sem Env) (b : Block) (r : RState Env) (h : r.active = false) :
    refRun M r b.lines = r := by
  cases b with
  | nil => simp [Block.lines, refRun]
  | cons i b =>
    simp only [Block.lines]
    rw [refRun_append, Item.skip M i r h, Block.skip M b r h]
theorem Conts.skipDead (M : Sem Env) (c : Conts) (r : RState Env) :
    refRun M { r with stack := ⟨false, true, false, false⟩ :: r.stack } c.lines = r := by
  cases c with
  | endif id => simp [Conts.lines, refRun, refStep]
  | elif id p b rest =>
    simp only [Conts.lines]
    have e : refRun M { r with stack := ⟨false, true, false, false⟩ :: r.stack } (⟨id, .elifk, p⟩ :: (b.lines ++ rest.lines))
        = refRun M { r with stack := ⟨false, true, false, false⟩ :: r.stack } (b.lines ++ rest.lines) := by
      simp [refRun, refStep]
    rw [e, refRun_append, Block.skip M b _ (by simp [RState.active])]
    exact Conts.skipDead M rest r
  | els id b e =>
    simp only [Conts.lines]
    have e1 : refRun M { r with stack := ⟨false, true, false, false⟩ :: r.stack } (⟨id, .elsek, 0⟩ :: (b.lines ++ [⟨e, .endk, 0⟩]))
        = refRun M { r with stack := ⟨false, true, false, true⟩ :: r.stack } (b.lines ++ [⟨e, .endk, 0⟩]) := by
      simp [refRun, refStep]
    rw [e1, refRun_append, Block.skip M b _ (by simp [RState.active])]
    simp [refRun, refStep]
end
end CbiVerif.Cond


namespace CbiVerif.Cond
variable {Env : Type}
-- an active block leaves the reference stack and the visitor's taken-stack as it found them
mutual
theorem Item.balanced (M : Sem Env) (i : Item) (r : RState Env) (h : r.active = true) :
    (refRun M r i.lines).stack = r.stack := by
  cases i with
  | code id => simp [Item.lines, refRun, refStep, h]
  | dir id p => simp [Item.lines, refRun, refStep, h]
  | cond id p b rest =>
    simp only [Item.lines]
    rw [show (⟨id, .ifk, p⟩ :: (b.lines ++ rest.lines)) = [⟨id, .ifk, p⟩] ++ (b.lines ++ rest.lines) from rfl,
        refRun_append, refRun_append]
    have e : refRun M r [⟨id, .ifk, p⟩] =
        { r with σ := (M.evalIf r.σ p).2, out := r.out ++ [id], stack := ⟨true, (M.evalIf r.σ p).1, (M.evalIf r.σ p).1, false⟩ :: r.stack } := by
      simp [refRun, refStep, h]
    rw [e]
    cases hv : (M.evalIf r.σ p).1 with
    | true =>
      have hb := Block.balanced M b ({ r with σ := (M.evalIf r.σ p).2, out := r.out ++ [id], stack := ⟨true, true, true, false⟩ :: r.stack }) (by simp [RState.active])
      exact Conts.balanced M rest _ _ _ _ hb
    | false =>
      rw [Block.skip M b _ (by simp [RState.active])]
      exact Conts.balanced M rest _ _ _ _ rfl
theorem Block.balanced (M : Sem Env) (b : Block) (r : RState Env) (h : r.active = true) :
    (refRun M r b.lines).stack = r.stack := by
  cases b with
  | nil => simp [Block.lines, refRun]
  | cons i b =>
    simp only [Block.lines]
    rw [refRun_append]
    have hi := Item.balanced M i r h
    have ha : (refRun M r i.lines).active = true := by simp [RState.active, hi]; simpa [RState.active] using h
    rw [Block.balanced M b _ ha, hi]
theorem Conts.balanced (M : Sem Env) (c : Conts) (r : RState Env) (t a : Bool) (fs : List CFrame)
    (h : r.stack = ⟨true, t, a, false⟩ :: fs) : (refRun M r c.lines).stack = fs := by
  cases c with
  | endif id => simp [Conts.lines, refRun, refStep, h]
  | elif id p b rest =>
    simp only [Conts.lines]
    rw [show (⟨id, .elifk, p⟩ :: (b.lines ++ rest.lines)) = [⟨id, .elifk, p⟩] ++ (b.lines ++ rest.lines) from rfl,
        refRun_append, refRun_append]
    cases t with
    | true =>
      have e : refRun M r [⟨id, .elifk, p⟩] = { r with out := r.out ++ [id], stack := ⟨true, true, false, false⟩ :: fs } := by
        simp [refRun, refStep, h]
      rw [e, Block.skip M b _ (by simp [RState.active])]
      exact Conts.balanced M rest _ _ _ _ rfl
    | false =>
      have e : refRun M r [⟨id, .elifk, p⟩] =
          { r with σ := (M.evalIf r.σ p).2, out := r.out ++ [id], stack := ⟨true, (M.evalIf r.σ p).1, (M.evalIf r.σ p).1, false⟩ :: fs } := by
        simp [refRun, refStep, h]
      rw [e]
      cases hv : (M.evalIf r.σ p).1 with
      | true =>
        have hb := Block.balanced M b ({ r with σ := (M.evalIf r.σ p).2, out := r.out ++ [id], stack := ⟨true, true, true, false⟩ :: fs }) (by simp [RState.active])
        exact Conts.balanced M rest _ _ _ _ hb
      | false =>
        rw [Block.skip M b _ (by simp [RState.active])]
        exact Conts.balanced M rest _ _ _ _ rfl
  | els id b e =>
    simp only [Conts.lines]
    rw [show (⟨id, .elsek, 0⟩ :: (b.lines ++ [⟨e, .endk, 0⟩])) = [⟨id, .elsek, 0⟩] ++ (b.lines ++ [⟨e, .endk, 0⟩]) from rfl,
        refRun_append, refRun_append]
    have e1 : refRun M r [⟨id, .elsek, 0⟩] = { r with out := r.out ++ [id], stack := ⟨true, true, !t, true⟩ :: fs } := by
      simp [refRun, refStep, h]
    rw [e1]
    cases t with
    | true =>
      rw [Block.skip M b _ (by simp [RState.active])]
      simp [refRun, refStep]
    | false =>
      have hb := Block.balanced M b ({ r with out := r.out ++ [id], stack := ⟨true, true, true, true⟩ :: fs }) (by simp [RState.active])
      simp only [Bool.not_false]
      simp only [refRun, List.foldl, refStep] at hb ⊢
      rw [hb]
      simp
end
end CbiVerif.Cond
namespace CbiVerif.Cond
variable {Env : Type}

def AllAct (fs : List CFrame) : Prop := ∀ f ∈ fs, f.parentActive = true ∧ f.active = true

/-- visitor state and reference state agree: same world, same attributed ids in the same order,
`branch_taken` = the `taken` flags of the reference stack, every open group active, and neither
side has raised / diagnosed anything. -/
structure Rel (st : AState Env) (r : RState Env) : Prop where
  env : st.σ = r.σ
  out : st.out = r.out
  tk : st.taken = r.stack.map (·.taken)
  act : AllAct r.stack
  ok : st.crash = false ∧ r.bad = false

theorem Rel.active {st : AState Env} {r : RState Env} (h : Rel st r) : r.active = true := by
  unfold RState.active
  cases hs : r.stack with
  | nil => rfl
  | cons f fs => exact (h.act f (by simp [hs])).2

/-- relation while inside a conditional whose top frame is `⟨true, t, a, false⟩`, rest fully active -/
structure RelIn (t : Bool) (st : AState Env) (r : RState Env) : Prop where
  env : st.σ = r.σ
  out : st.out = r.out
  stk : ∃ a fs, r.stack = ⟨true, t, a, false⟩ :: fs ∧ (t = false → a = false) ∧ st.taken = t :: fs.map (·.taken) ∧ AllAct fs
  ok : st.crash = false ∧ r.bad = false

mutual
theorem Item.sim (M : Sem Env) (i : Item) (st : AState Env) (r : RState Env) (h : Rel st r) :
    Rel (visitList M st i.trees) (refRun M r i.lines) := by
  have ha := h.active
  obtain ⟨henv, hout, htk, hact, hok⟩ := h
  cases i with
  | code id =>
    simp only [Item.trees, Item.lines, visitList, visit, refRun, List.foldl, refStep, ha, if_true]
    exact ⟨henv, by simp [hout], htk, hact, hok⟩
  | dir id p =>
    simp only [Item.trees, Item.lines, visitList, visit, refRun, List.foldl, refStep, ha, if_true]
    exact ⟨by simp [henv], by simp [hout], htk, hact, hok⟩
  | cond id p b rest =>
    simp only [Item.trees, Item.lines]
    rw [show (⟨id, .ifk, p⟩ :: (b.lines ++ rest.lines)) = [⟨id, .ifk, p⟩] ++ (b.lines ++ rest.lines) from rfl,
        refRun_append, refRun_append]
    simp only [visitList, visit]
    have e : refRun M r [⟨id, .ifk, p⟩] =
        { r with σ := (M.evalIf r.σ p).2, out := r.out ++ [id], stack := ⟨true, (M.evalIf r.σ p).1, (M.evalIf r.σ p).1, false⟩ :: r.stack } := by
      simp [refRun, refStep, ha]
    rw [e, henv]
    cases hv : (M.evalIf r.σ p).1 with
    | true =>
      simp only [if_true]
      have hb : Rel ({ st with σ := (M.evalIf r.σ p).2, taken := true :: st.taken, out := st.out ++ [id] } : AState Env)
          ({ r with σ := (M.evalIf r.σ p).2, out := r.out ++ [id], stack := ⟨true, true, true, false⟩ :: r.stack }) := by
        refine ⟨rfl, by simp [hout], by simp [htk], ?_, hok⟩
        intro f hf
        simp at hf
        rcases hf with rfl | hf
        · simp
        · exact hact f hf
      have hb' := Block.sim M b _ _ hb
      have hbal := Block.balanced M b ({ r with σ := (M.evalIf r.σ p).2, out := r.out ++ [id], stack := ⟨true, true, true, false⟩ :: r.stack }) hb.active
      apply Conts.simTaken M rest _ _
      refine ⟨hb'.env, hb'.out, ⟨true, r.stack, hbal, by simp, by rw [hb'.tk, hbal]; simp, hact⟩, hb'.ok⟩
    | false =>
      simp only [Bool.false_eq_true, if_false]
      rw [Block.skip M b _ (by simp [RState.active])]
      apply Conts.simOpen M rest
      exact ⟨rfl, by simp [hout], ⟨false, r.stack, rfl, fun _ => rfl, by simp [htk], hact⟩, hok⟩
theorem Block.sim (M : Sem Env) (b : Block) (st : AState Env) (r : RState Env) (h : Rel st r) :
    Rel (visitList M st b.trees) (refRun M r b.lines) := by
  cases b with
  | nil => simpa [Block.trees, Block.lines, visitList, refRun] using h
  | cons i b =>
    simp only [Block.trees, Block.lines]
    rw [visitList_append, refRun_append]
    exact Block.sim M b _ _ (Item.sim M i st r h)
theorem Conts.simTaken (M : Sem Env) (c : Conts) (st : AState Env) (r : RState Env) (h : RelIn true st r) :
    Rel (visitList M st c.trees) (refRun M r c.lines) := by
  obtain ⟨henv, hout, ⟨a, fs, hstk, -, htk, hact⟩, hok⟩ := h
  cases c with
  | endif id =>
    simp only [Conts.trees, Conts.lines, visitList, visit, refRun, List.foldl, refStep, hstk, htk]
    exact ⟨henv, by simp [hout], by simp, hact, hok⟩
  | elif id p b rest =>
    simp only [Conts.trees, Conts.lines]
    rw [show (⟨id, .elifk, p⟩ :: (b.lines ++ rest.lines)) = [⟨id, .elifk, p⟩] ++ (b.lines ++ rest.lines) from rfl,
        refRun_append, refRun_append]
    simp only [visitList, visit, htk, if_true]
    have e : refRun M r [⟨id, .elifk, p⟩] =
        { r with out := r.out ++ [id], stack := ⟨true, true, false, false⟩ :: fs } := by
      simp [refRun, refStep, hstk]
    rw [e, Block.skip M b _ (by simp [RState.active])]
    apply Conts.simTaken M rest
    exact ⟨henv, by simp [hout], ⟨false, fs, rfl, by simp, by simp, hact⟩, hok⟩
  | els id b e =>
    simp only [Conts.trees, Conts.lines]
    rw [show (⟨id, .elsek, 0⟩ :: (b.lines ++ [⟨e, .endk, 0⟩])) = [⟨id, .elsek, 0⟩] ++ (b.lines ++ [⟨e, .endk, 0⟩]) from rfl,
        refRun_append, refRun_append]
    simp only [visitList, visit, htk, if_true]
    have e1 : refRun M r [⟨id, .elsek, 0⟩] =
        { r with out := r.out ++ [id], stack := ⟨true, true, false, true⟩ :: fs } := by
      simp [refRun, refStep, hstk]
    rw [e1, Block.skip M b _ (by simp [RState.active])]
    simp only [refRun, List.foldl, refStep, if_true]
    exact ⟨henv, by simp [hout], by simp, hact, hok⟩
theorem Conts.simOpen (M : Sem Env) (c : Conts) (st : AState Env) (r : RState Env) (h : RelIn false st r) :
    Rel (visitList M st c.trees) (refRun M r c.lines) := by
  obtain ⟨henv, hout, ⟨a, fs, hstk, ha, htk, hact⟩, hok⟩ := h
  have ha : a = false := ha rfl
  subst ha
  cases c with
  | endif id =>
    simp only [Conts.trees, Conts.lines, visitList, visit, refRun, List.foldl, refStep, hstk, htk]
    exact ⟨henv, by simp [hout], by simp, hact, hok⟩
  | elif id p b rest =>
    simp only [Conts.trees, Conts.lines]
    rw [show (⟨id, .elifk, p⟩ :: (b.lines ++ rest.lines)) = [⟨id, .elifk, p⟩] ++ (b.lines ++ rest.lines) from rfl,
        refRun_append, refRun_append]
    simp only [visitList, visit, htk]
    have e : refRun M r [⟨id, .elifk, p⟩] =
        { r with σ := (M.evalIf r.σ p).2, out := r.out ++ [id], stack := ⟨true, (M.evalIf r.σ p).1, (M.evalIf r.σ p).1, false⟩ :: fs } := by
      simp [refRun, refStep, hstk]
    rw [e, henv]
    cases hv : (M.evalIf r.σ p).1 with
    | true =>
      simp only [Bool.false_eq_true, if_false, if_true]
      have hb : Rel ({ st with σ := (M.evalIf r.σ p).2, taken := true :: fs.map (·.taken), out := st.out ++ [id] } : AState Env)
          ({ r with σ := (M.evalIf r.σ p).2, out := r.out ++ [id], stack := ⟨true, true, true, false⟩ :: fs }) := by
        refine ⟨rfl, by simp [hout], by simp, ?_, hok⟩
        intro f hf
        simp at hf
        rcases hf with rfl | hf
        · simp
        · exact hact f hf
      have hb' := Block.sim M b _ _ hb
      have hbal := Block.balanced M b ({ r with σ := (M.evalIf r.σ p).2, out := r.out ++ [id], stack := ⟨true, true, true, false⟩ :: fs }) hb.active
      apply Conts.simTaken M rest _ _
      exact ⟨hb'.env, hb'.out, ⟨true, fs, hbal, by simp, by rw [hb'.tk, hbal]; simp, hact⟩, hb'.ok⟩
    | false =>
      simp only [Bool.false_eq_true, if_false]
      rw [Block.skip M b _ (by simp [RState.active])]
      apply Conts.simOpen M rest
      exact ⟨rfl, by simp [hout], ⟨false, fs, rfl, fun _ => rfl, by simp, hact⟩, hok⟩
  | els id b e =>
    simp only [Conts.trees, Conts.lines]
    rw [show (⟨id, .elsek, 0⟩ :: (b.lines ++ [⟨e, .endk, 0⟩])) = [⟨id, .elsek, 0⟩] ++ (b.lines ++ [⟨e, .endk, 0⟩]) from rfl,
        refRun_append, refRun_append]
    simp only [visitList, visit, htk, Bool.false_eq_true, if_false]
    have e1 : refRun M r [⟨id, .elsek, 0⟩] =
        { r with out := r.out ++ [id], stack := ⟨true, true, true, true⟩ :: fs } := by
      simp [refRun, refStep, hstk]
    rw [e1]
    have hb : Rel ({ st with taken := true :: fs.map (·.taken), out := st.out ++ [id] } : AState Env)
        ({ r with out := r.out ++ [id], stack := ⟨true, true, true, true⟩ :: fs }) := by
      refine ⟨henv, by simp [hout], by simp, ?_, hok⟩
      intro f hf
      simp at hf
      rcases hf with rfl | hf
      · simp
      · exact hact f hf
    have hb' := Block.sim M b _ _ hb
    have hbal := Block.balanced M b ({ r with out := r.out ++ [id], stack := ⟨true, true, true, true⟩ :: fs }) hb.active
    obtain ⟨e2, o2, t2, -, k2⟩ := hb'
    simp only [refRun, List.foldl, refStep] at hbal ⊢
    simp only [refRun] at e2 o2 t2 k2
    rw [hbal] at t2
    rw [hbal]
    simp only [if_true]
    simp only [List.map_cons] at t2
    simp only [t2]
    exact ⟨e2, by simp [o2], by simp, hact, k2⟩
end
end CbiVerif.Cond
