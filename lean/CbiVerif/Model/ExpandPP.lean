import CbiVerif.Model.MacroExpand
import CbiVerif.Model.EvalPP
/-! Adapter: the total, proved macro expander (`MX.cbiExpand`, `Model/MacroExpand.lean`, the model the C03 theorems are
about) behind the interface the end-to-end models use (`PP.XResult`), and the value of a controlling expression as the
end-to-end models of C01, C04, C08, C10, C17, C18 define it: expansion (`MX.cbiExpand`) followed by evaluation
(`Eval.cbiEval` through `Eval.evaluatePP`, the evaluator the C02 theorems are about).

`runExpandT` replaces the design-phase port `runExpand` (`partial def`, now `PP.Old.runExpand` in `PP/ExpandOld.lean`, kept
only for the three-way cross-check of driver op `c03`).  The mapping of results:

* tokens ↦ `.ok`, a Python exception (`IndexError`, `AttributeError`, `ParseError`) ↦ `.error` with the same kind — the
  total model has the same error outcomes as the port, position by position (`MX.stepDefined`, `MX.consume`,
  `MX.replaceFn`);
* the backstop: `MacroExpandOverflow` is caught by the innermost `expand`, which returns the single token `0`
  (`MX.overflowState`); at top level the result is `.ok [0]`, exactly as in the port.  The port's signals `overflow` /
  `endOfParse` could never leave `runExpand` (both are raised only inside the `try` of `expandCall`, except the overflow check
  on entry, which cannot fire on an empty stack), so `.sig` was dead there;
* `.fuel` (the total model's own outcome; the port would not return) ↦ `.sig "ModelOutOfFuel"`; `C03.terminates_objlike_partial`
  excludes it for object-like tables.

Core Lean only. -/
namespace CbiVerif.PP

/-- `MacroExpander(platform).expand(tokens)` as the end-to-end models see it: the total model `MX.cbiExpand` -/
def runExpandT (tbl : Table) (toks : List Tok) : XResult :=
  match CbiVerif.MX.cbiExpand tbl toks with
  | .ok ts => .ok ts
  | .error e => .error e
  | .fuel => .sig "ModelOutOfFuel"

/-- the value of the controlling expression `toks` of an `#if` / `#elif` under the macro table `tbl`
    (`MacroExpander(platform).expand` then `ExpressionEvaluator.evaluate`); a failure of either stage is the failure of
    the directive -/
def condValue (tbl : Table) (toks : List Tok) : Except Err Bool :=
  match runExpandT tbl toks with
  | .ok ts => CbiVerif.Eval.evaluatePP ts
  | .error e => .error e
  | .sig s => .error (.other s)

end CbiVerif.PP
