import CbiVerif.Spec.Extract
import CbiVerif.Model.Argparse
/-! C11 (full parser) — reference reading of *what is left over*: which arguments of a tame command line are the
compiler's operands (`namespace.file`) and which are "unrecognized arguments" (the extras list the code logs).

Written in the vocabulary of `Spec/Extract.lean` (`reading`, `plainValue`), with the four option letters the code
declares as known-but-ignored (`-O`, `-o`, `-g`, `-c`) and argparse's documented operand rule (an argument is an
operand if it does not start with `-`, is the lone `-`, looks like a negative number, or contains a blank;
`Argparse.isNegNumber` is reused for the number syntax).  Only meant for command lines without `--` (tame ones). -/
namespace CbiVerif.Unrecognised
open CbiVerif.Extract

inductive Shape
  | flagSep        -- `-D`, `-I`, `-isystem`, `-include`: the next argument is the value
  | flagAtt        -- `-DX`, `-Idir`
  | ignBare        -- `-O`, `-g`, `-c`: swallow the next argument if it is an operand
  | ignReq         -- `-o`: swallows the next argument
  | ignAtt         -- `-O2`, `-ofile`, `-g3`, `-ccbin`, ...
  | operand
  | unknownOpt
deriving DecidableEq, Repr, Inhabited

def operandLike (a : Arg) : Bool := plainValue a || Argparse.isNegNumber a || a.contains ' '

def leftoverShape (a : Arg) : Shape := if operandLike a then .operand else .unknownOpt

def shape (a : Arg) : Shape :=
  match reading a with
  | .sep _ => .flagSep
  | .att _ _ => .flagAtt
  | .other =>
    match a with
    | ['-', c] =>
      if c = 'o' then .ignReq else if c = 'O' || c = 'g' || c = 'c' then .ignBare else leftoverShape a
    | '-' :: c :: _ :: _ =>
      if c = 'o' || c = 'O' || c = 'g' || c = 'c' then .ignAtt else leftoverShape a
    | _ => leftoverShape a

/-- what the scan is waiting for -/
inductive Wait | none | value | optional
deriving DecidableEq, Repr, Inhabited

/-- where the operand list stands: not begun, inside the first run of operands, over -/
inductive Run | pending | opened | closed
deriving DecidableEq, Repr, Inhabited

def Run.close : Run → Run
  | .opened => .closed
  | r => r

structure Leftover where
  file : List Arg := []
  extras : List Arg := []
deriving DecidableEq, Repr, Inhabited

def scanU : Wait → Run → Leftover → List Arg → Leftover
  | _, _, o, [] => o
  | .value, r, o, _ :: rest => scanU .none r o rest
  | w, r, o, a :: rest =>
    match shape a with
    | .operand =>
      if w = .optional then scanU .none r o rest
      else if r = .closed then scanU .none .closed { o with extras := o.extras ++ [a] } rest
      else scanU .none .opened { o with file := o.file ++ [a] } rest
    | .unknownOpt => scanU .none r.close { o with extras := o.extras ++ [a] } rest
    | .flagSep => scanU .value r.close o rest
    | .ignReq => scanU .value r.close o rest
    | .flagAtt => scanU .none r.close o rest
    | .ignAtt => scanU .none r.close o rest
    | .ignBare => scanU .optional r.close o rest

/-- operands and unrecognised arguments of a command line -/
def leftover (argv : List Arg) : Leftover := scanU .none .pending {} argv

end CbiVerif.Unrecognised
