import Mathlib.Tactic.Ring
import Mathlib.Tactic.Linarith
import Mathlib.Tactic.FieldSimp
import Mathlib.Tactic.Positivity
import Mathlib.Algebra.Order.Field.Basic
import Mathlib.Algebra.BigOperators.Group.List.Basic

namespace CbiVerif.Metrics

abbrev Setmap := List (List String × Nat)

def unionCount (sm : Setmap) (p q : String) : Nat :=
  (sm.map fun e => if e.1.contains p || e.1.contains q then e.2 else 0).sum
def xorCount (sm : Setmap) (p q : String) : Nat :=
  (sm.map fun e => if xor (e.1.contains p) (e.1.contains q) then e.2 else 0).sum
def interCount (sm : Setmap) (p q : String) : Nat :=
  (sm.map fun e => if e.1.contains p && e.1.contains q then e.2 else 0).sum

/-- model of `report.distance` over ℚ; `none` = undefined -/
def distance (sm : Setmap) (p q : String) : Option ℚ :=
  if unionCount sm p q = 0 then none else some ((xorCount sm p q : ℚ) / (unionCount sm p q : ℚ))

theorem xor_add_inter (sm : Setmap) (p q : String) :
    xorCount sm p q + interCount sm p q = unionCount sm p q := by
  unfold xorCount interCount unionCount
  induction sm with
  | nil => simp
  | cons e es ih =>
    simp only [List.map_cons, List.sum_cons]
    have he : (if xor (e.1.contains p) (e.1.contains q) then e.2 else 0)
        + (if e.1.contains p && e.1.contains q then e.2 else 0)
        = (if e.1.contains p || e.1.contains q then e.2 else 0) := by
      cases e.1.contains p <;> cases e.1.contains q <;> simp
    omega

theorem distance_symm (sm : Setmap) (p q : String) : distance sm p q = distance sm q p := by
  have hu : unionCount sm p q = unionCount sm q p := by
    simp only [unionCount]; congr 1; apply List.map_congr_left; intro e _; simp [Bool.or_comm]
  have hx : xorCount sm p q = xorCount sm q p := by
    simp only [xorCount]; congr 1; apply List.map_congr_left; intro e _; simp [Bool.xor_comm]
  simp [distance, hu, hx]

/-- Jaccard: distance = 1 - |A∩B| / |A∪B| -/
theorem distance_jaccard (sm : Setmap) (p q : String) (d : ℚ) (h : distance sm p q = some d) :
    d = 1 - (interCount sm p q : ℚ) / (unionCount sm p q : ℚ) := by
  unfold distance at h
  split at h
  · simp at h
  · rename_i hne
    simp at h
    have hU : (unionCount sm p q : ℚ) ≠ 0 := by exact_mod_cast hne
    have := xor_add_inter sm p q
    have hq : (xorCount sm p q : ℚ) + interCount sm p q = unionCount sm p q := by exact_mod_cast this
    rw [← h]; field_simp; linarith

theorem distance_range (sm : Setmap) (p q : String) (d : ℚ) (h : distance sm p q = some d) : 0 ≤ d ∧ d ≤ 1 := by
  unfold distance at h
  split at h
  · simp at h
  · rename_i hne
    simp at h
    have hpos : (0 : ℚ) < unionCount sm p q := by
      have : 0 < unionCount sm p q := Nat.pos_of_ne_zero hne
      exact_mod_cast this
    have hle : (xorCount sm p q : ℚ) ≤ unionCount sm p q := by
      have := xor_add_inter sm p q
      have : xorCount sm p q ≤ unionCount sm p q := by omega
      exact_mod_cast this
    rw [← h]
    exact ⟨by positivity, (div_le_one hpos).mpr hle⟩

end CbiVerif.Metrics
