import Lean.Data.Json
import CbiVerif.Model.Regex
import CbiVerif.Model.CompilersRe
/-! driver ops for the regex / template / split models used by C12 (batched: one request, many cases) -/
open Lean
namespace CbiVerif.Drv.Regex
open CbiVerif.Regex

def jstrs (l : List String) : Json := Json.arr (l.map Json.str).toArray

def pairs (j : Json) (k : String) : List (Option String × String) :=
  (((j.getObjValAs? (Array Json) k).toOption.getD #[]).toList).map fun e => match e with
    | Json.arr a => ((a[0]!).getStr?.toOption, (a[1]!).getStr?.toOption.getD "")
    | _ => (none, "")

def errName : CbiVerif.Compilers.PErr → String
  | .keyError => "KeyError"
  | .valueError => "ValueError"
  | .argumentError => "ArgumentError"
  | .systemExit => "SystemExit"
  | .attributeError => "AttributeError"
  | .conflict => "ArgumentError"
  | .unsupported w => "unsupported:" ++ w

/-- {"op":"re_findall","cases":[[pattern,value],..]} → {"results":[{"ok":[[..],..],"groups":n} | {"unsupported":why}]} -/
def handleFindall (j : Json) : Json :=
  Json.mkObj [("results", Json.arr ((pairs j "cases").map fun (p, v) =>
    match parse (p.getD "") with
    | .error (.unsupported w) => Json.mkObj [("unsupported", w)]
    | .ok (r, ng) =>
      Json.mkObj [("groups", ng), ("ok", Json.arr ((findall r ng v.toList).map fun m => jstrs (m.map String.ofList)).toArray)]).toArray)]

/-- {"op":"re_supported","patterns":[..]} → {"supported":[bool..]}: does the C12 model compute `findall` itself
    for an `extend_match` rule with this pattern (`CompilersRe.findallFor`) -/
def handleSupported (j : Json) : Json :=
  let ps := ((j.getObjValAs? (Array String) "patterns").toOption.getD #[]).toList
  Json.mkObj [("supported", Json.arr (ps.map fun p => Json.bool (CbiVerif.Compilers.findallFor p "").isSome).toArray)]

/-- {"op":"py_template","cases":[[format|null,value],..]} → `Compilers.substitute` (the `if self.format:` guard included) -/
def handleTemplate (j : Json) : Json :=
  Json.mkObj [("results", Json.arr ((pairs j "cases").map fun (f, v) =>
    match CbiVerif.Compilers.substitute f v with
    | .ok s => Json.mkObj [("ok", s)]
    | .error e => Json.mkObj [("exc", errName e)]).toArray)]

/-- {"op":"py_split","cases":[[sep|null,value],..]} → `Compilers.pySplit` -/
def handleSplit (j : Json) : Json :=
  Json.mkObj [("results", Json.arr ((pairs j "cases").map fun (sep, v) =>
    match CbiVerif.Compilers.pySplit v sep with
    | .ok l => Json.mkObj [("ok", jstrs l)]
    | .error e => Json.mkObj [("exc", errName e)]).toArray)]

/-- {"op":"nv_arch","values":[..]} → the closed form of the shipped nvcc architecture rule (`CompilersRe.nvArchs`) -/
def handleNvArch (j : Json) : Json :=
  let vs := ((j.getObjValAs? (Array String) "values").toOption.getD #[]).toList
  Json.mkObj [("results", Json.arr (vs.map fun v => jstrs ((CbiVerif.Compilers.nvArchs v.toList).map String.ofList)).toArray)]

def handlers : List (String × (Json → Json)) :=
  [("re_findall", handleFindall), ("re_supported", handleSupported), ("py_template", handleTemplate),
   ("py_split", handleSplit), ("nv_arch", handleNvArch)]

end CbiVerif.Drv.Regex
