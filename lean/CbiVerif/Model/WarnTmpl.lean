/-! # Message templates of the warnings (data types of `Generated/WarnMsg.lean`)

A template is the `log.warning(f"…")` expression of a call site read as data: literal text and
`{placeholder}`s.  Which *field* of the event a placeholder prints is decided by the translator
(`tools/gen/warnmsg.py`) from where the value comes from in the code. -/
namespace CbiVerif.WarnTmpl

inductive Arg
  | file          -- the source file the event is reported against
  | line          -- its line (an `int`)
  | col           -- column of the `#` token (an `int`)
  | name          -- what was requested: header / path / compiler / joined arguments / database
  | kind          -- the category phrase of the include warning ("user include" / "system include")
  | spelling      -- the directive as written (a `str`)
  | spellingList  -- the directive as written, as a one-element `list[str]` (printed with the list's `repr`)
  | other (expr : String)   -- a placeholder the translator could not attribute to a field
deriving DecidableEq, Repr

/-- `.arg a w`: `{a}` for `w = 0`, `{a:>w}` otherwise -/
inductive Piece
  | lit (s : String)
  | arg (a : Arg) (width : Nat)
deriving DecidableEq, Repr

end CbiVerif.WarnTmpl
