"""C14, stream `textmetrics` — metric lines and distance matrix of the composed TEXT-LEVEL pipeline, real code vs
`Props/C14Metrics.lean`.

One generated text-level code base (generator of `c14_text.py`: C01 conditional programs decorated with C05 material, 1-4
files, 0-4 platforms, several compile commands with different `-D` lists) in three presentations (files, `[platform.*]` tables
and database entries rearranged, entries repeated).

Implementation (real code, in process): every presentation is written to its own scratch directory and analysed by
  `finder.find`; on the real dict `state.get_setmap(codebase)` the real `report.divergence`, `report.coverage`,
  `report.average_coverage`, `report.distance` (every ordered pair of the sorted platforms) and `sum(setmap.values())`.
Oracle (property, no model involved): all presentations give bit-identical floats (`float.hex`), the same platform list and
  the same total; "raises" vs "does not raise" is the same.
Model (Lean, driver op `c14textmetrics`): `C14C.metricsOfTexts ratOps` / `C14C.distanceMatrixOfTexts ratOps` per presentation —
  the definitions `C14.Text.metrics_of_texts_perm_files / _perm_platforms / _same_entries / distance_matrix_of_texts_perm` are
  about — and the flag `invariant`; the real floats must be the model's exact rationals up to 1e-9 relative, NaN together; every distance must be BIT FOR BIT the
  double nearest to the model's rational, the divergence bit for bit the IEEE evaluation of the model's fold on those doubles.
  `defs[i].agree` (C07's definitions on the dict of the texts == on the reference attribution read line by line) must be true
  whenever `defs[i].hyps` is: the statement of `C14.Text.metrics_of_texts_are_definitions` evaluated natively; the metric lines of
  `ok` (law-free definitions over exact rationals) must be C07's definitions `defs[i].model` (`metric_lines_rat_are_definitions`).

NOT wired into `harness/props/c14.py` by its author (late additive wave: new files only).  Hook, two lines in `c14.run` after
`CT.collect(ctx, drv, tp_job, tp_in)`:   `from harness.props import c14_metrics as CM`  /  `CM.stream(ctx, drv)`
and in `c14.replay`:  `if case.get("kind") == "textmetrics": return CM.replay(ctx, drv, case)`.
Stand-alone:  `CBI_REPO=... VERIF_SEED=n /venv/bin/python -m harness.props.c14_metrics [n_cases]`  (exit 0 ok / 1 violation or
correspondence break).
"""
from __future__ import annotations

import hashlib
import json
import math
import os
import random
import sys
import time
from fractions import Fraction

from harness import core
from harness.props import c06_text as T
from harness.props import c14_text as CT


def hx(v):
    return v.hex() if isinstance(v, float) else v


def observe(variant):
    """one presentation analysed by the real code -> {'divergence','coverage','average_coverage','total','plats','matrix'} | {'exc'}"""
    from codebasin import CodeBase, finder, report

    with core.Scratch() as d:
        root = os.path.join(os.path.realpath(d), "cb")
        os.makedirs(root)
        for f in variant["files"]:
            full = os.path.join(root, *f["path"])
            os.makedirs(os.path.dirname(full), exist_ok=True)
            with open(full, "wb") as fh:
                fh.write(T.disk_bytes(f))
        cfg = {p["name"]: [{"file": os.path.join(root, *e["file"]), "defines": list(e["defs"]), "include_paths": [], "include_files": []}
                           for e in p["entries"]] for p in variant["plats"]}
        try:
            cb = CodeBase(root)
            st = finder.find(root, cb, cfg, summarize_only=False)
            sm = st.get_setmap(cb)
        except Exception as e:  # noqa
            return {"exc": type(e).__name__}

        def call(f, *a):
            try:
                return f(*a)
            except Exception as e:  # noqa
                return f"EXC:{type(e).__name__}"

        plats = sorted(report.extract_platforms(sm))
        return {"divergence": call(report.divergence, sm), "coverage": call(report.coverage, sm),
                "average_coverage": call(report.average_coverage, sm), "total": sum(sm.values()), "plats": plats,
                "matrix": [[call(report.distance, sm, p, q) for q in plats] for p in plats],
                "setmap": [[sorted(k), int(n)] for k, n in sm.items()]}


def frac(s):
    if s is None:
        return None
    n, d = s.split("/")
    return Fraction(int(n), int(d))


def close(f, q, tol=1e-9):
    if q is None:
        return isinstance(f, float) and math.isnan(f)
    if not isinstance(f, (int, float)) or (isinstance(f, float) and math.isnan(f)):
        return False
    return abs(Fraction(f) - q) <= Fraction(tol) * max(1, abs(q))


KEYS = ("divergence", "coverage", "average_coverage", "total", "plats", "matrix")


def describe_diff(a, b):
    if ("exc" in a) != ("exc" in b):
        return f"one raises ({a.get('exc') or b.get('exc')}), the other returns"
    if "exc" in a:
        return None
    for k in KEYS:
        va, vb = a[k], b[k]
        if k == "matrix":
            va, vb = [[hx(x) for x in r] for r in va], [[hx(x) for x in r] for r in vb]
        if hx(va) != hx(vb):
            return f"{k}: {a[k]!r} vs {b[k]!r} (dicts {a['setmap']} vs {b['setmap']})"
    return None


def model_problems(obs, res):
    if ("exc" in obs) != ("exc" in res):
        return [f"implementation {obs.get('exc', 'returns')} vs model {'raises' if 'exc' in res else 'returns'}"]
    if "exc" in obs:
        return []
    m, out = res["ok"], []
    if m["plats"] != obs["plats"]:
        return [f"sorted platforms {obs['plats']} vs model {m['plats']}"]
    if m["total"] != obs["total"]:
        out.append(f"total {obs['total']} vs model {m['total']}")
    for k, mk in (("divergence", "divergence"), ("coverage", "coverage"), ("average_coverage", "avg")):
        if k == "coverage" and not obs["plats"]:
            continue  # F-C07-1 (coverage of a table without platforms) is C07's recorded finding
        if not close(obs[k], frac(m[mk])):
            out.append(f"{k} {obs[k]!r} vs model {m[mk]}")
    # coverage bit for bit: one correctly rounded quotient of two integers, then one multiplication by 100.0
    if obs["plats"] and m["coverage"] is not None and hx(obs["coverage"]) != hx(fl(frac(m["coverage"]) / 100) * 100.0):
        out.append(f"coverage {obs['coverage']!r} is not the IEEE evaluation {fl(frac(m['coverage']) / 100) * 100.0!r} of (used / total) * 100.0 "
                   f"on the model's exact value {m['coverage']}")
    # distances bit for bit: the code computes ONE correctly rounded quotient of two integers, i.e. float(exact rational)
    cells = [[fl(frac(x)) for x in row] for row in m["matrix"]]
    for i, p in enumerate(obs["plats"]):
        for j, q in enumerate(obs["plats"]):
            if hx(obs["matrix"][i][j]) != hx(cells[i][j]):
                out.append(f"distance[{p}][{q}] {obs['matrix'][i][j]!r} is not the correctly rounded model value {m['matrix'][i][j]} = {cells[i][j]!r}")
    # divergence bit for bit: IEEE evaluation of the model's definition (left fold over itertools.combinations of the sorted
    # platforms, start 0, one division) on the correctly rounded cells
    k, d = len(obs["plats"]), 0
    for i in range(k):
        for j in range(i + 1, k):
            d += cells[i][j]
    want = d / float(k * (k - 1) // 2) if k >= 2 else float("nan")
    if hx(obs["divergence"]) != hx(want):
        out.append(f"divergence {obs['divergence']!r} is not the IEEE evaluation {want!r} of the model's definition on the model's distances")
    return out


def fl(q):
    """the double nearest to an exact rational (`Fraction.__float__` is correctly rounded); NaN for null"""
    return float("nan") if q is None else float(q)


def check_case(ctx, drv, case, origin, record=True):
    assert CT.well_formed(case), "textmetrics: the variants are not presentations of one input"
    obs = [observe(v) for v in case["variants"]]
    problems, model_p, rep = [], [], None
    for i, o in enumerate(obs[1:], 1):
        d = describe_diff(obs[0], o)
        if d:
            problems.append("[textmetrics] the same code base gives different metric values: presentation 0 vs presentation "
                            f"{i} (files / platform tables / database entries rearranged): {d}")
            break
    if drv is not None:
        rep = drv.ask({"op": "c14textmetrics", "variants": case["variants"]})
        if not rep.get("invariant", False):
            model_p.append("the MODEL's metric lines / distance matrix differ between the presentations "
                           "(contradicts C14.Text.metrics_of_texts_deterministic / distance_matrix_of_texts_perm)")
        for i, o in enumerate(obs):
            model_p += [f"presentation {i}: {x}" for x in model_problems(o, rep["results"][i])]
            dd = rep["defs"][i]
            if dd is not None and "ok" in rep["results"][i]:
                ok = rep["results"][i]["ok"]
                bad = [k for k, mk in (("divergence", "divergence"), ("coverage", "coverage"), ("avg", "avg")) if ok[k] != dd["model"][mk]]
                if bad:
                    model_p.append(f"presentation {i}: Order.metricLines over exact rationals {ok} differs from C07's definitions {dd['model']} in {bad} "
                                   "(contradicts C14.Text.metric_lines_rat_are_definitions)")
            if dd is not None and dd["hyps"] and not dd["agree"]:
                model_p.append(f"presentation {i}: C07's definitions on get_setmap of the texts {dd['model']} differ from the same on "
                               f"the reference attribution {dd['reference']} (contradicts C14.Text.metrics_of_texts_are_definitions)")
    if record:
        kcase = {"kind": "textmetrics", "variants": case["variants"], "origin": origin}
        if problems:
            ctx.violation(problems[0], kcase)
        if model_p:
            ctx.corr_break("c14textmetrics", kcase, model_p[:3], "see replay")
        v0 = case["variants"][0]
        nt = None
        if "exc" not in obs[0] and len(obs[0]["plats"]) >= 2 and len(v0["files"]) >= 2 and \
                isinstance(obs[0]["divergence"], float) and not math.isnan(obs[0]["divergence"]) and 0 < obs[0]["divergence"] < 1:
            nt = "textmetrics:" + hashlib.sha1(json.dumps(v0, sort_keys=True).encode()).hexdigest()
        ctx.count(key=f"textmetrics:platforms={len(v0['plats'])}", nontrivial_key=nt)
        if rep is not None:
            hy = [d["hyps"] for d in rep["defs"] if d is not None]
            ctx.dist["textmetrics:definitions theorem applicable" if hy and all(hy) else "textmetrics:outside its hypotheses / raises"] += 1
    return problems, model_p, obs, rep


def stream(ctx, drv, n=None):
    """quick: 30 code bases x 3 presentations (about 4 s); thorough: 300"""
    core.import_codebasin()
    n = ctx.n(30, 300) if n is None else n
    t0 = time.time()
    for _ in range(n):
        seed = ctx.rng.randrange(1 << 30)
        case = CT.gen_case(random.Random(seed))
        check_case(ctx, drv, case, f"textmetrics:{seed}")
    ctx.extra["textmetrics"] = {"code_bases": n, "presentations_per_code_base": 3, "seconds": round(time.time() - t0, 1)}


def replay(ctx, drv, case):
    core.import_codebasin()
    if not CT.well_formed(case):
        return {"error": "the variants of this case are not presentations of one input"}
    problems, model_p, obs, rep = check_case(ctx, drv, case, case.get("origin", "replay"), record=False)
    return {"contradicts_property": problems, "differs_from_model": model_p,
            "implementation": {f"presentation_{i}": o for i, o in enumerate(obs)}, "model": rep,
            "spec": "identical metric lines and distance matrix for every presentation (C14.Text.metrics_of_texts_deterministic)"}


if __name__ == "__main__":
    ctx = core.Ctx("C14", "quick", int(os.environ.get("VERIF_SEED", "0") or 0))
    drv = core.Driver()
    try:
        stream(ctx, drv, int(sys.argv[1]) if len(sys.argv) > 1 else None)
    finally:
        drv.close()
    print(json.dumps({"evaluations": ctx.evaluations, "nontrivial": len(ctx.nontrivial), "dist": dict(ctx.dist),
                      "violations": len(ctx.violations), "corr_breaks": len(ctx.corr_breaks), **ctx.extra}, indent=1))
    for what, case in ctx.violations[:2]:
        print("VIOLATION", what[:600])
        print(json.dumps(case)[:1500])
    for b in ctx.corr_breaks[:2]:
        print("CORR-BREAK", json.dumps(b["impl"])[:1200])
        print(json.dumps(b["case"])[:1500])
    sys.exit(1 if ctx.violations or ctx.corr_breaks else 0)
