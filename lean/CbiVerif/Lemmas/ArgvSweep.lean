import CbiVerif.Model.ArgparseFull
/-! C11 helper: `sweep`, the one-pass (left-to-right) form of the full `parse_known_args` model — the
left-to-right model of `Model/Argparse.lean` extended by the `file` positional and the `extras` list — and the
proof that the index loop of `Model/ArgparseFull.lean` computes exactly it (every outcome, every table). -/
namespace CbiVerif.ArgvSweep
open CbiVerif.Argparse CbiVerif.ArgparseFull

/-- where the single positional `file` stands -/
inductive FileSt
  | pending                       -- no positional seen yet
  | opened (acc : List Arg)       -- inside the first run of positionals (raw strings)
  | closed (f : List Arg)         -- the first run is over: `namespace.file = f`
deriving DecidableEq, Repr, Inhabited

structure XSt where
  cfg : Cfg
  file : FileSt
  extras : List Arg
deriving DecidableEq, Repr, Inhabited

/-- a string in a run of positionals -/
def XSt.pos (s : XSt) (str : Arg) : XSt :=
  match s.file with
  | .pending => { s with file := .opened [str] }
  | .opened acc => { s with file := .opened (acc ++ [str]) }
  | .closed _ => { s with extras := s.extras ++ [str] }

/-- an option string ends the first run -/
def XSt.close (s : XSt) : XSt :=
  match s.file with
  | .opened acc => { s with file := .closed (acc.erase ddash) }
  | _ => s

def fileOf : FileSt → List Arg
  | .pending => []
  | .opened acc => acc.erase ddash
  | .closed f => f

/-- take the action of a value option on the four lists, then wait for nothing -/
def applyX (s : XSt) (a : Act) (w : Val) : Except PErr (Pend × XSt) :=
  match s.cfg.apply a w with
  | .ok c => .ok (.idle, { s with cfg := c })
  | .error e => .error e

def optStepX (s : XSt) (a : Arg) : Cls → Except PErr (Pend × XSt)
  | .opt o (some e) =>
    match o.kind with
    | .value d => applyX s d (toVal e)
    | .ignoreReq => .ok (.idle, s)
    | .ignoreOpt => .ok (.idle, s)
    | .unsupported => .error .unsupported
  | .opt o none =>
    match o.kind with
    | .value d => .ok (.need d, s)
    | .ignoreReq => .ok (.needIgn, s)
    | .ignoreOpt => .ok (.optIgn, s)
    | .unsupported => .error .unsupported
  | _ => .ok (.idle, { s with extras := s.extras ++ [a] })

def stepX (p : Pend) (s : XSt) : Tok → Except PErr (Pend × XSt)
  | .A a =>
    match p with
    | .need d => applyX s d (toVal a)
    | .needIgn => .ok (.idle, s)
    | .optIgn => .ok (.idle, s)
    | _ => .ok (.idle, s.pos a)
  | .DD =>
    match p with
    | .need _ => .error .argumentError
    | .needIgn => .error .argumentError
    | _ => .ok (.idle, s.pos ddash)
  | .O a c =>
    match p with
    | .need _ => .error .argumentError
    | .needIgn => .error .argumentError
    | _ => optStepX s.close a c

def XSt.result (s : XSt) : FResult :=
  ⟨s.cfg.defines, s.cfg.includePaths, s.cfg.systemPaths, s.cfg.includeFiles, fileOf s.file, s.extras⟩

def finishX (p : Pend) (s : XSt) : Except PErr FResult :=
  match p with
  | .need _ => .error .argumentError
  | .needIgn => .error .argumentError
  | _ => .ok s.result

/-- the one-pass form -/
def sweep : Pend → XSt → List Tok → Except PErr FResult
  | p, s, [] => finishX p s
  | p, s, tk :: rest =>
    match stepX p s tk with
    | .ok r => sweep r.1 r.2 rest
    | .error e => .error e

/-- the loop's state as a state of the one-pass form -/
def absSt (st : St) : XSt :=
  ⟨st.cfg, match st.file with | none => .pending | some f => .closed f, st.extras⟩

abbrev noOpt (l : List Tok) : Prop := ∀ x ∈ l, x.isO = false

theorem spanPos_spec : ∀ toks : List Tok,
    toks = (spanPos toks).1 ++ (spanPos toks).2 ∧ noOpt (spanPos toks).1 ∧
    ((spanPos toks).2 = [] ∨ ∃ a c r, (spanPos toks).2 = .O a c :: r)
  | [] => And.intro rfl (And.intro (fun x hx => by cases hx) (Or.inl rfl))
  | .O a c :: r => And.intro rfl (And.intro (fun x hx => by simp [spanPos] at hx) (Or.inr ⟨a, c, r, rfl⟩))
  | .A a :: r => by
    obtain ⟨h1, h2, h3⟩ := spanPos_spec r
    refine ⟨by simp only [spanPos, List.cons_append]; rw [← h1], ?_, h3⟩
    intro x hx
    simp only [spanPos, List.mem_cons] at hx
    rcases hx with rfl | hx
    · rfl
    · exact h2 x hx
  | .DD :: r => by
    obtain ⟨h1, h2, h3⟩ := spanPos_spec r
    refine ⟨by simp only [spanPos, List.cons_append]; rw [← h1], ?_, h3⟩
    intro x hx
    simp only [spanPos, List.mem_cons] at hx
    rcases hx with rfl | hx
    · rfl
    · exact h2 x hx

theorem untilOpt_eq_spanPos : ∀ toks : List Tok, untilOpt toks = spanPos toks
  | [] => rfl
  | .O _ _ :: _ => rfl
  | .A a :: r => by simp [untilOpt, spanPos, untilOpt_eq_spanPos r]
  | .DD :: r => by simp [untilOpt, spanPos, untilOpt_eq_spanPos r]

theorem hasOpt_append (a b : List Tok) : hasOpt (a ++ b) = (hasOpt a || hasOpt b) := by
  simp [hasOpt]

theorem hasOpt_noOpt (l : List Tok) (h : noOpt l) : hasOpt l = false := by
  simp only [hasOpt, List.any_eq_false]
  intro x hx; simp [h x hx]

/-- a run of non-options when the positional is gone: everything goes to `extras` -/
theorem sweep_run_closed : ∀ (run l : List Tok) (c : Cfg) (f : List Arg) (ex : List Arg), noOpt run →
    sweep .idle ⟨c, .closed f, ex⟩ (run ++ l) = sweep .idle ⟨c, .closed f, ex ++ run.map Tok.str⟩ l
  | [], l, c, f, ex, _ => by simp
  | x :: run, l, c, f, ex, h => by
    have hx : x.isO = false := h x (List.mem_cons_self)
    have hr : noOpt run := fun y hy => h y (List.mem_cons_of_mem _ hy)
    cases x with
    | O a cl => simp [Tok.isO] at hx
    | A a =>
      simp only [List.cons_append, sweep, stepX, XSt.pos]
      rw [sweep_run_closed run l c f _ hr]
      simp [Tok.str]
    | DD =>
      simp only [List.cons_append, sweep, stepX, XSt.pos]
      rw [sweep_run_closed run l c f _ hr]
      simp [Tok.str]

/-- a run of non-options inside the first run of positionals -/
theorem sweep_run_opened : ∀ (run l : List Tok) (c : Cfg) (acc : List Arg) (ex : List Arg), noOpt run →
    sweep .idle ⟨c, .opened acc, ex⟩ (run ++ l) = sweep .idle ⟨c, .opened (acc ++ run.map Tok.str), ex⟩ l
  | [], l, c, acc, ex, _ => by simp
  | x :: run, l, c, acc, ex, h => by
    have hx : x.isO = false := h x (List.mem_cons_self)
    have hr : noOpt run := fun y hy => h y (List.mem_cons_of_mem _ hy)
    cases x with
    | O a cl => simp [Tok.isO] at hx
    | A a =>
      simp only [List.cons_append, sweep, stepX, XSt.pos]
      rw [sweep_run_opened run l c _ ex hr]
      simp [Tok.str]
    | DD =>
      simp only [List.cons_append, sweep, stepX, XSt.pos]
      rw [sweep_run_opened run l c _ ex hr]
      simp [Tok.str]

/-- a non-empty run of non-options while the positional is pending opens it -/
theorem sweep_run_pending (run l : List Tok) (c : Cfg) (ex : List Arg) (h : noOpt run) (hne : run ≠ []) :
    sweep .idle ⟨c, .pending, ex⟩ (run ++ l) = sweep .idle ⟨c, .opened (run.map Tok.str), ex⟩ l := by
  cases run with
  | nil => exact absurd rfl hne
  | cons x run =>
    have hx : x.isO = false := h x (List.mem_cons_self)
    have hr : noOpt run := fun y hy => h y (List.mem_cons_of_mem _ hy)
    cases x with
    | O a cl => simp [Tok.isO] at hx
    | A a =>
      simp only [List.cons_append, sweep, stepX, XSt.pos]
      rw [sweep_run_opened run l c _ ex hr]
      simp [Tok.str]
    | DD =>
      simp only [List.cons_append, sweep, stepX, XSt.pos]
      rw [sweep_run_opened run l c _ ex hr]
      simp [Tok.str]

/-- at the end of the command line or at an option string the first run is over -/
theorem sweep_opened_closed (l : List Tok) (c : Cfg) (acc ex : List Arg)
    (hl : l = [] ∨ ∃ a cl r, l = .O a cl :: r) :
    sweep .idle ⟨c, .opened acc, ex⟩ l = sweep .idle ⟨c, .closed (acc.erase ddash), ex⟩ l := by
  rcases hl with rfl | ⟨a, cl, r, rfl⟩
  · simp [sweep, finishX, XSt.result, fileOf]
  · simp [sweep, stepX, XSt.close]

theorem sweep_optIgn (s : XSt) (l : List Tok) (h : ∀ a r, l ≠ .A a :: r) :
    sweep .optIgn s l = sweep .idle s l := by
  cases l with
  | nil => rfl
  | cons x r =>
    cases x with
    | A a => exact absurd rfl (h a r)
    | DD => rfl
    | O a c => rfl

theorem absSt_close (st : St) : (absSt st).close = absSt st := by
  unfold absSt XSt.close
  cases st.file <;> rfl

theorem applyX_abs (st : St) (a : Act) (w : Val) :
    applyX (absSt st) a w =
      match st.cfg.apply a w with
      | .ok c => .ok (.idle, absSt { st with cfg := c })
      | .error e => .error e := by
  simp only [applyX, absSt]

/-- `consume_optional` followed by the rest of the loop = the option step of the one-pass form -/
theorem optional_then_loop (n : Nat)
    (ih : ∀ st toks, toks.length < n → (loop n st toks).map St.result = sweep .idle (absSt st) toks)
    (st : St) (a : Arg) (c : Cls) (rest : List Tok) (hlen : rest.length < n) :
    (match consumeOptional st a c rest with
      | .ok r => loop n r.1 r.2
      | .error e => .error e).map St.result = sweep .idle (absSt st) (.O a c :: rest) := by
  have hsw : sweep .idle (absSt st) (.O a c :: rest) =
      match optStepX (absSt st) a c with
      | .ok r => sweep r.1 r.2 rest
      | .error e => .error e := by
    simp only [sweep, stepX, absSt_close]
  rw [hsw]
  cases c with
  | positional => simp only [consumeOptional, optStepX]; exact ih _ rest hlen
  | unknown => simp only [consumeOptional, optStepX]; exact ih _ rest hlen
  | ambiguous => simp only [consumeOptional, optStepX]; exact ih _ rest hlen
  | opt o e =>
    cases e with
    | some e =>
      cases hk : o.kind with
      | value d =>
        simp only [consumeOptional, optStepX, hk, nargsOf, takeAction, applyX_abs]
        cases hap : st.cfg.apply d (toVal e) with
        | error err => rfl
        | ok c => exact ih _ rest hlen
      | ignoreReq => simp only [consumeOptional, optStepX, hk, nargsOf, takeAction]; exact ih _ rest hlen
      | ignoreOpt => simp only [consumeOptional, optStepX, hk, nargsOf, takeAction]; exact ih _ rest hlen
      | unsupported => simp only [consumeOptional, optStepX, hk, nargsOf]; rfl
    | none =>
      cases hk : o.kind with
      | unsupported => simp only [consumeOptional, optStepX, hk, nargsOf]; rfl
      | value d =>
        cases rest with
        | nil => simp only [consumeOptional, optStepX, hk, nargsOf, matchArgument, sweep, finishX]; rfl
        | cons x r =>
          cases x with
          | A v =>
            simp only [consumeOptional, optStepX, hk, nargsOf, matchArgument, takeAction, sweep, stepX,
              List.take, List.drop, List.map, Tok.str, applyX_abs]
            cases hap : st.cfg.apply d (toVal v) with
            | error err => rfl
            | ok c => exact ih _ r (by simp at hlen; omega)
          | DD => simp only [consumeOptional, optStepX, hk, nargsOf, matchArgument, sweep, stepX]; rfl
          | O b cl => simp only [consumeOptional, optStepX, hk, nargsOf, matchArgument, sweep, stepX]; rfl
      | ignoreReq =>
        cases rest with
        | nil => simp only [consumeOptional, optStepX, hk, nargsOf, matchArgument, sweep, finishX]; rfl
        | cons x r =>
          cases x with
          | A v =>
            simp only [consumeOptional, optStepX, hk, nargsOf, matchArgument, takeAction, sweep, stepX,
              List.take, List.drop, List.map, Tok.str]
            exact ih _ r (by simp at hlen; omega)
          | DD => simp only [consumeOptional, optStepX, hk, nargsOf, matchArgument, sweep, stepX]; rfl
          | O b cl => simp only [consumeOptional, optStepX, hk, nargsOf, matchArgument, sweep, stepX]; rfl
      | ignoreOpt =>
        cases rest with
        | nil =>
          simp only [consumeOptional, optStepX, hk, nargsOf, matchArgument, takeAction, List.take, List.drop, List.map]
          rw [sweep_optIgn _ _ (by intro a r h; cases h)]
          exact ih _ [] hlen
        | cons x r =>
          cases x with
          | A v =>
            simp only [consumeOptional, optStepX, hk, nargsOf, matchArgument, takeAction, sweep, stepX,
              List.take, List.drop, List.map, Tok.str]
            exact ih _ r (by simp at hlen; omega)
          | DD =>
            simp only [consumeOptional, optStepX, hk, nargsOf, matchArgument, takeAction, List.take, List.drop, List.map]
            rw [sweep_optIgn _ _ (by intro a r h; cases h)]
            exact ih _ _ hlen
          | O b cl =>
            simp only [consumeOptional, optStepX, hk, nargsOf, matchArgument, takeAction, List.take, List.drop, List.map]
            rw [sweep_optIgn _ _ (by intro a r h; cases h)]
            exact ih _ _ hlen

theorem hasOpt_cons_O (a : Arg) (c : Cls) (r : List Tok) : hasOpt (.O a c :: r) = true := by
  simp [hasOpt, Tok.isO]

/-- **the index loop computes the one-pass form** (any table, any token list, every outcome) -/
theorem loop_eq_sweep : ∀ (n : Nat) (st : St) (toks : List Tok), toks.length < n →
    (loop n st toks).map St.result = sweep .idle (absSt st) toks
  | 0, _, _, h => absurd h (Nat.not_lt_zero _)
  | n + 1, st, toks, hlen => by
    have ih := loop_eq_sweep n
    obtain ⟨hsplit, hno, htail⟩ := spanPos_spec toks
    by_cases hopt : hasOpt toks = true
    · -- an option string is still ahead
      cases toks with
      | nil => simp [hasOpt] at hopt
      | cons x r =>
        cases x with
        | O a c =>
          simp only [loop, hopt, Bool.not_true, Bool.false_eq_true, if_false]
          exact optional_then_loop n ih st a c r (by simp at hlen; omega)
        | A v =>
          -- (shared with the DD case below, spelled out twice)
          have hne : (spanPos (Tok.A v :: r)).1 ≠ [] := by simp [spanPos]
          have hshort : (spanPos (Tok.A v :: r)).2.length < (Tok.A v :: r).length := by
            have := congrArg List.length hsplit
            simp only [List.length_append] at this
            have h1 : 0 < (spanPos (Tok.A v :: r)).1.length := List.length_pos_iff.mpr hne
            omega
          have htl : ∃ a c r', (spanPos (Tok.A v :: r)).2 = .O a c :: r' := by
            rcases htail with h | h
            · exfalso
              rw [hsplit, h, List.append_nil, hasOpt_noOpt _ hno] at hopt
              exact Bool.noConfusion hopt
            · exact h
          cases hf : st.file with
          | none =>
            have hl : loop (n + 1) st (Tok.A v :: r) =
                loop n { st with file := some (((spanPos (Tok.A v :: r)).1.map Tok.str).erase ddash) } (spanPos (Tok.A v :: r)).2 := by
              simp only [loop, hopt, Bool.not_true, Bool.false_eq_true, if_false, consumePositionals, hf, hshort, if_true]
            rw [hl, ih _ _ (by omega)]
            have hs : absSt st = ⟨st.cfg, .pending, st.extras⟩ := by simp [absSt, hf]
            conv => rhs; rw [hsplit, hs, sweep_run_pending _ _ _ _ hno hne, sweep_opened_closed _ _ _ _ (Or.inr htl)]
            rfl
          | some f =>
            obtain ⟨a, c, r', hr'⟩ := htl
            have hnshort : ¬ (Tok.A v :: r).length < (Tok.A v :: r).length := Nat.lt_irrefl _
            have hl : loop (n + 1) st (Tok.A v :: r) =
                match consumeOptional { st with extras := st.extras ++ (spanPos (Tok.A v :: r)).1.map Tok.str } a c r' with
                | .ok r'' => loop n r''.1 r''.2
                | .error e => .error e := by
              simp only [loop, hopt, Bool.not_true, Bool.false_eq_true, if_false, consumePositionals, hf, hnshort,
                untilOpt_eq_spanPos, hr']
              rfl
            rw [hl, optional_then_loop n ih _ a c r' (by rw [hr'] at hshort; simp at hshort hlen ⊢; omega)]
            have hs : absSt st = ⟨st.cfg, .closed f, st.extras⟩ := by simp [absSt, hf]
            conv => rhs; rw [hsplit, hs, sweep_run_closed _ _ _ _ _ hno, hr']
            simp [absSt, hf]
        | DD =>
          have hne : (spanPos (Tok.DD :: r)).1 ≠ [] := by simp [spanPos]
          have hshort : (spanPos (Tok.DD :: r)).2.length < (Tok.DD :: r).length := by
            have := congrArg List.length hsplit
            simp only [List.length_append] at this
            have h1 : 0 < (spanPos (Tok.DD :: r)).1.length := List.length_pos_iff.mpr hne
            omega
          have htl : ∃ a c r', (spanPos (Tok.DD :: r)).2 = .O a c :: r' := by
            rcases htail with h | h
            · exfalso
              rw [hsplit, h, List.append_nil, hasOpt_noOpt _ hno] at hopt
              exact Bool.noConfusion hopt
            · exact h
          cases hf : st.file with
          | none =>
            have hl : loop (n + 1) st (Tok.DD :: r) =
                loop n { st with file := some (((spanPos (Tok.DD :: r)).1.map Tok.str).erase ddash) } (spanPos (Tok.DD :: r)).2 := by
              simp only [loop, hopt, Bool.not_true, Bool.false_eq_true, if_false, consumePositionals, hf, hshort, if_true]
            rw [hl, ih _ _ (by omega)]
            have hs : absSt st = ⟨st.cfg, .pending, st.extras⟩ := by simp [absSt, hf]
            conv => rhs; rw [hsplit, hs, sweep_run_pending _ _ _ _ hno hne, sweep_opened_closed _ _ _ _ (Or.inr htl)]
            rfl
          | some f =>
            obtain ⟨a, c, r', hr'⟩ := htl
            have hnshort : ¬ (Tok.DD :: r).length < (Tok.DD :: r).length := Nat.lt_irrefl _
            have hl : loop (n + 1) st (Tok.DD :: r) =
                match consumeOptional { st with extras := st.extras ++ (spanPos (Tok.DD :: r)).1.map Tok.str } a c r' with
                | .ok r'' => loop n r''.1 r''.2
                | .error e => .error e := by
              simp only [loop, hopt, Bool.not_true, Bool.false_eq_true, if_false, consumePositionals, hf, hnshort,
                untilOpt_eq_spanPos, hr']
              rfl
            rw [hl, optional_then_loop n ih _ a c r' (by rw [hr'] at hshort; simp at hshort hlen ⊢; omega)]
            have hs : absSt st = ⟨st.cfg, .closed f, st.extras⟩ := by simp [absSt, hf]
            conv => rhs; rw [hsplit, hs, sweep_run_closed _ _ _ _ _ hno, hr']
            simp [absSt, hf]
    · -- no option string is left: trailing positionals, then extras
      have hopt' : hasOpt toks = false := by simpa using hopt
      have h2 : (spanPos toks).2 = [] := by
        rcases htail with h | ⟨a, c, r, h⟩
        · exact h
        · exfalso
          rw [hsplit, hasOpt_append, h, hasOpt_cons_O] at hopt'
          simp at hopt'
      have h1 : (spanPos toks).1 = toks := by
        have := hsplit; rw [h2, List.append_nil] at this; exact this.symm
      have hnoAll : noOpt toks := by rw [← h1]; exact hno
      cases hf : st.file with
      | none =>
        have hl : loop (n + 1) st toks = .ok { st with file := some ((toks.map Tok.str).erase ddash) } := by
          simp only [loop, hopt', Bool.not_false, if_true, consumePositionals, hf, h1, h2, List.map_nil, List.append_nil]
        rw [hl]
        have hs : absSt st = ⟨st.cfg, .pending, st.extras⟩ := by simp [absSt, hf]
        rw [hs]
        by_cases hnil : toks = []
        · subst hnil; rfl
        · have := sweep_run_pending toks [] st.cfg st.extras hnoAll hnil
          rw [List.append_nil] at this
          rw [this]; rfl
      | some f =>
        have hl : loop (n + 1) st toks = .ok { st with extras := st.extras ++ toks.map Tok.str } := by
          simp only [loop, hopt', Bool.not_false, if_true, consumePositionals, hf]
        rw [hl]
        have hs : absSt st = ⟨st.cfg, .closed f, st.extras⟩ := by simp [absSt, hf]
        have := sweep_run_closed toks [] st.cfg f st.extras hnoAll
        rw [List.append_nil] at this
        rw [hs, this]
        simp [sweep, finishX, XSt.result, St.result, fileOf, hf, Except.map]

/-! ### the one-pass form, projected to the four value lists, is the left-to-right model of `Model/Argparse.lean` -/

theorem pos_cfg (s : XSt) (x : Arg) : (s.pos x).cfg = s.cfg := by
  unfold XSt.pos; cases s.file <;> rfl

theorem close_cfg (s : XSt) : s.close.cfg = s.cfg := by
  unfold XSt.close; cases s.file <;> rfl

theorem result_cfg (s : XSt) : s.result.cfg = s.cfg := by
  obtain ⟨⟨a, b, c, d⟩, f, e⟩ := s; rfl

theorem run_afterDD (t : List Opt) : ∀ (l : List Arg) (c : Cfg), run t .afterDD c l = .ok c
  | [], _ => rfl
  | _ :: r, c => by simp only [run, step]; exact run_afterDD t r c

theorem sweep_allA : ∀ (l : List Arg) (s : XSt), (sweep .idle s (l.map Tok.A)).map FResult.cfg = .ok s.cfg
  | [], s => by simp [sweep, finishX, Except.map, result_cfg]
  | a :: r, s => by
    simp only [List.map, sweep, stepX]
    rw [sweep_allA r (s.pos a), pos_cfg]

/-- the token the up-front pass makes of one argument -/
def tokOf (t : List Opt) (a : Arg) : Tok :=
  match classify t a with
  | .positional => .A a
  | c => .O a c

theorem toVal_ne (a : Arg) (h : a ≠ ddash) : toVal a = .str a := by
  unfold toVal; rw [if_neg]; exact h

theorem applyX_spec (s : XSt) (c : Cfg) (hc : s.cfg = c) (a : Act) (w : Val) :
    match applyX s a w with
    | .ok r => applyIdle c a w = .ok (r.1, r.2.cfg) ∧ ¬ r.1 = .afterDD
    | .error e => applyIdle c a w = .error e := by
  subst hc
  unfold applyX applyIdle
  cases s.cfg.apply a w <;> simp

/-- one step of the one-pass form on the token of `a` = one step of the left-to-right model on `a` -/
theorem stepX_step (t : List Opt) (a : Arg) (p : Pend) (s : XSt) (hp : p ≠ .afterDD) (hne : a ≠ ddash)
    (hamb : classify t a ≠ .ambiguous) :
    match stepX p s (tokOf t a) with
    | .ok r => step t p s.cfg a = .ok (r.1, r.2.cfg) ∧ r.1 ≠ .afterDD
    | .error e => step t p s.cfg a = .error e := by
  have hv : viewOf t a = viewOfCls (classify t a) := by
    unfold viewOf; rw [if_neg]; exact hne
  have htv := toVal_ne a hne
  unfold tokOf
  cases hc : classify t a with
  | ambiguous => exact absurd hc hamb
  | positional =>
    cases p <;> simp [stepX, step, hv, hc, viewOfCls, idleStep, pos_cfg, htv] at hp ⊢ <;>
      exact applyX_spec _ _ rfl _ _
  | unknown =>
    cases p <;> simp [stepX, step, hv, hc, viewOfCls, idleStep, optStepX, close_cfg] at hp ⊢
  | opt o e =>
    cases e with
    | none =>
      cases hk : o.kind <;> cases p <;>
        simp [stepX, step, hv, hc, viewOfCls, idleStep, optStepX, close_cfg, hk] at hp ⊢
    | some e =>
      cases hk : o.kind <;> cases p <;>
        simp [stepX, step, hv, hc, viewOfCls, idleStep, optStepX, close_cfg, hk] at hp ⊢ <;>
        exact applyX_spec _ _ (close_cfg s) _ _

theorem tokenize_cons (t : List Opt) (a : Arg) (rest : List Arg) (toks : List Tok) (hne : a ≠ ddash)
    (h : tokenize t (a :: rest) = .ok toks) :
    classify t a ≠ .ambiguous ∧ ∃ toks', tokenize t rest = .ok toks' ∧ toks = tokOf t a :: toks' := by
  simp only [tokenize, if_neg hne] at h
  unfold tokOf
  cases hc : classify t a <;> simp only [hc] at h ⊢ <;>
    first
    | (cases h)
    | (cases hr : tokenize t rest with
       | error e => simp [hr, Except.map] at h
       | ok toks' =>
         simp only [hr, Except.map, Except.ok.injEq] at h
         exact ⟨by simp, toks', rfl, h.symm⟩)

/-- **the one-pass form restricted to the four lists is `Argparse.run`** -/
theorem sweep_cfg_eq_run (t : List Opt) : ∀ (argv : List Arg) (toks : List Tok) (p : Pend) (s : XSt),
    p ≠ .afterDD → tokenize t argv = .ok toks → (sweep p s toks).map FResult.cfg = run t p s.cfg argv
  | [], toks, p, s, hp, h => by
    simp only [tokenize, Except.ok.injEq] at h
    subst h
    cases p <;> simp [sweep, finishX, run, finish, Except.map, result_cfg] at hp ⊢
  | a :: rest, toks, p, s, hp, h => by
    by_cases hdd : a = ddash
    · subst hdd
      simp only [tokenize, if_true, Except.ok.injEq] at h
      subst h
      have hv : viewOf t ddash = .ddash := by unfold viewOf; rw [if_pos]; rfl
      cases p with
      | afterDD => exact absurd rfl hp
      | need d => simp [sweep, stepX, run, step, hv, Except.map]
      | needIgn => simp [sweep, stepX, run, step, hv, Except.map]
      | idle =>
        simp only [sweep, stepX, run, step, hv, idleStep]
        rw [sweep_allA, pos_cfg, run_afterDD]
      | optIgn =>
        have : (View.ddash = View.positional) = False := by simp
        simp only [sweep, stepX, run, step, hv, idleStep, this, if_false]
        rw [sweep_allA, pos_cfg, run_afterDD]
    · obtain ⟨hamb, toks', hrest, rfl⟩ := tokenize_cons t a rest toks hdd h
      have hs := stepX_step t a p s hp hdd hamb
      simp only [sweep, run]
      cases hx : stepX p s (tokOf t a) with
      | error e =>
        simp only [hx] at hs
        simp [hs, Except.map]
      | ok r =>
        simp only [hx] at hs
        obtain ⟨h1, h2⟩ := hs
        simp only [h1]
        exact sweep_cfg_eq_run t rest toks' r.1 r.2 h2 hrest

/-- the up-front pass fails exactly when the left-to-right model's up-front check fires -/
theorem tokenize_ambiguous (t : List Opt) : ∀ argv : List Arg,
    (ambiguousUpfront t argv = true → tokenize t argv = .error .systemExit) ∧
    (ambiguousUpfront t argv = false → ∃ toks, tokenize t argv = .ok toks)
  | [] => ⟨by simp [ambiguousUpfront], fun _ => ⟨[], rfl⟩⟩
  | a :: rest => by
    obtain ⟨ih1, ih2⟩ := tokenize_ambiguous t rest
    by_cases hdd : a = ddash
    · subst hdd
      have : ambiguousUpfront t (ddash :: rest) = false := by simp [ambiguousUpfront, ddash]
      exact And.intro (fun h => by rw [this] at h; cases h) (fun _ => ⟨Tok.DD :: rest.map Tok.A, by simp [tokenize]⟩)
    · have hdd' : ¬ a = ['-', '-'] := hdd
      have hv : viewOf t a = viewOfCls (classify t a) := by
        unfold viewOf; rw [if_neg]; exact hdd
      simp only [ambiguousUpfront, if_neg hdd', tokenize, if_neg hdd, hv]
      cases hc : classify t a with
      | ambiguous => simp [viewOfCls]
      | positional =>
        simp only [viewOfCls]
        constructor
        · intro h
          have : ambiguousUpfront t rest = true := by simpa using h
          simp [ih1 this, Except.map]
        · intro h
          have : ambiguousUpfront t rest = false := by simpa using h
          obtain ⟨toks, ht⟩ := ih2 this
          exact ⟨Tok.A a :: toks, by simp [ht, Except.map]⟩
      | unknown =>
        simp only [viewOfCls]
        constructor
        · intro h
          have : ambiguousUpfront t rest = true := by simpa using h
          simp [ih1 this, Except.map]
        · intro h
          have : ambiguousUpfront t rest = false := by simpa using h
          obtain ⟨toks, ht⟩ := ih2 this
          exact ⟨Tok.O a .unknown :: toks, by simp [ht, Except.map]⟩
      | opt o e =>
        have hna : (viewOfCls (.opt o e) == View.ambiguous) = false := by
          cases e <;> (cases hk : o.kind <;> simp [viewOfCls, hk])
        rw [hna]
        constructor
        · intro h
          have : ambiguousUpfront t rest = true := by simpa using h
          simp [ih1 this, Except.map]
        · intro h
          have : ambiguousUpfront t rest = false := by simpa using h
          obtain ⟨toks, ht⟩ := ih2 this
          exact ⟨Tok.O a (.opt o e) :: toks, by simp [ht, Except.map]⟩

/-- the full model as the one-pass form -/
theorem parseFull_eq_sweep (t : List Opt) (argv : List Arg) (toks : List Tok) (h : tokenize t argv = .ok toks)
    (hu : t.any (fun o => o.kind == .unsupported) = false) :
    parseFull t argv = sweep .idle ⟨{}, .pending, []⟩ toks := by
  unfold parseFull
  simp only [h, hu, Bool.false_eq_true, if_false]
  exact loop_eq_sweep _ {} toks (Nat.lt_succ_self _)

/-- **full_refines_lr**, every table and every command line, failures included -/
theorem parseFull_cfg (t : List Opt) (argv : List Arg) :
    (parseFull t argv).map FResult.cfg = parseKnown t argv := by
  unfold parseKnown
  obtain ⟨h1, h2⟩ := tokenize_ambiguous t argv
  cases ha : ambiguousUpfront t argv with
  | true =>
    unfold parseFull
    simp [h1 ha, Except.map]
  | false =>
    obtain ⟨toks, ht⟩ := h2 ha
    cases hu : t.any (fun o => o.kind == .unsupported) with
    | true =>
      unfold parseFull
      simp [ht, hu, Except.map]
    | false =>
      rw [parseFull_eq_sweep t argv toks ht hu]
      simp only [Bool.false_eq_true, if_false]
      exact sweep_cfg_eq_run t argv toks .idle ⟨{}, .pending, []⟩ (by simp) ht

end CbiVerif.ArgvSweep
