import CbiVerif.Lemmas.CLexPart
/-! # C05: `##` at the start of a logical line (finding class F-C05-3) — the joined buffer of a logical
line is the one-space normalisation of everything the reference lets survive on it -/
namespace CbiVerif.CLexSim
open CbiVerif.CClean CbiVerif.CLexRef CbiVerif.CText

/-! ## `addAll` appends; `join` = `addAll` unless a literal blank meets a trailing space -/

/-- parts appended by a list of buffer actions and the final trailing flag, given the initial flag -/
def app : Bool → List REmit → List Cls × Bool
  | tr, [] => ([], tr)
  | tr, .sp :: es => if tr then app true es else (.space :: (app true es).1, (app true es).2)
  | _, .ns k :: es => (k :: (app false es).1, (app false es).2)

theorem addAll_app (es : List REmit) : ∀ b : CBuf, b.addAll es = ⟨b.parts ++ (app b.trailing es).1, (app b.trailing es).2⟩ := by
  induction es with
  | nil => intro b; simp [CBuf.addAll, app]
  | cons e es ih =>
    intro b
    simp only [CBuf.addAll, List.foldl_cons] at ih ⊢
    rw [ih]
    cases e with
    | sp =>
      cases ht : b.trailing
      · simp [CBuf.add, ht, app]
      · simp [CBuf.add, ht, app]
    | ns k => simp [CBuf.add, app]

theorem app_nil_iff (es : List REmit) : (app false es).1 = [] → es = [] := by
  cases es with
  | nil => intro _; rfl
  | cons e es => cases e <;> simp [app]

/-- the first action is not a literal blank (`" "` appended with `append_nonspace`) -/
def firstOK : List REmit → Bool
  | .ns .space :: _ => false
  | _ => true

theorem join_addAll (b : CBuf) (es : List REmit) (h : b.trailing = true → firstOK es = true) :
    b.join (({} : CBuf).addAll es) = b.addAll es := by
  rw [addAll_app es b, addAll_app es {}]
  simp only [List.nil_append]
  unfold CBuf.join
  cases es with
  | nil => simp [app]
  | cons e es' =>
    cases e with
    | sp =>
      cases ht : b.trailing
      · simp [app]
      · simp [app]
    | ns k =>
      cases ht : b.trailing
      · simp [app]
      · have := h ht
        have hk : (k == Cls.space) = false := by cases k <;> simp [firstOK] at this <;> rfl
        simp [app, hk]

/-! ## `##` in a single buffer -/

/-- the surviving characters start (after code white space) with two `#` in a row -/
def hhE : List REmit → Bool
  | .sp :: es => hhE es
  | .ns .hash :: .ns .hash :: _ => true
  | _ => false

theorem parts_prefix (es : List REmit) (b : CBuf) : ∃ rest, (b.addAll es).parts = b.parts ++ rest := by
  rw [addAll_app]; exact ⟨_, rfl⟩

theorem hh_after_vis (pre : List Cls) (hpre : pre = [] ∨ pre = [Cls.space]) (k : Cls) (hk : k.isWhite = false)
    (es : List REmit) :
    hashHash ((⟨pre ++ [k], false⟩ : CBuf).addAll es).parts = hhE (.ns k :: es) := by
  cases es with
  | nil =>
    rcases hpre with rfl | rfl <;> cases k <;> simp [Cls.isWhite] at hk <;> simp [CBuf.addAll, hashHash, hhE]
  | cons e es' =>
    simp only [CBuf.addAll, List.foldl_cons]
    cases e with
    | sp =>
      obtain ⟨rest, hr⟩ := parts_prefix es' ((⟨pre ++ [k], false⟩ : CBuf).add .sp)
      simp only [CBuf.addAll] at hr
      rw [hr]
      rcases hpre with rfl | rfl <;> cases k <;> simp [Cls.isWhite] at hk <;> simp [CBuf.add, hashHash, hhE]
    | ns c =>
      obtain ⟨rest, hr⟩ := parts_prefix es' ((⟨pre ++ [k], false⟩ : CBuf).add (.ns c))
      simp only [CBuf.addAll] at hr
      rw [hr]
      rcases hpre with rfl | rfl <;> cases k <;> simp [Cls.isWhite] at hk <;> cases c <;> simp [CBuf.add, hashHash, hhE]

theorem hh_addAll_gen (es : List REmit) : ∀ b : CBuf, b.OnlySp → leadOK none es = true →
    hashHash (b.addAll es).parts = hhE es := by
  induction es with
  | nil =>
    intro b hb _
    rcases hb with ⟨hp, _⟩ | ⟨hp, _⟩ <;> simp [CBuf.addAll, hp, hashHash, hhE]
  | cons e es ih =>
    intro b hb hok
    cases e with
    | sp =>
      simp only [leadOK] at hok
      simp only [CBuf.addAll, List.foldl_cons, hhE]
      exact ih _ (onlySp_add b .sp hb rfl rfl) hok
    | ns k =>
      simp only [leadOK, Bool.not_eq_true'] at hok
      simp only [CBuf.addAll, List.foldl_cons]
      have hadd : b.add (.ns k) = ⟨b.parts ++ [k], false⟩ := rfl
      rw [hadd]
      rcases hb with ⟨hp, _⟩ | ⟨hp, _⟩
      · rw [hp]; exact hh_after_vis [] (Or.inl rfl) k hok es
      · rw [hp]; exact hh_after_vis [Cls.space] (Or.inr rfl) k hok es

theorem hh_addAll (es : List REmit) (hok : leadOK none es = true) :
    hashHash (({} : CBuf).addAll es).parts = hhE es := hh_addAll_gen es {} onlySp_empty hok

/-! ## a trailing space is never followed by the blank of a literal -/

def lastSp (es : List REmit) : Bool := es.getLast? == some .sp

def trOK (w : DMode) (k : Cls) : Bool :=
  match dstep w k.kind with
  | none => true
  | some o =>
    let es := refEmits w k o
    (es != [] || w.inLiteral || !o.mode.inLiteral) && (!lastSp es || !o.mode.inLiteral) &&
      (w.inLiteral || firstOK es)

theorem trOK_all : (allW.all fun w => allC.all fun c => trOK w c) = true := by decide

theorem trOK_each (w : DMode) (k : Cls) : trOK w k = true := by
  have h := trOK_all
  simp only [List.all_eq_true] at h
  exact h w (by cases w <;> simp [allW]) k (by cases k <;> simp [allC])

theorem app_append (xs ys : List REmit) : ∀ tr, (app tr (xs ++ ys)).2 = (app (app tr xs).2 ys).2 := by
  induction xs with
  | nil => intro tr; rfl
  | cons e xs ih =>
    intro tr
    cases e with
    | sp => cases tr <;> simp [app, ih]
    | ns k => simp [app, ih]

theorem app_tr_cases (es : List REmit) (tr : Bool) : (app tr es).2 = if es = [] then tr else lastSp es := by
  induction es generalizing tr with
  | nil => rfl
  | cons e es ih =>
    cases e with
    | sp =>
      cases tr <;> simp only [app, if_true, Bool.false_eq_true, if_false, ih] <;>
        (cases es <;> simp [lastSp, List.getLast?_cons_cons])
    | ns k =>
      simp only [app, ih]
      cases es <;> simp [lastSp, List.getLast?_cons_cons]

theorem firstOK_append (xs ys : List REmit) : firstOK (xs ++ ys) = if xs = [] then firstOK ys else firstOK xs := by
  cases xs with
  | nil => rfl
  | cons e xs => cases e with
    | sp => rfl
    | ns k => cases k <;> rfl

/-- over the characters of a line: if the buffer's trailing flag implies a non-literal mode before,
    it does so after, and a literal blank is never the first action after a trailing space -/
theorem chars_tr (ks : List Cls) : ∀ (w w' : DMode) (es : List REmit) (tr : Bool),
    refChars w ks = some (w', es) → (tr = true → w.inLiteral = false) →
    ((app tr es).2 = true → w'.inLiteral = false) ∧ (tr = true → firstOK es = true) := by
  induction ks with
  | nil =>
    intro w w' es tr h htr
    simp only [refChars, Option.some.injEq, Prod.mk.injEq] at h
    obtain ⟨rfl, rfl⟩ := h
    exact ⟨fun h => htr (by simpa [app] using h), fun _ => rfl⟩
  | cons k ks ih =>
    intro w w' es tr h htr
    simp only [refChars] at h
    cases ho : dstep w k.kind with
    | none => simp [ho] at h
    | some o =>
      simp only [ho] at h
      cases hr : refChars o.mode ks with
      | none => simp [hr] at h
      | some r =>
        obtain ⟨w2, es2⟩ := r
        simp only [hr, Option.some.injEq, Prod.mk.injEq] at h
        obtain ⟨rfl, rfl⟩ := h
        have ht := trOK_each w k
        simp only [trOK, ho, Bool.and_eq_true, Bool.or_eq_true, Bool.not_eq_true', bne_iff_ne, ne_eq] at ht
        obtain ⟨⟨t1, t2⟩, t3⟩ := ht
        have hmid : (app tr (refEmits w k o)).2 = true → o.mode.inLiteral = false := by
          rw [app_tr_cases]
          split
          · rename_i hnil
            intro htr'
            rcases t1 with (t1 | t1) | t1
            · exact absurd hnil t1
            · rw [htr htr'] at t1; exact absurd t1 (by simp)
            · exact t1
          · intro hl
            rcases t2 with t2 | t2
            · rw [hl] at t2; exact absurd t2 (by simp)
            · exact t2
        obtain ⟨i1, i2⟩ := ih o.mode w2 es2 (app tr (refEmits w k o)).2 hr hmid
        refine ⟨?_, ?_⟩
        · rw [app_append]; exact i1
        · intro htr'
          rw [firstOK_append]
          split
          · rename_i hnil
            have : (app tr (refEmits w k o)).2 = true := by rw [app_tr_cases, if_pos hnil]; exact htr'
            exact i2 this
          · rcases t3 with t3 | t3
            · rw [htr htr'] at t3; exact absurd t3 (by simp)
            · exact t3

theorem line_tr (w w' : DMode) (ks : List Cls) (cont : Bool) (es : List REmit) (ends : Bool) (tr : Bool)
    (h : refLine w ks cont = some (w', es, ends)) (htr : tr = true → w.inLiteral = false) :
    ((app tr es).2 = true → w'.inLiteral = false) ∧ (tr = true → firstOK es = true) := by
  unfold refLine at h
  cases hr : refChars w ks with
  | none => simp [hr] at h
  | some r =>
    obtain ⟨w1, es1⟩ := r
    simp only [hr] at h
    obtain ⟨c1, c2⟩ := chars_tr ks w w1 es1 tr hr htr
    cases cont with
    | true =>
      simp only [if_true, Option.some.injEq, Prod.mk.injEq] at h
      obtain ⟨rfl, rfl, rfl⟩ := h
      exact ⟨c1, c2⟩
    | false =>
      simp only [Bool.false_eq_true, if_false] at h
      cases hn : refNewline w1 with
      | none => simp [hn] at h
      | some r2 =>
        obtain ⟨w2, es2, e2⟩ := r2
        simp only [hn, Option.some.injEq, Prod.mk.injEq] at h
        obtain ⟨rfl, rfl, rfl⟩ := h
        have hw2 : w2.inLiteral = false := by
          revert hn; cases w1 <;> simp [refNewline] <;> intro h _ _ <;> subst h <;> rfl
        refine ⟨fun _ => hw2, ?_⟩
        intro htr'
        rw [firstOK_append]
        split
        · revert hn; cases w1 <;> simp [refNewline] <;> intro _ h _ <;> subst h <;> rfl
        · exact c2 htr'


/-! ## the joined buffer of every logical line -/

/-- everything the reference lets survive on each logical line, as buffer actions -/
def expectE (acc : List REmit) : List LD → List (List REmit)
  | [] => [acc]
  | d :: ds => if d.ends then (acc ++ d.es) :: expectE [] ds else expectE (acc ++ d.es) ds

theorem addAll_trailing (es : List REmit) : (({} : CBuf).addAll es).trailing = (app false es).2 := by
  rw [addAll_app]

theorem srcLoop_parts (rs : List RawLine) : ∀ (s : DState) (n : Nat) (scs : List Scan) (d : Bool) (acc : Acc)
    (E : List REmit),
    scanPer s (n + 1) rs = some scs → (∀ sc ∈ scs, sc.k1 = false) →
    (lastSt s scs).mode = .code → (∀ r ∈ rs, plainLine r = true) →
    s.mode ≠ .sqSl → acc.cur.toC = ({} : CBuf).addAll E → leadOK none E = true →
    ((app false E).2 = true → s.mode.inLiteral = false) → (lead none E = none → s.mode.inLiteral = false) →
    (srcLoop (absStack d s.mode) acc n (rs.map toPLine)).1.map (fun l => l.parts.map (·.1))
        = (expectE E (scs.map ldOf)).map (fun e => (({} : CBuf).addAll e).parts) ∧
      ∀ e ∈ expectE E (scs.map ldOf), leadOK none e = true := by
  induction rs with
  | nil =>
    intro s n scs d acc E h _ _ _ _ hcur hok _ _
    simp only [scanPer, Option.some.injEq] at h
    subst h
    simp only [List.map_nil, srcLoop, expectE, List.map_cons, List.mem_singleton, forall_eq]
    refine ⟨?_, hok⟩
    rw [← hcur]; rfl
  | cons r rs ih =>
    intro s n scs d acc E h hk1 hlast hplain hsq hcur hok htr hlead
    simp only [scanPer] at h
    cases hdec : decomment s (lineItems (n + 1) r) with
    | none => simp [hdec] at h
    | some sc =>
      simp only [hdec] at h
      cases hrest : scanPer sc.st (n + 1 + 1) rs with
      | none => simp [hrest] at h
      | some rest =>
        simp only [hrest, Option.some.injEq] at h
        subst h
        obtain ⟨ends, body, f⟩ := line_ref s (n + 1) r sc hdec (hplain r (by simp))
        have hk1r : ∀ x ∈ rest, x.k1 = false := fun x hx => hk1 x (by simp [hx])
        simp only [lastSt] at hlast
        have hsq' : sc.st.mode ≠ .sqSl := by
          intro hm
          have hpt := f.ptag (fun h => absurd h hsq) hm
          rcases sqSl_carry rs sc.st (n + 1 + 1) rest hrest hm (by omega) with h1 | h1
          · simp only [List.any_eq_true] at h1
            obtain ⟨x, hx, hxk⟩ := h1
            rw [hk1r x hx] at hxk; exact absurd hxk (by simp)
          · rw [hlast] at h1; exact absurd h1 (by simp)
        have hw : holdL s.mode = [] := by simp [holdL, hsq]
        have hw' : holdL sc.st.mode = [] := by simp [holdL, hsq']
        obtain ⟨d', p1, p2, p3, _⟩ := line_sim d s.mode sc.st.mode (toPLine r) (renderAll body) ends f.ref hw hw'
        obtain ⟨l1, l2, l3⟩ := line_lead s.mode sc.st.mode _ _ (renderAll body) ends (lead none E) f.ref hlead
        obtain ⟨t1, t2⟩ := line_tr s.mode sc.st.mode _ _ (renderAll body) ends (app false E).2 f.ref htr
        have hld := ldOf_facts f
        have hjoin : (acc.cur.join (procLine (absStack d s.mode) (toPLine r)).2.1).toC
            = ({} : CBuf).addAll (E ++ renderAll body) := by
          rw [toC_join, p2, hcur, join_addAll _ _ (by rw [addAll_trailing]; exact t2), CBuf.addAll_append]
        have hok' : leadOK none (E ++ renderAll body) = true := by
          rw [leadOK_append, hok, l1]; rfl
        have hplain' : ∀ r' ∈ rs, plainLine r' = true := fun r' hr' => hplain r' (by simp [hr'])
        simp only [List.map_cons, srcLoop, hld, expectE]
        cases hends : ends with
        | true =>
          rw [hends] at p3 l3
          have hcode : sc.st.mode = .code := l3 rfl
          have ih' := ih sc.st (n + 1) rest d' { start := n + 2 } [] hrest hk1r hlast hplain' hsq' rfl rfl
            (by simp [app]) (fun _ => by simp [hcode, DMode.inLiteral])
          simp only [p3, if_true, List.map_cons, p1, List.mem_cons, forall_eq_or_imp]
          refine ⟨?_, hok', ih'.2⟩
          rw [ih'.1]
          congr 1
          have := congrArg CBuf.parts hjoin
          simpa [Buf.toC] using this
        | false =>
          rw [hends] at p3
          simp only [p3, Bool.false_eq_true, if_false, p1]
          exact ih sc.st (n + 1) rest d' _ (E ++ renderAll body) hrest hk1r hlast hplain' hsq' hjoin hok'
            (by rw [app_append]; exact t1) (by rw [lead_append]; exact l2)

/-! ## the specification side -/

theorem segments_mem (xs : List Surv) : ∀ (cur seg : List Surv), seg ∈ segments xs cur → ∀ x ∈ seg,
    (x ∈ xs ∨ x ∈ cur) ∧ (x.isNl = true → x ∈ cur) := by
  induction xs with
  | nil =>
    intro cur seg hseg x hx
    simp only [segments] at hseg
    split at hseg
    · simp at hseg
    · simp only [List.mem_singleton] at hseg
      subst hseg
      have : x ∈ cur := by simpa using hx
      exact ⟨Or.inr this, fun _ => this⟩
  | cons y ys ih =>
    intro cur seg hseg x hx
    cases y with
    | nl n =>
      simp only [segments, List.mem_cons] at hseg
      rcases hseg with rfl | hseg
      · have : x ∈ cur := by simpa using hx
        exact ⟨Or.inr this, fun _ => this⟩
      · obtain ⟨h1, h2⟩ := ih [] seg hseg x hx
        refine ⟨?_, fun hn => ?_⟩
        · rcases h1 with h1 | h1
          · exact Or.inl (by simp [h1])
          · simp at h1
        · have := h2 hn; simp at this
    | ch c n lit =>
      simp only [segments] at hseg
      obtain ⟨h1, h2⟩ := ih (.ch c n lit :: cur) seg hseg x hx
      refine ⟨?_, fun hn => ?_⟩
      · rcases h1 with h1 | h1
        · exact Or.inl (by simp [h1])
        · simp only [List.mem_cons] at h1
          rcases h1 with rfl | h1
          · exact Or.inl (by simp)
          · exact Or.inr h1
      · have := h2 hn
        simp only [List.mem_cons] at this
        rcases this with rfl | this
        · simp [Surv.isNl] at hn
        · exact this

theorem expectE_segments (rs : List RawLine) : ∀ (s : DState) (n : Nat) (scs : List Scan) (cur : List Surv),
    scanPer s (n + 1) rs = some scs → (∀ sc ∈ scs, sc.k1 = false) → (∀ r ∈ rs, plainLine r = true) →
    ∀ e ∈ expectE (renderAll cur.reverse) (scs.map ldOf),
      e = [] ∨ ∃ seg ∈ segments (scs.flatMap (·.out)) cur, renderAll seg = e := by
  induction rs with
  | nil =>
    intro s n scs cur h _ _ e he
    simp only [scanPer, Option.some.injEq] at h
    subst h
    simp only [List.map_nil, expectE, List.mem_singleton] at he
    subst he
    cases cur with
    | nil => left; rfl
    | cons x xs => right; exact ⟨(x :: xs).reverse, by simp [segments], rfl⟩
  | cons r rs ih =>
    intro s n scs cur h hk hp e he
    simp only [scanPer] at h
    cases hd : decomment s (lineItems (n + 1) r) with
    | none => simp [hd] at h
    | some sc =>
      simp only [hd] at h
      cases hr : scanPer sc.st (n + 1 + 1) rs with
      | none => simp [hr] at h
      | some rest =>
        simp only [hr, Option.some.injEq] at h
        subst h
        obtain ⟨_, _, ends, body, hout, hnonl, hld⟩ := line_out s (n + 1) r sc hd (hk sc (by simp)) (hp r (by simp))
        simp only [List.map_cons, hld, expectE] at he
        simp only [List.flatMap_cons]
        rw [hout, List.append_assoc, segments_body body _ cur hnonl]
        have hk' : ∀ y ∈ rest, y.k1 = false := fun y hy => hk y (by simp [hy])
        have hp' : ∀ y ∈ rs, plainLine y = true := fun y hy => hp y (by simp [hy])
        cases ends with
        | true =>
          simp only [if_true, List.mem_cons] at he
          simp only [if_true, List.singleton_append, segments, List.reverse_append, List.reverse_reverse, List.mem_cons]
          rcases he with rfl | he
          · right
            exact ⟨cur.reverse ++ body, Or.inl rfl, by rw [renderAll_append]⟩
          · have := ih sc.st (n + 1) rest [] hr hk' hp' e (by simpa [renderAll] using he)
            rcases this with h1 | ⟨seg, hs, hre⟩
            · exact Or.inl h1
            · exact Or.inr ⟨seg, Or.inr hs, hre⟩
        | false =>
          simp only [Bool.false_eq_true, if_false, List.nil_append] at he ⊢
          have hacc : renderAll (body.reverse ++ cur).reverse = renderAll cur.reverse ++ renderAll body := by
            simp [List.reverse_append, renderAll_append]
          exact ih sc.st (n + 1) rest (body.reverse ++ cur) hr hk' hp' e (by rw [hacc]; exact he)


/-! ## `##` in the specification's terms -/

theorem shh_white (x : Surv) (xs : List Surv) (h : x.isWhite = true) :
    CLexRef.startsHashHash (x :: xs) = CLexRef.startsHashHash xs := by
  simp [CLexRef.startsHashHash, List.dropWhile, h]

def isHashCh : Surv → Bool
  | .ch c _ _ => c == '#'
  | .nl _ => false

theorem shh_nonwhite (x : Surv) (xs : List Surv) (h : x.isWhite = false) :
    CLexRef.startsHashHash (x :: xs) = (isHashCh x && (match xs with | y :: _ => isHashCh y | [] => false)) := by
  cases x with
  | nl n => simp [Surv.isWhite] at h
  | ch c n lit =>
    simp only [CLexRef.startsHashHash, List.dropWhile, h, isHashCh]
    by_cases hc : c = '#'
    · subst hc
      cases xs with
      | nil => simp
      | cons y ys =>
        cases y with
        | nl m => simp [isHashCh]
        | ch c2 m l2 =>
          by_cases hc2 : c2 = '#'
          · subst hc2; simp [isHashCh]
          · simp [hc2]
    · have : (c == '#') = false := by simpa using hc
      simp only [this, Bool.false_and]
      split <;> simp_all

theorem classify_hash_ch (c : Char) : (c == '#') = true → classify c = Cls.hash := by
  intro h; have := classify_hash c; rw [h] at this; simpa using this

theorem hhE_ns (k : Cls) (es : List REmit) : hhE (.ns k :: es) =
    (k == Cls.hash && (match es with | .ns k2 :: _ => k2 == Cls.hash | _ => false)) := by
  cases k <;> simp [hhE] <;> (cases es with
    | nil => simp [hhE]
    | cons e es' => cases e with
      | sp => simp [hhE]
      | ns k2 => cases k2 <;> simp [hhE])

theorem hh_spec (seg : List Surv) : (∀ x ∈ seg, x.plain = true) → (∀ x ∈ seg, x.isNl = false) →
    leadOK none (renderAll seg) = true → CLexRef.startsHashHash seg = hhE (renderAll seg) := by
  induction seg with
  | nil => intro _ _ _; rfl
  | cons x xs ih =>
    intro hp hn hok
    have hp' : ∀ y ∈ xs, y.plain = true := fun y hy => hp y (by simp [hy])
    have hn' : ∀ y ∈ xs, y.isNl = false := fun y hy => hn y (by simp [hy])
    cases x with
    | nl n => have := hn (.nl n) (by simp); simp [Surv.isNl] at this
    | ch c n lit =>
      have hpc : plainChar c = true := hp (.ch c n lit) (by simp)
      cases hw : cWhite c with
      | true =>
        rw [shh_white _ _ (by simp [Surv.isWhite, hw])]
        cases lit with
        | false =>
          simp only [renderAll, List.flatMap_cons, Surv.render, hw, Bool.not_false, Bool.and_true, if_true,
            List.singleton_append, hhE, leadOK] at hok ⊢
          exact ih hp' hn' hok
        | true =>
          simp only [renderAll, List.flatMap_cons, Surv.render, hw, Bool.not_true, Bool.and_false,
            Bool.false_eq_true, if_false, List.singleton_append, leadOK, isWhite_classify c hpc] at hok
      | false =>
        rw [shh_nonwhite _ _ (by simp [Surv.isWhite, hw])]
        have hr : renderAll (Surv.ch c n lit :: xs) = .ns (classify c) :: renderAll xs := by
          simp [renderAll, Surv.render, hw]
        rw [hr, hhE_ns, classify_hash c]
        simp only [isHashCh]
        congr 1
        cases xs with
        | nil => rfl
        | cons y ys =>
          cases y with
          | nl m => have := hn (.nl m) (by simp); simp [Surv.isNl] at this
          | ch c2 m l2 =>
            have hpc2 : plainChar c2 = true := hp (.ch c2 m l2) (by simp)
            simp only [isHashCh, renderAll, List.flatMap_cons, Surv.render, List.singleton_append]
            by_cases hc2 : c2 = '#'
            · subst hc2
              have : cWhite '#' = false := by decide
              simp [this, classify]
            · have h1 : (c2 == '#') = false := by simpa using hc2
              rw [h1]
              have hcl := classify_hash c2
              rw [h1] at hcl
              cases hq : (cWhite c2 && !l2)
              · simp only [Bool.false_eq_true, if_false]
                exact hcl.symm
              · simp


/-! ## assembling: outside F-C05-3 no yielded line starts with `##`, so `parse_file` does not raise -/

theorem groupLoop_ok (lls : List LLine) : ∀ code : Option (List Nat × Nat),
    (∀ l ∈ lls, l.startsHashHash = false) → ∃ ns, groupLoop code lls = .ok ns := by
  induction lls with
  | nil => intro code _; cases code <;> exact ⟨_, rfl⟩
  | cons l rest ih =>
    intro code h
    have hl := h l (by simp)
    have hrest : ∀ x ∈ rest, x.startsHashHash = false := fun x hx => h x (by simp [hx])
    simp only [groupLoop, hl, Bool.false_eq_true, if_false]
    split
    · obtain ⟨ns, hns⟩ := ih none hrest
      rw [hns]
      cases code <;> exact ⟨_, rfl⟩
    · cases code with
      | none => exact ih _ hrest
      | some c => exact ih _ hrest

theorem all_eq (ls : List RawLine) (h : badFinal ls = false) :
    (cFileSourceLines ls).all = (srcLoop [.top] {} 0 (ls.map toPLine)).1 := by
  simp [cFileSourceLines, h]

theorem no_hashHash (ls : List RawLine) (scs : List Scan) (f : TextFacts ls scs) (hnl : nlOK ls = true)
    (hk3 : (segments (scs.flatMap (·.out)) []).any CLexRef.startsHashHash = false) :
    ∀ l ∈ (cFileSourceLines ls).all, l.startsHashHash = false := by
  rw [all_eq ls (badFinal_false ls hnl f.nofinal)]
  have h := srcLoop_parts ls {} 0 scs false {} [] f.scan f.k1 f.last f.plain (by simp) rfl rfl (by simp [app])
    (fun _ => rfl)
  have habs : absStack false ({} : DState).mode = [.top] := rfl
  rw [habs] at h
  obtain ⟨hparts, hlead⟩ := h
  intro l hl
  have hm : l.parts.map (·.1) ∈ (srcLoop [.top] {} 0 (ls.map toPLine)).1.map (fun l => l.parts.map (·.1)) :=
    List.mem_map_of_mem (f := fun l : LLine => l.parts.map (·.1)) hl
  rw [hparts, List.mem_map] at hm
  obtain ⟨e, he, hpe⟩ := hm
  unfold LLine.startsHashHash
  rw [← hpe, hh_addAll e (hlead e he)]
  have hseg := expectE_segments ls {} 0 scs [] f.scan f.k1 f.plain e (by simpa [renderAll] using he)
  rcases hseg with rfl | ⟨seg, hs, rfl⟩
  · rfl
  · have hplainAll : ∀ x ∈ scs.flatMap (·.out), x.plain = true := by
      have hsc := decomment_splice ls {} 1
      rw [f.scan] at hsc
      simp only [Option.map_some] at hsc
      have := decomment_plain (splice 1 ls) {} _ hsc (by
        intro it hit
        -- every item of the spliced text comes from a plain line
        clear hsc
        have : ∀ (rs : List RawLine) (n : Nat), (∀ r ∈ rs, plainLine r = true) → ∀ it ∈ splice n rs, it.plain = true := by
          intro rs
          induction rs with
          | nil => intro n _ it hit; simp [splice] at hit
          | cons r rs ih =>
            intro n hp it hit
            simp only [splice, List.mem_append] at hit
            rcases hit with hit | hit
            · exact lineItems_plain n r (hp r (by simp)) it hit
            · exact ih (n + 1) (fun r' hr' => hp r' (by simp [hr'])) it hit
        exact this ls 1 f.plain it hit)
      simpa using this
    have hmem := segments_mem _ [] seg hs
    rw [← hh_spec seg (fun x hx => hplainAll x (by
          rcases (hmem x hx).1 with h1 | h1
          · exact h1
          · simp at h1))
        (fun x hx => by
          cases hx' : x.isNl with
          | false => rfl
          | true => have := (hmem x hx).2 hx'; simp at this)
        (hlead _ he)]
    rw [List.any_eq_false] at hk3
    simpa using hk3 seg hs

end CbiVerif.CLexSim
