"""C10 — excluding files removes their lines from the counts and changes nothing else.

Implementation: codebasin.finder.find / ParserState.get_setmap, CodeBase, report.files,
                the CLIs `codebasin`, `codebasin.tree`, `codebasin.coverage`.
Model (Lean):   CbiVerif.Exclude (Model/Exclude.lean): cache- and language-aware `find`, `setmapOf`,
                `effectivePatterns`; driver ops `c10find`, `c10pats`, `c10ext`.
Property oracle (independent of the model): every case is analysed without and with each exclusion;
                membership is predicted from the *intended* subset, setmaps are recomputed from the
                per-node attribution of the analysis without exclusion.
"""
from __future__ import annotations

import collections
import contextlib
import io
import itertools
import json
import os
import re

from harness import core
from harness.gen import codebase as G

KIND = {"CodeNode": "code", "IfNode": "ifk", "ElIfNode": "elifk", "ElseNode": "elsek", "EndIfNode": "endk",
        "DefineNode": "define", "UndefNode": "undef", "IncludeNode": "include", "PragmaNode": "pragma",
        "UnrecognizedDirectiveNode": "unrecognized"}
SRC_EXT = (".c", ".cpp", ".cc", ".h", ".hpp", ".f90", ".s")
LANG_CLASS = {"c": "c", "c++": "c", "fortran-free": "fortran", "asm": "asm"}
EXT_CLASS = {".c": "c", ".cpp": "c", ".cc": "c", ".h": "c", ".hpp": "c", ".f90": "fortran", ".s": "asm"}


# --------------------------------------------------------------------------
# generator
# --------------------------------------------------------------------------
def fbody(rng, headers, here, depth=2, budget=None):
    """lines of a free-form Fortran source with preprocessor conditionals"""
    budget = budget or [10]
    out = []
    for _ in range(rng.randint(1, 4)):
        if budget[0] <= 0:
            break
        budget[0] -= 1
        r = rng.random()
        if r < 0.4:
            out.append(f"x{rng.randint(0, 9)} = {rng.randint(0, 9)}")
        elif r < 0.5:
            out.append(rng.choice(["! comment", "", "call sub(a, b) ! t", "y = 1 + &", "print *, x"]))
            if out[-1].endswith("&"):
                out.append("    2")
        elif r < 0.6:
            n = rng.choice(G.NAMES)
            out.append(f"#define {n} {rng.randint(0, 2)}" if rng.random() < 0.6 else f"#undef {n}")
        elif r < 0.8 and headers:
            h = rng.choice(headers)
            out.append(f'#include "{os.path.relpath(h, os.path.dirname(here) or ".")}"')
        elif depth > 0:
            out.append(f"#if {G.cond(rng)}")
            out += fbody(rng, headers, here, depth - 1, budget)
            if rng.random() < 0.5:
                out.append("#else")
                out += fbody(rng, headers, here, depth - 1, budget)
            out.append("#endif")
        else:
            out.append(f"z{rng.randint(0, 9)} = 0")
    return out


def body_range(lines):
    """insertion positions that keep an include guard / #pragma once intact"""
    if lines and lines[0].startswith("#ifndef") and lines[-1] == "#endif":
        return 2, len(lines) - 1
    if lines and lines[0].startswith("#pragma"):
        return 1, len(lines)
    return 0, len(lines)


def gen_case(rng, mixed_lang=None):
    """A code base (root + sibling `outside`), its platforms and nothing else; exclude lists are added by the caller.
    files: {path relative to the scratch dir: text}; platforms: {name: [{file (root-relative), arguments}]}"""
    desc = G.gen_codebase(rng, None, nplat=rng.randint(1, 3), write=False)
    texts = {p: list(b) for p, b in desc["texts"].items()}
    plats = {p: [dict(file=e["file"], arguments=list(e["arguments"])) for e in es] for p, es in desc["platforms"].items()}
    headers, sources = list(desc["headers"]), list(desc["sources"])
    # make sure headers define macros that other files test
    for h in headers:
        if rng.random() < 0.7:
            n = rng.choice(G.NAMES)
            line = rng.choice([f"#define {n} 1", f"#define {n} 0", f"#undef {n}", f"#define {n}"])
            lo, hi = body_range(texts[h])
            texts[h].insert(rng.randint(lo, hi), line)
    outside = {}
    n_out = rng.choice([0, 1, 1, 2])
    for k in range(n_out):
        # also the usual style of third-party headers: no extension at all, or one the tool does not know
        name = rng.choice([f"o{k}.h", f"o{k}.h", f"O{k}Core", f"o{k}.def", f"o{k}.tpp"])
        n = rng.choice(G.NAMES)
        b = [f"#define {n} {rng.randint(0, 1)}", f"int outside{k};"]
        if rng.random() < 0.5:
            b = [f"#ifndef {rng.choice(G.NAMES)}"] + b + ["#else", f"#undef {n}", "#endif"]
        if rng.random() < 0.3:
            b = ["#pragma once"] + b
        outside[name] = b
    users = []
    if outside:
        # include the outside headers from some files inside the root (found through -I ../outside)
        for name in outside:
            for tgt in rng.sample(sources + headers, rng.randint(1, min(2, len(sources + headers)))):
                lo, hi = body_range(texts[tgt])
                texts[tgt].insert(rng.randint(lo, hi), f'#include "{name}"')
                users.append(tgt)
        for es in plats.values():
            for e in es:
                if rng.random() < 0.85:
                    e["arguments"] = e["arguments"][:1] + ["-I", "../outside"] + e["arguments"][1:]
    tus = gen_outside_tus(rng, desc, texts, headers, plats, outside)
    mixed = rng.random() < 0.3 if mixed_lang is None else mixed_lang
    if mixed and headers:
        # a header whose meaning depends on the language it is parsed in (directive inside a C comment),
        # and free-form Fortran sources that include headers
        h = rng.choice(headers)
        n = rng.choice(G.NAMES)
        pos = body_range(texts[h])[0]
        texts[h][pos:pos] = ["/*", f"#define {n} 1", "*/"]
        for k in range(rng.randint(1, 2)):
            f = os.path.join(rng.choice(desc["dirs"]), f"f{k}.f90")
            texts[f] = fbody(rng, [h] + rng.sample(headers, rng.randint(0, len(headers))), f)
            if not any(line.startswith("#include") for line in texts[f]) or rng.random() < 0.5:
                texts[f].insert(0, f'#include "{os.path.relpath(h, os.path.dirname(f) or ".")}"')
            sources.append(f)
            for p, es in plats.items():
                if rng.random() < 0.8:
                    defs = [f"-D{x}={rng.randint(0, 1)}" for x in G.NAMES if rng.random() < 0.4]
                    e = {"file": f, "arguments": ["gfortran"] + defs + (["-I", "../outside"] if outside and rng.random() < 0.5 else []) + ["-c", f]}
                    es.insert(rng.randint(0, len(es)), e)
    files = {os.path.join("root", p): "\n".join(b) + ("\n" if b else "") for p, b in texts.items()}
    for name, b in outside.items():
        files[os.path.join("outside", name)] = "\n".join(b) + "\n"
    for name, b in tus.items():
        files[os.path.join("outside", name)] = "\n".join(b) + "\n"
    return {"files": files, "platforms": plats, "mixed_lang": bool(mixed and headers)}


TU_SPELLINGS = ("rel", "abs", "builddir", "builddir_rel")


def gen_outside_tus(rng, desc, texts, headers, plats, outside):
    """0-2 translation units *compiled* from the sibling directory outside the root (the source generated into an
    out-of-tree build directory, the unity file, ...).  Each defines some of the macros A,B,C itself and/or gets them
    through -D, includes in-tree headers (found by base name through -I <their directory>) and possibly an in-tree
    source (unity build) or a sibling outside header, so that in-tree lines may be reached by this unit only.
    The compile command is spelled in one of four ways:
      rel          file ../outside/g.c, directory = root
      abs          file ${OUT}/g.c (absolute), directory = root
      builddir     directory = ${OUT} (absolute), file g.c, -I ${ROOT}/<dir>
      builddir_rel directory = ../outside (relative to the root), file g.c, -I ${ROOT}/<dir>
    ${ROOT} / ${OUT} are replaced by the absolute paths when the case is written to disk.
    Returns {file name: [lines]}; adds the commands to `plats` (sometimes as a platform of its own)."""
    tus = {}
    n_tu = rng.choice([0, 1, 1, 1, 2])
    for k in range(n_tu):
        name = f"g{k}.{rng.choice(['c', 'cpp', 'cc'])}"
        pool = list(headers)
        inc = rng.sample(pool, rng.randint(1, min(2, len(pool)))) if pool else []
        items = [f'#include "{os.path.basename(h)}"' for h in inc]
        incdirs = [os.path.dirname(h) for h in inc]
        if desc["sources"] and rng.random() < 0.25:
            s = rng.choice(desc["sources"])           # unity build: an in-tree source included from outside
            items.append(f'#include "{os.path.basename(s)}"')
            incdirs.append(os.path.dirname(s))
        if outside and rng.random() < 0.4:
            items.append(f'#include "{rng.choice(sorted(outside))}"')   # sibling: found next to the includer
        rng.shuffle(items)
        b = []
        for n in G.NAMES:
            if rng.random() < 0.5:
                b.append(rng.choice([f"#define {n} 1", f"#define {n} 1", f"#define {n} 0", f"#define {n} 2", f"#undef {n}"]))
        own = G.body(rng, 2, [], name, [6], False)
        for it in items:
            own.insert(rng.randint(0, len(own)), it)
        tus[name] = b + own
        users = [p for p in plats if rng.random() < 0.7] or ([rng.choice(sorted(plats))] if plats else [])
        if rng.random() < 0.2 or not users:
            fresh = [p for p in G.PLATFORM_NAMES if p not in plats]
            if fresh:
                plats[fresh[0]] = []                  # a platform that compiles nothing but out-of-tree units
                users.append(fresh[0])
        for p in users:
            style = rng.choice(TU_SPELLINGS)
            defs = [f"-D{n}={rng.randint(0, 1)}" for n in G.NAMES if rng.random() < 0.3]
            incs = []
            for dname in dict.fromkeys(incdirs):
                if rng.random() < 0.9:
                    inside = dname or "."
                    incs += ["-I", inside if style in ("rel", "abs") else "${ROOT}" + ("/" + dname if dname else "")]
            if style == "rel":
                e = {"file": "../outside/" + name, "arguments": ["gcc"] + defs + incs + ["-c", "../outside/" + name]}
            elif style == "abs":
                e = {"file": "${OUT}/" + name, "arguments": ["gcc"] + defs + incs + ["-c", "${OUT}/" + name]}
            else:
                e = {"file": name, "directory": "${OUT}" if style == "builddir" else "../outside",
                     "arguments": ["gcc"] + defs + incs + ["-c", name]}
            plats[p].insert(rng.randint(0, len(plats[p])), e)
    return tus


def source_files(case):
    """root-relative paths of the recognised source files under the root"""
    return sorted(p[len("root/"):] for p in case["files"] if p.startswith("root/") and p.endswith(SRC_EXT))


def spec_match(pattern, rel):
    """the four pattern shapes the generator uses, read as .gitignore lines relative to the root"""
    if pattern.startswith("*."):
        return rel.endswith(pattern[1:])
    if pattern.endswith("/"):
        d = pattern.strip("/")
        parts = rel.split("/")[:-1]
        if "/" in d or pattern.startswith("/"):
            return rel.startswith(d + "/")
        return d in parts
    if pattern.startswith("/"):
        return rel == pattern[1:]
    if "/" in pattern:
        return rel == pattern
    return rel.split("/")[-1] == pattern or pattern in rel.split("/")[:-1]


def spec_excluded(pats, rel):
    """.gitignore reading of a pattern list: the last matching pattern decides, `!` re-includes"""
    res = False
    for p in pats:
        if p.startswith("!"):
            if spec_match(p[1:], rel):
                res = False
        elif spec_match(p, rel):
            res = True
    return res


def ref_excluded(ctx, drv, pats, rels):
    """The files among `rels` (root-relative) that the pattern list excludes, by the Lean reference of gitignore(5)
    (Spec/GitIgnore.lean, driver op `gitignore`: the last matching pattern decides, an excluded parent directory wins);
    the generator's own reading `spec_excluded` is only the fall-back when the driver does not build, and is
    cross-checked against the reference (a disagreement is a note about the generator, not about the code)."""
    mine = [f for f in rels if spec_excluded(pats, f)]
    if drv is None or not rels:
        return mine
    try:
        r = drv.ask({"op": "gitignore", "cases": [{"patterns": list(pats), "paths": [{"p": f, "d": False} for f in rels]}]})[0]
        ref = [f for f, ign in zip(rels, r) if ign]
    except Exception as e:  # noqa
        ctx.notes.append(f"driver op gitignore not answered ({type(e).__name__}); generator's own prediction used")
        return mine
    ctx.dist["expected_members_from_lean_gitignore"] += 1
    if ref != mine:
        ctx.notes.append(f"generator's prediction of the excluded set {mine} differs from the Lean gitignore reference {ref} for {pats}")
    return ref


def patterns_for(rng, subset, allsrc, allpaths):
    """exclude patterns (as `/path`, `path`, basename, `*.ext`, `dir/`) matching exactly `subset` among `allpaths`"""
    subset = set(subset)
    pats, covered = [], set()
    exts = sorted(set(os.path.splitext(f)[1] for f in subset))
    if exts and rng.random() < 0.2:
        # `*.ext` followed by re-inclusions of the files of that extension that are to stay
        ext = rng.choice(exts)
        keep = [g for g in allpaths if g.endswith(ext) and g not in subset]
        if 0 < len(keep) <= 3:
            pats = ["*" + ext] + ["!/" + g for g in keep]
            covered = {g for g in allsrc if g.endswith(ext) and g in subset}
    order = sorted(subset - covered)
    rng.shuffle(order)
    for f in order:
        if f in covered and rng.random() < 0.8:
            continue
        cands = ["/" + f]
        base = f.split("/")[-1]
        if all(g in subset for g in allpaths if spec_match(base, g)):
            cands.append(base)
        if "/" in f:
            cands.append(f)
        ext = "*" + os.path.splitext(f)[1]
        if all(g in subset for g in allpaths if spec_match(ext, g)):
            cands += [ext, ext]
        parts = f.split("/")[:-1]
        for k in range(1, len(parts) + 1):
            for d in ("/".join(parts[:k]) + "/", "/" + "/".join(parts[:k]) + "/", parts[k - 1] + "/"):
                if all(g in subset for g in allpaths if spec_match(d, g)):
                    cands += [d, d]
        p = rng.choice(cands)
        pats.append(p)
        covered |= {g for g in allsrc if spec_match(p, g)}
    return pats


def subsets_for(rng, allsrc, limit, exhaustive_upto=5):
    n = len(allsrc)
    if n == 0:
        return []
    if n <= exhaustive_upto:
        subs = [list(s) for r in range(1, n + 1) for s in itertools.combinations(allsrc, r)]
        if len(subs) > limit:
            subs = rng.sample(subs, limit)
        return subs
    subs = [[f] for f in rng.sample(allsrc, min(n, max(1, limit // 3)))]
    while len(subs) < limit:
        subs.append(sorted(rng.sample(allsrc, rng.randint(1, n))))
    return subs


# --------------------------------------------------------------------------
# materialisation + adapters
# --------------------------------------------------------------------------
def materialise(d, case, toml_excludes=None, toml_name="analysis.toml", blank=()):
    d = os.path.realpath(str(d))
    root = os.path.join(d, "root")
    os.makedirs(root, exist_ok=True)
    for p, text in case["files"].items():
        full = os.path.join(d, p)
        os.makedirs(os.path.dirname(full), exist_ok=True)
        with open(full, "w") as f:
            f.write("" if p in blank else text)
    for name, entries in case["platforms"].items():
        with open(os.path.join(root, f"{name}.json"), "w") as f:
            json.dump(db_entries(entries, d), f)
    write_toml(root, case, toml_excludes, toml_name)
    return root


def place(s, d):
    """${ROOT} / ${OUT}: absolute paths of the root and of its sibling `outside` in this materialisation"""
    return s.replace("${ROOT}", os.path.join(d, "root")).replace("${OUT}", os.path.join(d, "outside"))


def db_entries(entries, d):
    """the compilation-database entries as written to disk (directory defaults to the root)"""
    root = os.path.join(d, "root")
    return [{"file": place(e["file"], d), "directory": place(e["directory"], d) if e.get("directory") else root,
             "arguments": [place(a, d) for a in e["arguments"]]} for e in entries]


def spec_commands(case, d):
    """Specification of the loader, from the case description alone: every compile command whose file exists is
    kept, wherever the file lies -> {platform: [absolute normalised path of the compiled file, in database order]}"""
    root = os.path.join(d, "root")
    out = {}
    for name, entries in case["platforms"].items():
        out[name] = []
        for e in db_entries(entries, d):
            base = e["directory"] if os.path.isabs(e["directory"]) else os.path.join(root, e["directory"])
            path = os.path.normpath(os.path.join(base, e["file"]))
            if os.path.exists(path):
                out[name].append(path)
    return out


def is_outside_entry(e):
    dr, f = e.get("directory") or "", e["file"]
    return f.startswith(("../outside/", "${OUT}/")) or dr == "${OUT}" or dr.startswith("../outside")


def outside_commands(case):
    """(platform, spelling) of the commands that compile a file from outside the root"""
    out = []
    for name, entries in case["platforms"].items():
        for e in entries:
            dr, f = e.get("directory") or "", e["file"]
            if f.startswith("../outside/"):
                out.append((name, "rel"))
            elif f.startswith("${OUT}/"):
                out.append((name, "abs"))
            elif dr == "${OUT}":
                out.append((name, "builddir"))
            elif dr.startswith("../outside"):
                out.append((name, "builddir_rel"))
    return out


def loader_model(ctx, drv, case, d, cfg):
    """correspondence for the step before `find`: codebasin.config.load_database against the Lean model and the
    Lean specification of the loader (driver op `dbload`, the definitions C13's theorems are about)"""
    from codebasin import config

    root = os.path.join(d, "root")
    seen = {}
    for name, entries in case["platforms"].items():
        doc = db_entries(entries, d)
        table = []
        for argv in {tuple(e["arguments"]) for e in doc}:
            try:
                cfgs = config.ArgumentParser(os.path.basename(argv[0])).parse_args(list(argv[1:]))
                table.append([list(argv), [[c.pass_name, list(c.include_paths)] for c in cfgs]])
            except BaseException:  # noqa  (argparse is C11's subject)
                return seen
        req = {"op": "dbload", "cwd": os.getcwd(), "root": root, "doc": doc, "parses": table}
        r1 = drv.ask(req)
        if "candidates" not in r1:
            ctx.notes.append(f"dbload not answered: {json.dumps(r1)[:200]}")
            return seen
        req["exists"] = [[p, os.path.exists(p)] for p in dict.fromkeys(r1.get("candidates", []))]
        req["exists_loc"] = [[loc, os.path.exists("/" + "/".join(loc))] for loc in r1["spec"].get("candidates", [])]
        r = drv.ask(req)
        impl = [[e["file"], list(e["include_paths"])] for e in cfg[name]]
        ctx.dist["loader_vs_model"] += 1
        mm = r["model"]
        seen[name] = mm.get("error") or rel([e["file"] for e in mm["entries"]], d)
        if "error" in mm or [[e["file"], e["include_paths"]] for e in mm["entries"]] != impl:
            ctx.corr_break("dbload", {"files": case["files"], "platforms": case["platforms"], "excludes": [], "intended": [], "platform": name},
                           impl, mm)
        sp = r["spec"]
        if sp.get("wf"):
            # self-check of this file's own loader specification against the Lean one
            mine = [[c for c in f.split("/") if c] for f in spec_commands(case, d)[name]]
            if mine != [e["file"] for e in sp["entries"]]:
                ctx.notes.append(f"spec_commands differs from the Lean loader specification on platform {name}: "
                                 f"{mine} vs {[e['file'] for e in sp['entries']]}")
    return seen


def write_toml(root, case, toml_excludes, toml_name):
    with open(os.path.join(root, toml_name), "w") as f:
        if toml_excludes is not None:
            f.write("[codebase]\nexclude = [" + ", ".join(json.dumps(p) for p in toml_excludes) + "]\n\n")
        for name in case["platforms"]:
            f.write(f'[platform.{name}]\ncommands = "{name}.json"\n\n')


def load_config(root, case):
    from codebasin import config

    return {name: config.load_database(os.path.join(root, f"{name}.json"), root) for name in case["platforms"]}


def run_find(root, cfg, excludes, lookups=None):
    """lookups: a list that receives every include look-up the real code makes
    [platform, name, including directory, system form, the platform's search directories, result]"""
    from codebasin import CodeBase, finder
    from codebasin import platform as plat

    cb = CodeBase(root, exclude_patterns=list(excludes))
    if lookups is None:
        st = finder.find(root, cb, cfg, summarize_only=False)
        return cb, st
    orig = plat.Platform.find_include_file

    def spy(self, filename, this_path, is_system_include=False):
        r = orig(self, filename, this_path, is_system_include)
        lookups.append([self.name, filename, this_path, bool(is_system_include), list(self._include_paths), r])
        return r

    plat.Platform.find_include_file = spy
    try:
        st = finder.find(root, cb, cfg, summarize_only=False)
    finally:
        plat.Platform.find_include_file = orig
    return cb, st


def audit_lookups(ctx, case_rec, lookups, d, what):
    """'still preprocessed when ... included': a file named by an #include is the first existing regular file in the
    including directory (quote form) and the command's search directories, whatever its name or extension and wherever
    it lies (inside the root, excluded, outside); the file-system facts are read directly from the disk"""
    for pname, name, here, sysinc, dirs, res in lookups:
        cands = ([] if sysinc else [os.path.join(here, name)]) + [os.path.join(p, name) for p in dirs]
        want = next((c for c in cands if os.path.isfile(c)), None)
        ctx.dist["include_lookups_audited"] += 1
        if (None if want is None else os.path.realpath(want)) != (None if res is None else os.path.realpath(res)):
            ctx.violation(f"{what}: platform {pname}: #include {'<' if sysinc else chr(34)}{name}{'>' if sysinc else chr(34)} from "
                          f"{os.path.relpath(here, d)}/ resolves to {None if res is None else os.path.relpath(res, d)}; the first existing file in the "
                          f"search order is {None if want is None else os.path.relpath(want, d)} (it must be preprocessed, its macros keep their effect)", case_rec)
            return False
    return True


def nodes_of(st):
    """{abs file: [[kind, lines, sorted platforms, num_lines]]} for every parsed file"""
    from codebasin.preprocessor import CodeNode

    out = {}
    for f in st.get_filenames():
        tree, m = st.get_tree(f), st.get_map(f)
        out[f] = [[KIND.get(type(n).__name__, type(n).__name__), list(n.lines), sorted(m[n]), n.num_lines]
                  for n in tree.walk() if isinstance(n, CodeNode)]
    return out


def own_setmap(att, files):
    sm = collections.Counter()
    for f in files:
        for _, _, ps, num in att.get(f, []):
            sm[frozenset(ps)] += num
    return {k: v for k, v in sm.items()}


def norm_setmap(sm):
    return {frozenset(k): v for k, v in sm.items()}


def model_request(d, case, cfg, members, excluded=()):
    d = os.path.realpath(str(d))
    files = {os.path.join(d, p): t for p, t in case["files"].items()}
    return {"op": "c10find", "files": files, "codebase": list(members), "excluded": list(excluded),
            "config": [{"name": p, "entries": [{"file": e["file"], "defines": list(e["defines"]),
                                                "include_paths": list(e["include_paths"]),
                                                "include_files": list(e["include_files"])} for e in cfg[p]]} for p in cfg]}


def model_setmap(rows):
    sm = collections.Counter()
    for k, n in rows:
        sm[frozenset(k)] += n
    return {k: v for k, v in sm.items() if True}


def drop_zero(sm):
    return {k: v for k, v in sm.items() if v != 0}


def lang_classes(st):
    return {f: LANG_CLASS.get(lang) for f, lang in st.langs.items()}


def class_changes(cls0, clsE):
    """files parsed under different language classes in the analysis without / with the exclusion"""
    return {f: (cls0[f], clsE[f]) for f in cls0 if f in clsE and cls0[f] != clsE[f]}


def lang_mismatch(st):
    """files parsed in a language class other than their extension's (the D19 precondition), from the real state"""
    out = {}
    for f, lang in st.langs.items():
        ec = EXT_CLASS.get(os.path.splitext(f)[1])
        lc = LANG_CLASS.get(lang)
        if ec is not None and lc is not None and ec != lc:
            out[f] = (lc, ec)
    return out


def tree_report(cb, st):
    from codebasin import report

    buf = io.StringIO()
    report.files(cb, st, stream=buf)
    return G.parse_tree(buf.getvalue())


# --------------------------------------------------------------------------
# the in-process check of one case
# --------------------------------------------------------------------------
def d19_pred(info):
    return lambda c: bool(info.get("mismatch"))


def check_case(ctx, drv, case, exclude_lists, origin, effect_runs=6):
    """exclude_lists: [(patterns, intended subset (root-relative))]"""
    rep = {"origin": origin, "lists": []}
    with core.Scratch() as d:
        d = os.path.realpath(str(d))
        root = materialise(d, case)
        allsrc = source_files(case)
        outside_abs = sorted(os.path.join(d, p) for p in case["files"] if p.startswith("outside/"))
        try:
            cfg = load_config(root, case)
            lookups0 = []
            cb0, st0 = run_find(root, cfg, [], lookups0)
            members0 = sorted(cb0)
            att0 = nodes_of(st0)
            sm0 = norm_setmap(st0.get_setmap(cb0))
        except Exception as e:  # the code base itself is not analysable: not a C10 input
            ctx.count(key="base_analysis_raises:" + type(e).__name__)
            rep["base_exc"] = f"{type(e).__name__}: {e}"
            return rep
        base_case = {"files": case["files"], "platforms": case["platforms"], "excludes": [], "intended": []}
        audit_lookups(ctx, base_case, lookups0, d, "analysis without exclusion")
        exp0 = sorted(os.path.join(root, f) for f in allsrc)
        # "still preprocessed when compiled": every compile command whose file exists is kept by the loader and its
        # file is walked for its platform, wherever the file lies
        want_cmds = spec_commands(case, d)
        got_cmds = {p: [e["file"] for e in cfg[p]] for p in cfg}
        if got_cmds != want_cmds:
            p_bad = next(p for p in want_cmds if got_cmds.get(p) != want_cmds[p])
            ctx.violation(f"platform {p_bad}: load_database keeps the compile commands of {rel(got_cmds.get(p_bad, []), d)}, "
                          f"expected one per existing compiled file {rel(want_cmds[p_bad], d)} (files outside the root are still compiled)", base_case)
        for p, paths in want_cmds.items():
            for f in paths:
                rows = att0.get(f)
                if rows is None or (rows and p not in rows[0][2]):
                    ctx.violation(f"{os.path.relpath(f, d)} is compiled for platform {p} but "
                                  + ("is not preprocessed at all" if rows is None else f"its first node is attributed to {rows[0][2]}"), base_case)
        tu_cmds = outside_commands(case)
        if tu_cmds:
            ctx.dist["case_with_outside_translation_unit"] += 1
            for _, sp_ in tu_cmds:
                ctx.dist["outside_tu_spelling:" + sp_] += 1
            if any(all(is_outside_entry(e) for e in case["platforms"][p]) for p, _ in tu_cmds):
                ctx.dist["platform_of_outside_units_only"] += 1
            # does the out-of-tree unit matter?  analyse without its commands and look at the files under the root
            try:
                cfg_in = {p: [e for e in cfg[p] if e["file"].startswith(root + os.sep)] for p in cfg}
                _, st_in = run_find(root, cfg_in, [])
                att_in = nodes_of(st_in)
                if any(att_in.get(f) != att0.get(f) for f in exp0):
                    ctx.dist["outside_tu_reaches_in_tree_lines_nothing_else_reaches"] += 1
                    ctx.nontrivial.add(json.dumps([case["files"], case["platforms"], "outside-tu"], sort_keys=True))
            except Exception:
                ctx.dist["analysis_without_outside_tu_raises"] += 1
        rep["loader"] = {"implementation": {p: rel(v, d) for p, v in got_cmds.items()}, "spec": {p: rel(v, d) for p, v in want_cmds.items()},
                         "model": loader_model(ctx, drv, case, d, cfg) if drv is not None else None}
        if members0 != exp0:
            ctx.violation(f"code base without excludes is {rel(members0, root)}, expected every source file under the root {allsrc}", base_case)
        if drop_zero(sm0) != drop_zero(own_setmap(att0, exp0)):
            ctx.violation("setmap without exclusion is not the sum over the files under the root "
                          f"(outside/unknown files counted?): {show(sm0)} vs {show(own_setmap(att0, exp0))}", base_case)
        mis0 = lang_mismatch(st0)
        m0 = None
        if drv is not None:
            m0 = drv.ask(model_request(d, case, cfg, members0))
            compare_model(ctx, "c10find", base_case, m0, att0, sm0, st0)
        reached0 = {f for f, rows in att0.items() if any(ps for _, _, ps, _ in rows)}
        if outside_abs:
            check_outside(ctx, case, att0, sm0, lang_classes(st0), d)
        effect_cache = {}
        alias_done = False
        rep["base"] = {"implementation": {"members": rel(members0, root), "setmap": show(sm0),
                                          "files_parsed_in_another_language_than_their_extension": {os.path.relpath(k, d): v for k, v in mis0.items()}},
                       "model": None if m0 is None else {"setmap": m0.get("setmap"), "mixing_events": m0.get("mixed"),
                                                         "equals_cache_free_reference": m0.get("ref_agrees"), "exc": m0.get("exc")}}
        for li, (pats, intended) in enumerate(exclude_lists):
            c = {"files": case["files"], "platforms": case["platforms"], "excludes": pats, "intended": sorted(intended)}
            X = sorted(os.path.join(root, f) for f in ref_excluded(ctx, drv, pats, allsrc))
            expected = [f for f in exp0 if f not in X]
            info = {}
            try:
                lookupsE = []
                cbE, stE = run_find(root, cfg, pats, lookupsE)
                audit_lookups(ctx, c,
                              lookupsE, d, f"analysis with excludes {pats}")
                membersE = sorted(cbE)
                attE = nodes_of(stE)
                smE = norm_setmap(stE.get_setmap(cbE))
                info["mismatch"] = class_changes(lang_classes(st0), lang_classes(stE))
            except Exception as e:
                # the implementation's state is gone: take the language classes from the model's mixing log
                mE = drv.ask(model_request(d, case, cfg, expected, X)) if drv is not None else {}
                cls0 = lang_classes(st0)
                info["mismatch"] = {ev[0]: (cls0.get(ev[0]), ev[1]) for ev in mE.get("mixed", []) if cls0.get(ev[0]) != ev[1]}
                ctx.count(key="excluded_analysis_raises")
                ctx.classify(dict(c, **strip(info)), f"analysis succeeds without exclusion but raises {type(e).__name__}: {e} with -x {pats}",
                             [("D19", d19_pred(info))])
                rep["lists"].append({"excludes": pats, "exc": f"{type(e).__name__}: {e}"})
                continue
            c_info = dict(c, **strip(info))
            bad = []
            # (a) membership: exactly the files under the root that match no pattern
            if membersE != expected:
                bad.append(f"code base with excludes {pats} is {rel(membersE, root)}, expected {rel(expected, root)}")
            gone = set(X) | set(outside_abs)
            # (a) no excluded / outside file in the setmap, the tree report
            own_rest = own_setmap(att0, expected)
            if drop_zero(smE) != drop_zero(own_rest):
                bad.append(f"setmap with exclusion {show(smE)} != lines of the remaining files in the analysis without exclusion {show(own_rest)}")
            # (c) the removed lines are exactly the matched files' lines per platform set
            diff = collections.Counter(sm0)
            diff.subtract(smE)
            own_x = own_setmap(att0, [f for f in X if f in exp0])
            if drop_zero(dict(diff)) != drop_zero(own_x):
                bad.append(f"setmap difference {show(drop_zero(dict(diff)))} != own setmap of the excluded files {show(own_x)}")
            try:
                rows = tree_report(cbE, stE)
                names = [r[6] for r in rows if not r[5]]
                leaked = sorted(set(os.path.basename(f) for f in gone) & set(names) - set(os.path.basename(f) for f in expected))
                if leaked:
                    bad.append(f"file tree lists excluded/outside files {leaked}")
                if rows and rows[0][1].isdigit() and int(rows[0][1]) != sum(smE.values()):
                    bad.append(f"file tree root SLOC {rows[0][1]} != setmap total {sum(smE.values())}")
                n_files = len([r for r in rows if not r[5]])
                if n_files != len(expected):
                    bad.append(f"file tree lists {n_files} files, code base has {len(expected)}")
            except Exception as e:
                bad.append(f"report.files raises {type(e).__name__}: {e}")
            # (b) attribution of every remaining file unchanged
            changed = [os.path.relpath(f, d) for f in expected if attE.get(f) != att0.get(f)]
            if changed:
                bad.append(f"attribution of remaining files {changed} changes under -x {pats}")
            # (d) excluded / outside files are still preprocessed, identically
            for f in sorted(gone):
                if f in reached0 and f not in attE:
                    bad.append(f"{os.path.relpath(f, d)} is compiled/included but no longer preprocessed under -x {pats}")
                elif f in attE and f in att0 and attE[f] != att0[f]:
                    bad.append(f"association of excluded/outside file {os.path.relpath(f, d)} changes under -x {pats}")
            # distribution / non-triviality
            shapes = sorted(set(shape(p) for p in pats))
            ctx.count(key="excluded=%d/%d" % (len(X), len(exp0)))
            for s in shapes:
                ctx.dist["pattern:" + s] += 1
            hdr_x = [f for f in X if f.endswith((".h", ".hpp"))]
            ctx.dist["excludes_header" if hdr_x else "excludes_sources_only"] += 1
            if any(f in reached0 for f in outside_abs if f.endswith((".h", ".hpp"))):
                ctx.dist["outside_header_reached"] += 1
            if any(f in reached0 for f in outside_abs if not f.endswith((".h", ".hpp"))):
                ctx.dist["outside_translation_unit_reached"] += 1
            if case.get("mixed_lang"):
                ctx.dist["mixed_language_case"] += 1
            # does an excluded/outside file really matter to the others?  blank them and look
            eff_key = tuple(sorted(gone & reached0))
            if eff_key and eff_key not in effect_cache and len(effect_cache) < effect_runs:
                # blank every excluded/outside file that is reached and see whether a remaining file notices
                blank = sorted(os.path.relpath(f, d) for f in eff_key)
                try:
                    for b in blank:
                        open(os.path.join(d, b), "w").close()
                    _, stB = run_find(root, cfg, pats)
                    attB = nodes_of(stB)
                    effect_cache[eff_key] = any(attB.get(f) != att0.get(f) for f in expected)
                except Exception:
                    effect_cache[eff_key] = True
                    ctx.dist["blank_run_raises"] += 1
                finally:
                    for b in blank:
                        with open(os.path.join(d, b), "w") as fh:
                            fh.write(case["files"][b])
            if effect_cache.get(eff_key):
                ctx.nontrivial.add(json.dumps([case["files"], case["platforms"], sorted(X)], sort_keys=True))
                ctx.dist["excluded_file_macros_effective"] += 1
            ctx.sample({"excludes": pats, "excluded": rel(X, root), "files": sorted(case["files"]), "platforms": list(case["platforms"])})
            if bad:
                r = ctx.classify(c_info, "; ".join(bad[:3]), [("D19", d19_pred(info))])
                ctx.dist["with/without differ: " + ("known finding D19" if r == "known" else "VIOLATION")] += 1
            elif not alias_done and (X or outside_abs):
                # once per case: in-tree symbolic links to an excluded file and to a file outside the root
                import time

                t_a = time.time()
                alias_done = check_alias(ctx, drv, c, d, root, cfg, pats, X, outside_abs, expected, membersE, smE, attE, cbE, stE)
                ctx.extra["seconds_in_alias_checks"] = round(ctx.extra.get("seconds_in_alias_checks", 0.0) + time.time() - t_a, 3)
            # --- model
            mE = None
            if drv is not None:
                mE = drv.ask(model_request(d, case, cfg, membersE, [f for f in X if f in exp0]))
                compare_model(ctx, "c10find", c, mE, attE, smE, stE)
                if m0 is not None and "ok" in m0 and "ok" in mE:
                    # the theorem instance evaluated on the model: setmap(cb) = setmap(cb \ X) + setmap(X)
                    mx = drv.ask(model_request(d, case, cfg, members0, [f for f in X if f in exp0]))
                    lhs = collections.Counter(model_setmap(mx["setmap"]))
                    rhs = collections.Counter(model_setmap(mE["setmap"]))
                    rhs.update(model_setmap(mx["setmap_excluded"]))
                    if drop_zero(lhs) != drop_zero(rhs) and not (mE["mixed"] or mx["mixed"]):
                        ctx.notes.append(f"model: setmap split fails without a mixing event on {json.dumps(c)[:300]}")
                    if not mE["mixed"] and not mE["ref_agrees"]:
                        ctx.notes.append(f"model: run without mixing event differs from the reference on {json.dumps(c)[:300]}")
            rep["lists"].append({"excludes": pats,
                                 "implementation": {"members": rel(membersE, root), "setmap": show(smE),
                                                    "language_class_changes": {os.path.relpath(k, d): v for k, v in info["mismatch"].items()}},
                                 "spec": {"members": rel(expected, root), "setmap": show(own_rest), "removed": show(own_x)},
                                 "model": None if mE is None else {"setmap": mE.get("setmap"), "setmap_of_excluded": mE.get("setmap_excluded"),
                                                                   "mixing_events": mE.get("mixed"), "equals_cache_free_reference": mE.get("ref_agrees")},
                                 "implementation_vs_spec": bad})
    return rep


def check_alias(ctx, drv, c, d, root, cfg, pats, X, outside_abs, expected, membersE, smE, attE, cbE, stE):
    """An excluded file, or a file outside the root, stays excluded / outside when a symbolic link inside the root
    points at it: the link names no other file, so "never contribute lines to any report" is about it too.  The link is
    placed where no pattern matches its own path (decided by the Lean gitignore reference), is neither compiled nor
    included, so members, setmap, file tree and every attribution must be exactly those of the analysis without the
    link.  Deterministic (no random draw): first excluded file, first outside file, first free name."""
    dirs = list(dict.fromkeys(([os.path.dirname(expected[0])] if expected else []) + [root]))
    links = []
    for k, tgt in enumerate((X[:1] if X else []) + outside_abs[:1]):
        ext = os.path.splitext(tgt)[1]
        names = [f"zz_alias{k}{e}" for e in dict.fromkeys(([ext] if ext in SRC_EXT else []) + [".h", ".hpp", ".c"])]
        cands = [os.path.join(dd, n) for dd in dirs for n in names]
        free = [ln for ln in cands if not ref_excluded(ctx, drv, pats, [os.path.relpath(ln, root)]) and not os.path.lexists(ln)]
        if free:
            links.append((free[0], tgt))
    if not links:
        return False
    desc = [f"{os.path.relpath(ln, d)} -> {os.path.relpath(t, d)} ({'outside the root' if t in outside_abs else 'excluded'})" for ln, t in links]
    ca = dict(c, alias=[[os.path.relpath(ln, d), os.path.relpath(t, d)] for ln, t in links])
    try:
        for ln, t in links:
            os.symlink(os.path.relpath(t, os.path.dirname(ln)), ln)
        ctx.count(key="alias_links_to_excluded_or_outside")
        for _, t in links:
            ctx.dist["alias_target:" + ("outside" if t in outside_abs else "excluded")] += 1
        try:
            cbL, stL = run_find(root, cfg, pats)
            membersL = sorted(cbL)
            smL = norm_setmap(stL.get_setmap(cbL))
            attL = nodes_of(stL)
            namesL = sorted(r[6] for r in tree_report(cbL, stL) if not r[5])
            namesE = sorted(r[6] for r in tree_report(cbE, stE) if not r[5])
        except Exception as e:
            ctx.violation(f"with the in-tree symbolic links {desc} and -x {pats} the analysis raises {type(e).__name__}: {e}", ca)
            return True
        bad = []
        if membersL != membersE:
            bad.append(f"code base lists {rel(sorted(set(membersL) - set(membersE)), root)} in addition")
        if drop_zero(smL) != drop_zero(smE):
            bad.append(f"setmap {show(smL)} != setmap without the links {show(smE)} (lines of excluded / outside files counted)")
        if namesL != namesE:
            bad.append(f"file tree lists {namesL}, without the links {namesE}")
        changed = [os.path.relpath(f, d) for f in expected if attL.get(f) != attE.get(f)]
        if changed:
            bad.append(f"attribution of {changed} changes")
        if bad:
            ctx.violation(f"in-tree symbolic links {desc} under -x {pats}: " + "; ".join(bad[:3]), ca)
    finally:
        for ln, _ in links:
            if os.path.islink(ln):
                os.unlink(ln)
    return True


def move_inside(case):
    """the same code base with `outside/` moved to `root/zz_outside/` and every spelling of it in the commands adjusted"""
    def mv(a):
        a = a.replace("${OUT}", "${ROOT}/zz_outside")
        if a == "../outside" or a.startswith("../outside/"):
            a = "zz_outside" + a[len("../outside"):]
        return a

    files = {(("root/zz_outside/" + p[len("outside/"):]) if p.startswith("outside/") else p): t for p, t in case["files"].items()}
    plats = {}
    for n, es in case["platforms"].items():
        plats[n] = []
        for e in es:
            e2 = dict(e, file=mv(e["file"]), arguments=[mv(a) for a in e["arguments"]])
            if e.get("directory"):
                e2["directory"] = mv(e["directory"])
            plats[n].append(e2)
    return {"files": files, "platforms": plats}


def check_outside(ctx, case, att0, sm0, cls0, d0):
    """files outside the root (included headers and compiled translation units) are preprocessed exactly as if they
    were inside; only their lines are not counted.  Compare with the same code base after moving `outside/` to
    `root/zz_outside/` (i) without exclusion: everything attributed identically, the setmap grows by the moved files'
    own lines; (ii) with the pattern /zz_outside/: "excluded by pattern" and "outside the root" are the same thing,
    so attribution and setmap are identical."""
    moved = move_inside(case)
    c = {"files": case["files"], "platforms": case["platforms"], "excludes": [], "intended": [], "outside_vs_inside": True}
    key0 = lambda f: os.path.relpath(f, d0).replace("outside/", "root/zz_outside/", 1) if os.path.relpath(f, d0).startswith("outside/") else os.path.relpath(f, d0)
    a0 = {key0(f): rows for f, rows in att0.items()}
    c0 = {key0(f): v for f, v in cls0.items()}
    with core.Scratch() as d2:
        d2 = os.path.realpath(str(d2))
        root2 = materialise(d2, moved)
        for variant, pats in (("inside", []), ("inside and excluded by /zz_outside/", ["/zz_outside/"])):
            try:
                cfg2 = load_config(root2, moved)
                cb2, st2 = run_find(root2, cfg2, pats)
                att2 = {os.path.relpath(f, d2): rows for f, rows in nodes_of(st2).items()}
                sm2 = norm_setmap(st2.get_setmap(cb2))
                cls2 = {os.path.relpath(f, d2): v for f, v in lang_classes(st2).items()}
            except Exception as e:
                ctx.count(key="outside_moved_inside_raises")
                return
            ctx.count(key="outside_vs_" + ("inside" if not pats else "inside_excluded"))
            info = {"mismatch": class_changes(c0, cls2)}
            bad = []
            changed = sorted(k for k in a0 if k in att2 and a0[k] != att2[k])
            if changed:
                bad.append(f"attribution of {changed} differs between files placed outside the root and the same files {variant}")
            lost = sorted(k for k, rows in att2.items() if any(ps for _, _, ps, _ in rows) and k not in a0)
            if lost:
                bad.append(f"{lost} are preprocessed when {variant} the root but not when placed outside it")
            want = collections.Counter(sm0)
            if not pats:
                # (moved files without a recognised source extension are not members of the code base inside the root either)
                want.update(own_setmap(att2, [k for k in att2 if k.startswith("root/zz_outside/") and k.endswith(SRC_EXT)]))
            if drop_zero(dict(want)) != drop_zero(sm2) and not changed and not lost:
                bad.append(f"setmap with the files {variant} {show(sm2)} != setmap with them outside {show(sm0)}" + ("" if pats else " + their own lines"))
            if bad:
                r = ctx.classify(dict(c, **strip(info)), "; ".join(bad[:3]), [("D19", d19_pred(info))])
                ctx.dist["outside/inside differ: " + ("known finding D19" if r == "known" else "VIOLATION")] += 1
                return


def strip(info):
    m = info.get("mismatch")
    if isinstance(m, dict):
        return {"mismatch": sorted(os.path.basename(k) for k in m)}
    return {"mismatch": m or []}


def shape(p):
    if p.startswith("!"):
        return "!negation"
    if p.startswith("*."):
        return "*.ext"
    if p.endswith("/"):
        return "dir/"
    if p.startswith("/"):
        return "/path"
    return "path" if "/" in p else "basename"


def rel(files, root):
    return [os.path.relpath(f, root) for f in files]


def show(sm):
    return {",".join(sorted(k)) or "-": v for k, v in sorted(sm.items(), key=lambda kv: sorted(kv[0]))}


def compare_model(ctx, op, case, m, att, sm, st):
    """correspondence: Lean model vs implementation on one analysis"""
    impl = {f: [[k, ls, ps] for k, ls, ps, _ in rows] for f, rows in att.items()}
    if "ok" not in m:
        ctx.corr_break(op, case, {"files": sorted(impl)}, m)
        return
    model = {f: [[k, ls, sorted(ps)] for k, ls, ps in rows] for f, rows in m["ok"].items()}
    if model != impl:
        f = next((f for f in sorted(set(model) | set(impl)) if model.get(f) != impl.get(f)), None)
        ctx.corr_break(op, case, {"file": f, "nodes": impl.get(f)}, {"file": f, "nodes": model.get(f), "mixed": m.get("mixed")})
        return
    if drop_zero(model_setmap(m["setmap"])) != drop_zero(sm):
        ctx.corr_break(op + ":setmap", case, show(sm), m["setmap"])
    icls = {f: LANG_CLASS.get(l) for f, l in st.langs.items()}
    if icls != m["classes"]:
        ctx.corr_break(op + ":classes", case, icls, m["classes"])
    # num_lines of a node is the number of its counted physical lines (the model counts `lines.length`)
    for f, rows in att.items():
        for k, ls, ps, num in rows:
            if num != len(ls):
                ctx.corr_break(op + ":num_lines", case, {"file": f, "node": [k, ls, num]}, "lines.length")
                return


# --------------------------------------------------------------------------
# CLI level: -x PATTERN == [codebase] exclude, for codebasin, cbi-tree, cbi-cov
# --------------------------------------------------------------------------
SPY = r"""
import json, os, runpy, sys
import codebasin
_orig = codebasin.CodeBase.__init__
def _spy(self, *dirs, exclude_patterns=[]):
    with open(os.environ["C10_SPY"], "a") as f:
        f.write(json.dumps(list(exclude_patterns)) + "\n")
    _orig(self, *dirs, exclude_patterns=exclude_patterns)
codebasin.CodeBase.__init__ = _spy
mod = sys.argv[1]
sys.argv = [mod] + sys.argv[2:]
runpy.run_module(mod, run_name="__main__", alter_sys=True)
"""


def xargs(pats):
    out = []
    for p in pats:
        out += ["-x", p]
    return out


def norm(text, d):
    return text.replace(d, "<TMP>")


def check_cli(ctx, drv, case, pats, origin):
    """returns a report; records violations in ctx"""
    rep = {"origin": origin, "excludes": pats}
    c = {"files": case["files"], "platforms": case["platforms"], "excludes": pats, "cli": True}
    k = max(0, len(pats) // 2)
    first, second = pats[:k], pats[k:]
    with core.Scratch() as d:
        d = os.path.realpath(str(d))
        root = materialise(d, case)
        write_toml(root, case, pats, "analysis_x.toml")
        write_toml(root, case, second, "analysis_mix.toml")
        allsrc = source_files(case)
        X = ref_excluded(ctx, drv, pats, allsrc)
        expected = [f for f in allsrc if f not in X]
        try:
            cfg = load_config(root, case)
            cbE, stE = run_find(root, cfg, pats)
            smE = norm_setmap(stE.get_setmap(cbE))
            cb0, st0 = run_find(root, cfg, [])
            sm0 = norm_setmap(st0.get_setmap(cb0))
        except Exception as e:
            ctx.count(key="cli_case_not_analysable")
            rep["exc"] = str(e)
            return rep

        def run(mod, args):
            rc, out, err = core.run_cli(mod, args, cwd=root)
            log = ""
            lp = os.path.join(root, "cbi.log")
            if os.path.exists(lp):
                log = open(lp).read()
                os.unlink(lp)
            return rc, norm(out, d), norm(err, d), norm(log, d)

        def same(x, y):
            """exit status and standard output byte for byte; the log as a multiset of lines (the order in which files are
            parsed, hence in which their warnings are logged, follows set iteration and is not a result the property lists);
            standard error is not compared (progress / library notices)"""
            return x[0] == y[0] and x[1] == y[1] and sorted(x[3].splitlines()) == sorted(y[3].splitlines())

        ctx.count(key="cli_case")
        # ---- codebasin
        a = run("codebasin", ["-R", "summary", "-R", "duplicates"] + xargs(pats) + ["analysis.toml"])
        b = run("codebasin", ["-R", "summary", "-R", "duplicates", "analysis_x.toml"])
        m = run("codebasin", ["-R", "summary", "-R", "duplicates"] + xargs(first) + ["analysis_mix.toml"])
        rep["codebasin"] = {"-x": a[:2], "toml": b[:2], "mixed": m[:2]}
        if a[0] != 0:
            ctx.violation(f"codebasin -x {pats} fails: {a[1][-300:]} {a[2][-300:]}", c)
        if not same(a, b):
            ctx.violation(f"codebasin: -x {pats} and [codebase] exclude = {pats} give different output/log", c)
        if not same(a, m):
            ctx.violation(f"codebasin: -x {first} with [codebase] exclude = {second} differs from -x {pats}", c)
        rows, total, _ = G.parse_summary(a[1])
        got = {k: v[0] for k, v in rows.items()}
        if a[0] == 0 and (drop_zero(got) != drop_zero(smE) or total != sum(smE.values())):
            ctx.violation(f"codebasin -x {pats}: summary {show(got)} total {total} != setmap of the in-process analysis {show(smE)}", c)
        # ---- cbi-tree
        ta = run("codebasin.tree", xargs(pats) + ["analysis.toml"])
        tb = run("codebasin.tree", ["analysis_x.toml"])
        tm = run("codebasin.tree", xargs(first) + ["analysis_mix.toml"])
        rep["tree"] = {"-x": ta[:2], "toml": tb[:2]}
        if ta[0] != 0:
            ctx.violation(f"cbi-tree -x {pats} fails: {ta[1][-300:]} {ta[2][-300:]}", c)
        if not same(ta, tb):
            ctx.violation(f"cbi-tree: -x {pats} and [codebase] exclude = {pats} give different output/log", c)
        if not same(ta, tm):
            ctx.violation(f"cbi-tree: -x {first} with [codebase] exclude = {second} differs from -x {pats}", c)
        trows = G.parse_tree(ta[1])
        tnames = sorted(r[6] for r in trows if not r[5])
        if ta[0] == 0 and tnames != sorted(os.path.basename(f) for f in expected):
            ctx.violation(f"cbi-tree -x {pats} lists files {tnames}, expected {sorted(os.path.basename(f) for f in expected)}", c)
        if ta[0] == 0 and trows and trows[0][1].isdigit() and int(trows[0][1]) != sum(smE.values()):
            ctx.violation(f"cbi-tree -x {pats}: root SLOC {trows[0][1]} != {sum(smE.values())}", c)
        # ---- where the analysis file lives x several runs in one interpreter
        if a[0] == 0 and ta[0] == 0:
            import time

            t_s = time.time()
            check_sessions(ctx, c, rep, d, root, case, pats, first, second, {"codebasin": a, "codebasin.tree": ta}, run, same,
                           allsrc, expected, sm0, smE)
            ctx.extra["seconds_in_sessions"] = round(ctx.extra.get("seconds_in_sessions", 0.0) + time.time() - t_s, 3)
        # ---- cbi-cov (no analysis file: -x against the in-process CodeBase with the same patterns)
        p0 = next(iter(case["platforms"]), None)
        if p0 is not None:
            cov = os.path.join(d, "cov.json")
            ca = run("codebasin.coverage", ["compute", "-S", root] + xargs(pats) + ["-o", cov, os.path.join(root, f"{p0}.json")])
            rep["cov"] = ca[:3]
            if ca[0] != 0:
                ctx.violation(f"cbi-cov -x {pats} fails: {ca[2][-300:]}", c)
            else:
                recs = json.load(open(cov))
                cfg1 = {p0: cfg[p0]}
                cb1, st1 = run_find(root, cfg1, pats)
                att1 = nodes_of(st1)
                want = {}
                for f in expected:
                    rows1 = att1.get(os.path.join(root, f), [])
                    want[f] = (sorted(x for _, ls, ps, _ in rows1 if ps for x in ls), sorted(x for _, ls, ps, _ in rows1 if not ps for x in ls))
                gotc = {r["file"]: (sorted(r["used_lines"]), sorted(r["unused_lines"])) for r in recs}
                if gotc != want:
                    ctx.violation(f"cbi-cov -x {pats}: records {sorted(gotc)} / lines differ from the remaining files {sorted(want)} of the in-process analysis", c)
        # ---- files outside the root == the same files inside and excluded by pattern, at the command line
        if any(f.startswith("outside/") for f in case["files"]):
            moved = move_inside(case)
            with core.Scratch() as d2:
                d2 = os.path.realpath(str(d2))
                root2 = materialise(d2, moved)

                def run2(mod, args):
                    rc, out, err = core.run_cli(mod, args, cwd=root2)
                    lp = os.path.join(root2, "cbi.log")
                    if os.path.exists(lp):
                        os.unlink(lp)
                    return rc, norm(out, d2), norm(err, d2)

                ctx.count(key="cli_outside_vs_inside_excluded")
                zp = list(pats) + ["/zz_outside/"]
                z = run2("codebasin", ["-R", "summary"] + xargs(zp) + ["analysis.toml"])
                zrows, ztotal, _ = G.parse_summary(z[1])
                zgot = {k: v[0] for k, v in zrows.items()}
                rep["codebasin"]["inside_excluded"] = z[:2]
                if a[0] == 0 and (z[0] != 0 or drop_zero(zgot) != drop_zero(got) or ztotal != total):
                    ctx.violation(f"codebasin -x {pats}: summary with files outside the root {show(got)} total {total} != summary with the same "
                                  f"files inside the root and excluded by /zz_outside/ {show(zgot)} total {ztotal} (exit {z[0]})", c)
                tus = outside_commands(case)
                pz = tus[0][0] if tus else p0
                if pz is not None:
                    cov1, cov2 = os.path.join(d, "cov_o.json"), os.path.join(d2, "cov_z.json")
                    c1 = run("codebasin.coverage", ["compute", "-S", root] + xargs(pats) + ["-o", cov1, os.path.join(root, f"{pz}.json")])
                    c2 = run2("codebasin.coverage", ["compute", "-S", root2] + xargs(zp) + ["-o", cov2, os.path.join(root2, f"{pz}.json")])
                    if c1[0] == 0:
                        r1 = sorted((r["file"], sorted(r["used_lines"]), sorted(r["unused_lines"])) for r in json.load(open(cov1)))
                        r2 = sorted((r["file"], sorted(r["used_lines"]), sorted(r["unused_lines"])) for r in json.load(open(cov2))) if c2[0] == 0 else None
                        if r1 != r2:
                            ctx.violation(f"cbi-cov -x {pats} platform {pz}: coverage records with files outside the root differ from those with the "
                                          f"same files inside the root and excluded by /zz_outside/", c)
        # ---- the pattern list handed to CodeBase, observed, vs the model's concatenation
        if drv is not None:
            spy = os.path.join(d, "spy.py")
            open(spy, "w").write(SPY)
            for mod, args, cli, toml in (
                ("codebasin", ["-R", "summary"] + xargs(first) + ["analysis_mix.toml"], first, second),
                ("codebasin.tree", xargs(first) + ["analysis_mix.toml"], first, second),
            ):
                log = os.path.join(d, "spy.log")
                if os.path.exists(log):
                    os.unlink(log)
                import subprocess
                import sys

                env = dict(os.environ, PYTHONPATH=str(core.REPO), C10_SPY=log, MPLBACKEND="Agg")
                subprocess.run([sys.executable, spy, mod] + args, cwd=root, env=env, capture_output=True, text=True, timeout=300)
                seen = [json.loads(x) for x in open(log).read().splitlines()] if os.path.exists(log) else []
                mp = drv.ask({"op": "c10pats", "cli": cli, "toml": toml})["patterns"]
                ctx.count(key="patterns_observed")
                if not seen or seen[-1] != mp:
                    ctx.corr_break("c10pats", dict(c, module=mod, cli=cli, toml=toml), seen, mp)
                if seen and sorted(seen[-1]) != sorted(list(cli) + list(toml or [])):
                    ctx.violation(f"{mod}: patterns handed to CodeBase {seen[-1]} are not the command-line patterns {cli} together with the analysis file's {toml}", c)
            for x in ("cbi.log",):
                if os.path.exists(os.path.join(root, x)):
                    os.unlink(os.path.join(root, x))
    return rep


# --------------------------------------------------------------------------
# CLI level: the analysis file's location and the history of the process do not matter
# --------------------------------------------------------------------------
SESSION = os.path.join(os.path.dirname(os.path.abspath(G.__file__)), "clisession.py")
SUBDIR, SUBDIR2, OUTDIR = "zz_cfg", "zz_cfg/ci", "cfg_outside"


def session_plan(d, pats, first):
    """(label, argv tail, expects the exclusion?) - the same for both tools.  The analysis files (plain = no [codebase]
    section, x = all patterns in the file, mix = second half in the file + first half with -x) are stored in the root,
    in a sub-directory, in a sub-sub-directory and outside the root (absolute and ../ spelling); runs without any
    pattern are interleaved so that every run with patterns in the analysis file is followed by one that has none."""
    out_abs = os.path.join(d, OUTDIR)
    return [
        ("plain@root #1", ["analysis.toml"], False),
        ("file@root", ["analysis_x.toml"], True),
        ("plain@root #2 (after file@root)", ["analysis.toml"], False),
        ("-x@root", xargs(pats) + ["analysis.toml"], True),
        ("file@sub-directory", [SUBDIR + "/analysis_x.toml"], True),
        ("plain@sub-directory", [SUBDIR + "/analysis.toml"], False),
        ("split@sub-sub-directory", xargs(first) + [SUBDIR2 + "/analysis_mix.toml"], True),
        ("-x with plain@sub-directory", xargs(pats) + [SUBDIR + "/analysis.toml"], True),
        ("file@outside, absolute path", [os.path.join(out_abs, "analysis_x.toml")], True),
        ("split@outside, ../ path", xargs(first) + ["../" + OUTDIR + "/analysis_mix.toml"], True),
        ("plain@root #3 (last)", ["analysis.toml"], False),
    ]


def check_sessions(ctx, c, rep, d, root, case, pats, first, second, fresh_x, run, same, allsrc, expected, sm0, smE):
    """`-x P` == `[codebase] exclude = [P]` == split, wherever the analysis file is stored and whatever the same
    interpreter ran before.  Expectations, all independent of the runs judged:
      * a run whose effective pattern list is `pats`  == the fresh-process run `-x pats analysis.toml` (byte for byte);
      * a run without any pattern == the fresh-process run `analysis.toml`, whose content is itself judged against the
        member set of the Lean gitignore reference for the EMPTY list (every source file) and the in-process setmap.
    On a difference the same argv is run once more in a fresh process to tell `depends on the location of the analysis
    file` (fresh run differs too) from `depends on what the process ran before` (fresh run agrees)."""
    import subprocess
    import sys

    for sub in (SUBDIR, SUBDIR2):
        os.makedirs(os.path.join(root, sub), exist_ok=True)
    out_abs = os.path.join(d, OUTDIR)
    os.makedirs(out_abs, exist_ok=True)
    for where in (os.path.join(root, SUBDIR), os.path.join(root, SUBDIR2), out_abs):
        write_toml(where, case, None, "analysis.toml")
        write_toml(where, case, pats, "analysis_x.toml")
        write_toml(where, case, second, "analysis_mix.toml")
    plan = session_plan(d, pats, first)
    head = {"codebasin": ["-R", "summary", "-R", "duplicates"], "codebasin.tree": []}
    # fresh-process references
    fresh_0 = {mod: run(mod, head[mod] + ["analysis.toml"]) for mod in head}
    srep = rep.setdefault("sessions", {})
    for mod in head:
        f0 = fresh_0[mod]
        ok0 = f0[0] == 0
        if ok0 and mod == "codebasin":
            rows, total, _ = G.parse_summary(f0[1])
            ok0 = drop_zero({k: v[0] for k, v in rows.items()}) == drop_zero(sm0) and total == sum(sm0.values())
        elif ok0:
            trows = G.parse_tree(f0[1])
            ok0 = (sorted(r[6] for r in trows if not r[5]) == sorted(os.path.basename(f) for f in allsrc)
                   and (not trows or not trows[0][1].isdigit() or int(trows[0][1]) == sum(sm0.values())))
        if not ok0:
            ctx.violation(f"{mod} analysis.toml (no exclude pattern at all): exit {f0[0]}, output does not show every source file under the root "
                          f"{allsrc} with the lines of the in-process analysis {show(sm0)}: {f0[1][-300:]}", c)
            return
    steps = [{"mod": mod, "argv": head[mod] + argv, "cwd": root} for mod in head for _, argv, _ in plan]
    sj, rj = os.path.join(d, "session_steps.json"), os.path.join(d, "session_results.json")
    with open(sj, "w") as f:
        json.dump(steps, f)
    env = dict(os.environ, PYTHONPATH=str(core.REPO), MPLBACKEND="Agg")
    env.setdefault("PYTHONHASHSEED", "0")
    p = subprocess.run([sys.executable, SESSION, sj, rj], cwd=root, env=env, capture_output=True, text=True, timeout=600)
    if p.returncode != 0 or not os.path.exists(rj):
        ctx.notes.append(f"in-process session did not finish (exit {p.returncode}): {p.stderr[-300:]}")
        ctx.dist["session_failed_to_run"] += 1
        return
    results = json.load(open(rj))
    k = 0
    for mod in head:
        srep[mod] = []
        for label, argv, excl in plan:
            r = results[k]
            k += 1
            got = (r["rc"], norm(r["out"], d), norm(r["err"], d), norm(r["log"], d))
            want = fresh_x[mod] if excl else fresh_0[mod]
            ctx.count(key="session_run:" + label.split(" #")[0].split(" (")[0])
            ctx.dist["session_runs:" + mod] += 1
            ok = same(got, want)
            srep[mod].append({"run": label, "argv": argv, "exit": got[0], "equals_fresh_reference": ok})
            if ok:
                continue
            # diagnosis: the very same command in a fresh process
            again = run(mod, head[mod] + argv)
            if same(again, want):
                why = ("depends on what the same process ran before (the same command in a fresh process gives the expected output); "
                       "earlier runs of the session: " + ", ".join(l for l, _, _ in plan[:plan.index((label, argv, excl))]))
            else:
                why = "the same command in a fresh process differs too: the result depends on where the analysis file is stored / how the patterns are given"
            want_files = expected if excl else allsrc
            shown = ""
            if mod == "codebasin.tree":
                shown = f"; lists files {sorted(r_[6] for r_ in G.parse_tree(got[1]) if not r_[5])}, expected {sorted(os.path.basename(f) for f in want_files)}"
            else:
                rows, total, _ = G.parse_summary(got[1])
                shown = f"; summary {show({k_: v[0] for k_, v in rows.items()})} total {total}, expected {show(smE if excl else sm0)}"
            ctx.violation(f"{mod} {' '.join(argv)} [{label}] (exit {got[0]}) differs from "
                          + (f"-x {pats} analysis.toml" if excl else "analysis.toml (no pattern)") + f" in a fresh process{shown}; {why}", c)
            return



# --------------------------------------------------------------------------
# fixed cases
# --------------------------------------------------------------------------
def d19_witness():
    files = {
        "root/h.h": "/*\n#define X 1\n*/\nint in_header;\n",
        "root/a.f90": '#include "h.h"\n#ifdef X\nx_defined_f = 1\n#else\nx_undefined_f = 1\n#endif\n',
        "root/b.c": '#include "h.h"\n#ifdef X\nint x_defined_c;\n#else\nint x_undefined_c;\n#endif\n',
    }
    plats = {"p": [{"file": "a.f90", "arguments": ["gfortran", "-c", "a.f90"]}, {"file": "b.c", "arguments": ["gcc", "-c", "b.c"]}]}
    return {"files": files, "platforms": plats, "mixed_lang": True}, [(["h.h"], ["h.h"])]


def fixed_cases():
    """hand-written: excluded header defining a macro, outside header, compiled file excluded"""
    files = {
        "root/inc/cfg.h": "#ifndef CFG_H\n#define CFG_H\n#define USE_GPU 1\n#endif\n",
        "root/src/main.c": '#include "cfg.h"\n#include "o.h"\n#if USE_GPU\nint gpu;\n#else\nint cpu;\n#endif\n#ifdef OUT\nint out;\n#endif\n',
        "root/src/other.c": "#if USE_GPU\nint never;\n#endif\nint always;\n",
        "root/third/lib.c": '#include "../inc/cfg.h"\n#if USE_GPU\nint third_gpu;\n#endif\n',
        "outside/o.h": "#define OUT 1\nint outside_line;\n",
    }
    plats = {
        "cpu": [{"file": "src/main.c", "arguments": ["gcc", "-I", "inc", "-I", "../outside", "-c", "src/main.c"]},
                {"file": "src/other.c", "arguments": ["gcc", "-c", "src/other.c"]}],
        "gpu": [{"file": "src/main.c", "arguments": ["gcc", "-DUSE_GPU=0", "-I", "inc", "-I", "../outside", "-c", "src/main.c"]},
                {"file": "third/lib.c", "arguments": ["gcc", "-c", "third/lib.c"]}],
    }
    case = {"files": files, "platforms": plats, "mixed_lang": False}
    lists = [(["/inc/cfg.h"], ["inc/cfg.h"]), (["*.h"], ["inc/cfg.h"]), (["inc/"], ["inc/cfg.h"]), (["cfg.h"], ["inc/cfg.h"]),
             (["third/"], ["third/lib.c"]), (["/src/main.c", "cfg.h"], ["src/main.c", "inc/cfg.h"]),
             (["*.c"], ["src/main.c", "src/other.c", "third/lib.c"]), (["*.c", "!/src/other.c"], ["src/main.c", "third/lib.c"]), (["*.c", "*.h"], ["src/main.c", "src/other.c", "third/lib.c", "inc/cfg.h"])]
    return case, lists


def fixed_outside_tu():
    """hand-written: translation units compiled from outside the root (a unity file and a generated table in an
    out-of-tree build directory) that configure and reach in-tree files no in-tree unit of their platform reaches"""
    files = {
        "root/kern/impl.h": "#ifndef IMPL_H\n#define IMPL_H\n#if WIDTH == 8\nint wide;\n#else\nint narrow;\n#endif\n#include \"detail/tab.h\"\n#endif\n",
        "root/kern/detail/tab.h": "#ifdef FROM_BUILD\nint table_for_build;\n#endif\nint table;\n",
        "root/kern/a.c": "#include \"impl.h\"\nint a;\n",
        "root/kern/b.c": "#ifdef UNITY\nint b_unity;\n#else\nint b_alone;\n#endif\n",
        "root/app.c": "int app;\n",
        "outside/unity.c": "#define UNITY 1\n#define WIDTH 8\n#include \"a.c\"\n#include \"b.c\"\n",
        "outside/tabgen.c": "#include \"bcfg.h\"\n#include \"tab.h\"\nint generated;\n",
        "outside/bcfg.h": "#define FROM_BUILD 1\n",
    }
    plats = {
        "host": [{"file": "app.c", "arguments": ["gcc", "-c", "app.c"]},
                 {"file": "../outside/unity.c", "arguments": ["gcc", "-I", "kern", "-c", "../outside/unity.c"]}],
        "dev": [{"file": "tabgen.c", "directory": "${OUT}", "arguments": ["gcc", "-I", "${ROOT}/kern/detail", "-c", "tabgen.c"]}],
        "sim": [{"file": "kern/a.c", "arguments": ["gcc", "-DWIDTH=4", "-c", "kern/a.c"]},
                {"file": "${OUT}/tabgen.c", "arguments": ["gcc", "-I", "kern/detail", "-c", "${OUT}/tabgen.c"]},
                {"file": "unity.c", "directory": "../outside", "arguments": ["gcc", "-I", "${ROOT}/kern", "-c", "unity.c"]}],
    }
    case = {"files": files, "platforms": plats, "mixed_lang": False}
    lists = [(["kern/"], ["kern/impl.h", "kern/detail/tab.h", "kern/a.c", "kern/b.c"]), (["*.h"], ["kern/impl.h", "kern/detail/tab.h"]),
             (["/app.c", "detail/"], ["app.c", "kern/detail/tab.h"]), (["/kern/b.c"], ["kern/b.c"])]
    return case, lists


# --------------------------------------------------------------------------
def run(ctx, drv):
    import time

    core.import_codebasin()
    t_cli = 0.0
    ctx.rule = ("case = random code base (C/C++ sources and headers from harness/gen/codebase.py whose headers define the macros "
                "A,B,C that other files test; 0-2 headers in a sibling directory outside the root reached through -I ../outside; "
                "0-2 translation units *compiled* from that outside directory (defining A,B,C themselves or through -D, including "
                "in-tree headers / in-tree sources / outside headers; command spelled ../outside/g.c, absolute, or with an absolute "
                "or relative out-of-tree `directory`; sometimes the only commands of a platform), loaded through config.load_database; "
                "30% with free-form Fortran sources including a header that hides a #define inside /* */) x 1-3 platforms x exclude "
                "lists matching subsets of the source files (every non-empty subset when <= 5 files, else singletons + random subsets), "
                "each subset spelled with /path, path, basename, *.ext and dir/ patterns; in 60% of the cases a nested directory that shares the name "
                "of a top-level one, with the anchored (/T/) and unanchored (T/) directory lists; outside headers without a recognised extension "
                "(O0Core, o0.def, o0.tpp). Every include look-up the real code makes is audited against the files on disk. "
                "Every (case, exclude list) is one evaluation: "
                "analysis without and with the exclusion, compared. Non-trivial = distinct (code base, excluded set) in which blanking "
                "the excluded/outside files changes the attribution of a remaining file, i.e. their macros are really needed, "
                "or (key 'outside-tu') a code base in which dropping the commands of the out-of-tree translation units changes the "
                "attribution of a file under the root. Every case with files outside the root is also analysed with those files moved "
                "inside (with and without the pattern /zz_outside/) and, for the CLI cases, through codebasin / cbi-cov; the loader's "
                "result is compared with one command per existing compiled file and with the Lean model of load_database (op dbload). "
                "The excluded set of every pattern list is computed by the Lean reference of gitignore(5) (driver op gitignore). "
                "Once per case with a non-empty excluded set or outside files: in-tree symbolic links to the first excluded file and "
                "to the first outside file, placed where no pattern matches the link itself, must change nothing (members, setmap, "
                "file tree, attribution). CLI cases: besides -x / analysis file / split in fresh processes from the root, the two tools "
                "are run 11 times each in ONE interpreter (harness/gen/clisession.py: main() with sys.argv, as the console scripts do) "
                "with the analysis file in the root, in a sub-directory, a sub-sub-directory and outside the root (absolute and ../ path), "
                "runs without any pattern interleaved; every run with the effective list P must equal the fresh-process `-x P analysis.toml`, "
                "every run without pattern the fresh-process `analysis.toml` (itself judged against the Lean member set of the empty list "
                "and the in-process setmap).")
    ctx.assumptions += [
        "pattern semantics is C09's subject: the generator only uses /path, path, basename, *.ext, dir/ patterns (and ! re-inclusions); the matched set "
        "is computed by the Lean gitignore reference (Spec/GitIgnore, proved laws in Props/C09) and cross-checked with the generator's own reading",
        "code bases whose analysis already fails without exclusion are skipped (counted in the distribution)",
        "symbolic links: only file links from inside the root to an excluded / outside file, never compiled or included (aliases of members, directory links and loops are C15/C09); one code-base directory (cwd)",
        "in-process sessions: between two runs the runner removes cbi.log and detaches the logging handlers the previous run attached to the `codebasin` logger; "
        "output is captured at file-descriptor level; nothing else in the process is reset; cbi-cov (no analysis file) is not part of the sessions",
        "out-of-tree translation units are compiled with gcc only (one pass, one configuration entry per command); argument parsing is C11's subject",
        "the Lean model of `find` starts from the loaded configuration; the loader step is tied in through C13's model/spec (op dbload) and this file's spec_commands",
        "cbi-cov has no analysis file: its -x is compared with an in-process CodeBase given the same patterns",
        "Lean model: fuelled engine (fuel 10^6); a header is parsed under a language *class* (C / Fortran / asm), c and c++ share a parser",
    ]
    # corpus
    for f in sorted((core.VERIF / "corpus" / "C10").glob("*.json")):
        c = json.loads(f.read_text())
        check_case(ctx, drv, c, [(c["excludes"], c.get("intended", []))], "corpus:" + f.name)
    # known-finding witness + fixed cases
    w, wl = d19_witness()
    check_case(ctx, drv, w, wl, "d19-witness")
    fc, fl = fixed_cases()
    check_case(ctx, drv, fc, fl, "fixed")
    check_cli(ctx, drv, fc, ["inc/", "/third/lib.c"], "fixed")
    check_cli(ctx, drv, fc, ["*.c", "!/src/other.c"], "fixed-negation")
    oc, ol = fixed_outside_tu()
    check_case(ctx, drv, oc, ol, "fixed-outside-tu")
    check_cli(ctx, drv, oc, ["detail/", "/app.c"], "fixed-outside-tu")
    # random
    ncases = ctx.n(36, 350)
    ncli = ctx.n(3, 30)
    for i in range(ncases):
        case = gen_case(ctx.rng)
        allsrc = source_files(case)
        allpaths = sorted(p[len("root/"):] for p in case["files"] if p.startswith("root/"))
        subs = subsets_for(ctx.rng, allsrc, 12 if not ctx.thorough() else 24)
        lists = [(patterns_for(ctx.rng, s, allsrc, allpaths), s) for s in subs]
        # whole directories, anchored and unanchored, with a nested directory of the same name elsewhere in the tree:
        # `/T/` excludes the top-level T only, `T/` every directory called T
        tops = sorted({f.split("/")[0] for f in allsrc if "/" in f})
        if tops and ctx.rng.random() < 0.6:
            T = ctx.rng.choice(tops)
            others = sorted({os.path.dirname(f) for f in allsrc if os.path.dirname(f) and not (f.startswith(T + "/"))}) or ["nest"]
            X = ctx.rng.choice(others)
            twin = f"{X}/{T}/twin.c"
            case["files"]["root/" + twin] = "int twin_a;\nint twin_b;\n#ifdef A\nint twin_c;\n#endif\n"
            if case["platforms"] and ctx.rng.random() < 0.7:
                pn = ctx.rng.choice(sorted(case["platforms"]))
                case["platforms"][pn].append({"file": twin, "arguments": ["gcc", "-DA=1", "-c", twin]})
            allsrc = source_files(case)
            allpaths = sorted(p[len("root/"):] for p in case["files"] if p.startswith("root/"))
            lists.append((["/" + T + "/"], [f for f in allsrc if f.startswith(T + "/")]))
            lists.append(([T + "/"], [f for f in allsrc if T in f.split("/")[:-1]]))
            ctx.dist["nested_same_name_directory"] += 1
        check_case(ctx, drv, case, lists, f"random{i}")
        if i < ncli and lists:
            neg = [l for l in lists if any(p.startswith("!") for p in l[0])]
            pats, _ = ctx.rng.choice(neg or lists)
            if case.get("mixed_lang"):
                continue
            t = time.time()
            check_cli(ctx, drv, case, pats, f"random{i}")
            t_cli += time.time() - t
        if ctx.violations and len(ctx.violations) >= 5:
            break
    ctx.extra["seconds_in_cli_checks"] = round(t_cli, 1)


def search(ctx, drv):
    run(ctx, drv)


def replay(ctx, drv, case):
    core.import_codebasin()
    pats = case.get("excludes", [])
    c = {"files": case["files"], "platforms": case["platforms"], "mixed_lang": True}
    if case.get("outside_vs_inside"):
        out = check_case(ctx, drv, c, [], "replay")
    elif case.get("cli"):
        out = check_cli(ctx, drv, c, pats, "replay")
    else:
        out = check_case(ctx, drv, c, [(pats, case.get("intended", []))], "replay")
    out["violations"] = [w for w, _ in ctx.violations]
    out["known_findings"] = sorted(ctx.known_seen)
    out["correspondence_breaks"] = ctx.corr_breaks
    return out
