import CbiVerif.Lemmas.CodeBase
import Mathlib.Data.List.Nodup

/-!
# C09 — code-base membership: extension, location and git-style exclude patterns

Property theorems only (helper lemmas: `CbiVerif/Lemmas/FS.lean`, `CbiVerif/Lemmas/CodeBase.lean`).
The file system is any finite map `FS`, the gitignore matcher is any function `cfg.ignored`
(a parameter: `pathspec` is compared with `git check-ignore` by the harness on every run),
`n` is the fuel of the walks (running out of fuel = symbolic-link loop), `cwd` any physical directory.
"The file a spelling names" is what the operating system's walk `namei` says.
-/
namespace CbiVerif.C09
open CbiVerif.Path CbiVerif.FS CbiVerif.CB

/-- **the property's membership test** on a physical path `c`: an existing regular file, with a recognised
extension, under a code-base directory (the first listed one that contains it), not excluded relative to it -/
def memberSpec (cfg : Cfg) (fs : FS) (roots : List Comps) (c : Comps) : Prop :=
  lstat fs c = some .file ∧
  CbiVerif.Gen.sourceExts.contains (suffix (name c)) = true ∧
  ∃ root, roots.find? (fun d => d.isPrefixOf c) = some root ∧ cfg.ignored (c.drop root.length) = false

/-- the recorded class F-C09-K: the operating system does not resolve the spelling (a component is missing
or is not a directory) but `os.path.realpath` cancels that component against a later `..` and arrives at
something that exists -/
def escapes (fs : FS) (n : Nat) (cwd : Comps) (p : P) : Prop :=
  (namei fs n (start cwd p) p.comps = .enoent ∨ namei fs n (start cwd p) p.comps = .enotdir) ∧
  ∃ r, realpath fs n (start cwd p) p.comps = .ok r ∧ stat fs n r ≠ none

/-! ## membership -/

/-- `p in codebase` ⇔ `p` names a regular file ∧ recognised extension ∧ under a root ∧ not excluded there,
for every spelling `p` the operating system resolves -/
theorem member_iff (cfg : Cfg) (fs : FS) (n : Nat) (roots : List Comps) (cwd : Comps) (p : P) (c : Comps)
    (hcwd : dirPath fs cwd = true) (h : namei fs n (start cwd p) p.comps = .ok c) (hn : c.length + 2 ≤ n) :
    contains cfg fs n roots cwd p = .ok true ↔ memberSpec cfg fs roots c :=
  contains_true_iff cfg fs n roots cwd p c hcwd h hn

/-- a spelling that names nothing (missing component, non-directory in the middle) is not a member —
outside the recorded class `escapes` -/
theorem nonresolving_not_member (cfg : Cfg) (fs : FS) (n : Nat) (roots : List Comps) (cwd : Comps) (p : P)
    (h : namei fs n (start cwd p) p.comps = .enoent ∨ namei fs n (start cwd p) p.comps = .enotdir)
    (hk : ¬ escapes fs n cwd p) :
    contains cfg fs n roots cwd p = .ok false ∨
      (realpath fs n (start cwd p) p.comps = .loop ∧
       contains cfg fs n roots cwd p = if cfg.catchLoop then .ok false else .error .symlinkLoop) := by
  rcases realpath_ok_or_loop fs n (start cwd p) p.comps with ⟨r, hr⟩ | hl
  · left
    have hs : stat fs n r = none := by
      apply Classical.byContradiction
      intro hne
      exact hk ⟨h, r, hr, hne⟩
    unfold contains
    simp only [hr, hs]
  · right
    refine ⟨hl, ?_⟩
    unfold contains
    simp only [hl]

/-- D18: a spelling that runs into a symbolic-link loop raises `RuntimeError`; with the repair it is not a member -/
theorem loop_outcome (cfg : Cfg) (fs : FS) (n : Nat) (roots : List Comps) (cwd : Comps) (p : P)
    (h : namei fs n (start cwd p) p.comps = .loop) :
    contains cfg fs n roots cwd p = if cfg.catchLoop then .ok false else .error .symlinkLoop :=
  contains_of_loop cfg fs n roots cwd p h

/-- membership does not depend on the spelling (relative / absolute / `..` / through links, any working
directory): two spellings of the same physical object get the same answer -/
theorem spelling_independent (cfg : Cfg) (fs : FS) (n : Nat) (roots : List Comps)
    (cwd₁ cwd₂ : Comps) (p q : P) (c : Comps)
    (h₁ : dirPath fs cwd₁ = true) (h₂ : dirPath fs cwd₂ = true)
    (hp : namei fs n (start cwd₁ p) p.comps = .ok c) (hq : namei fs n (start cwd₂ q) q.comps = .ok c)
    (hn : c.length + 2 ≤ n) :
    contains cfg fs n roots cwd₁ p = contains cfg fs n roots cwd₂ q := by
  rw [contains_of_namei cfg fs n roots cwd₁ p c h₁ hp hn, contains_of_namei cfg fs n roots cwd₂ q c h₂ hq hn]

/-! ## enumeration -/

/-- every enumerated path is a member -/
theorem iter_members (cfg : Cfg) (fs : FS) (n : Nat) (roots l : List Comps) (x : Comps)
    (h : iter cfg fs n roots = .ok l) (hx : x ∈ l) :
    contains cfg fs n roots [] ⟨true, x⟩ = .ok true :=
  ((mem_iter cfg fs n roots l h x).mp hx).2

/-- every member's canonical path is enumerated — provided no code-base "directory" is a regular file
(hypothesis `hnf`, ADDED: without it the statement is false, see `file_root_witness`) -/
theorem iter_complete (cfg : Cfg) (fs : FS) (n : Nat) (roots l : List Comps) (c : Comps)
    (hwf : wf fs = true) (hfuel : bigFuel fs n) (h : iter cfg fs n roots = .ok l)
    (hnf : ∀ r ∈ roots, lstat fs r ≠ some .file)
    (hc : memberSpec cfg fs roots c) : c ∈ l :=
  iter_complete' cfg fs n roots l c hwf hfuel h (fun hcr => hnf c hcr hc.1) hc

/-- … exactly once: no path is enumerated twice, for ANY list of code-base directories — a directory listed
twice (e.g. once through a symbolic link: the directories are resolved) or listed together with one of its
parents is walked once (repair of F-C09-NEST; before it this needed "no directory lies inside another") -/
theorem iter_nodup (cfg : Cfg) (fs : FS) (n : Nat) (roots l : List Comps)
    (hwf : wf fs = true) (h : iter cfg fs n roots = .ok l) : l.Nodup :=
  iter_nodup' cfg fs n roots l hwf h

/-- the former statement (directories without overlap), now a special case -/
theorem iter_nodup_disjoint (cfg : Cfg) (fs : FS) (n : Nat) (roots l : List Comps)
    (hwf : wf fs = true) (_hroots : roots.Pairwise (fun a b => ¬ a <+: b ∧ ¬ b <+: a))
    (h : iter cfg fs n roots = .ok l) : l.Nodup :=
  iter_nodup cfg fs n roots l hwf h

/-- an enumerated path is the canonical path of a member, or a symbolic link that resolves to a member
(or, in the recorded class, a link whose text `escapes`) -/
theorem iter_noncanonical (cfg : Cfg) (fs : FS) (n : Nat) (roots l : List Comps) (x : Comps)
    (hwf : wf fs = true) (hfuel : bigFuel fs n) (h : iter cfg fs n roots = .ok l) (hx : x ∈ l) :
    (lstat fs x = some .file ∧ memberSpec cfg fs roots x) ∨
    (∃ t c, lstat fs x = some (.link t) ∧ namei fs n [] x = .ok c ∧ memberSpec cfg fs roots c) ∨
    (∃ t, lstat fs x = some (.link t) ∧ escapes fs n [] ⟨true, x⟩) :=
  iter_cases cfg fs n roots l x hwf hfuel h hx

/-- `C09.iter_exact`: the three parts together, for ANY list of code-base directories — equal, nested, in any
order (hypothesis `hnf` ADDED for the second part, as in `iter_complete`; the hypothesis "no directory lies
inside another" of the statement before the repair of F-C09-NEST is gone) -/
theorem iter_exact (cfg : Cfg) (fs : FS) (n : Nat) (roots l : List Comps)
    (hwf : wf fs = true) (hfuel : bigFuel fs n)
    (hnf : ∀ r ∈ roots, lstat fs r ≠ some .file)
    (h : iter cfg fs n roots = .ok l) :
    (∀ x ∈ l, contains cfg fs n roots [] ⟨true, x⟩ = .ok true) ∧
    (∀ c, memberSpec cfg fs roots c → l.count c = 1) ∧
    (∀ x ∈ l, namei fs n [] x ≠ .ok x →
        ∃ t, lstat fs x = some (.link t) ∧
          ((∃ c, namei fs n [] x = .ok c ∧ memberSpec cfg fs roots c) ∨ escapes fs n [] ⟨true, x⟩)) := by
  refine ⟨fun x hx => iter_members cfg fs n roots l x h hx, ?_, ?_⟩
  · intro c hc
    exact List.count_eq_one_of_mem (iter_nodup cfg fs n roots l hwf h)
      (iter_complete cfg fs n roots l c hwf hfuel h hnf hc)
  · intro x hx hne
    rcases iter_noncanonical cfg fs n roots l x hwf hfuel h hx with ⟨hf, _⟩ | ⟨t, c, hl, hn, hm⟩ | ⟨t, hl, he⟩
    · exfalso
      apply hne
      have hkey : x ∈ keys fs := by
        apply lstat_mem_keys fs x _ _ hf
        intro hE; subst hE; rw [lstat_nil] at hf; cases hf
      exact namei_of_canon fs x n (wf_canon fs hwf x (Or.inr hf)) (hfuel x hkey)
    · exact ⟨t, hl, Or.inl ⟨c, hn, hm⟩⟩
    · exact ⟨t, hl, Or.inr he⟩

/-- the former statement of `iter_exact` (directories without overlap), now a special case -/
theorem iter_exact_disjoint (cfg : Cfg) (fs : FS) (n : Nat) (roots l : List Comps)
    (hwf : wf fs = true) (hfuel : bigFuel fs n)
    (_hroots : roots.Pairwise (fun a b => ¬ a <+: b ∧ ¬ b <+: a))
    (hnf : ∀ r ∈ roots, lstat fs r ≠ some .file)
    (h : iter cfg fs n roots = .ok l) :
    (∀ x ∈ l, contains cfg fs n roots [] ⟨true, x⟩ = .ok true) ∧
    (∀ c, memberSpec cfg fs roots c → l.count c = 1) ∧
    (∀ x ∈ l, namei fs n [] x ≠ .ok x →
        ∃ t, lstat fs x = some (.link t) ∧
          ((∃ c, namei fs n [] x = .ok c ∧ memberSpec cfg fs roots c) ∨ escapes fs n [] ⟨true, x⟩)) :=
  iter_exact cfg fs n roots l hwf hfuel hnf h

/-- the enumeration raises exactly when some entry below a walked directory runs into a link loop (D18) -/
theorem iter_error_iff (cfg : Cfg) (fs : FS) (n : Nat) (roots : List Comps) :
    (∃ e, iter cfg fs n roots = .error e) ↔
      cfg.catchLoop = false ∧ ∃ x ∈ candidates fs roots, realpath fs n [] x = .loop := by
  have key : ∀ x, isErr (contains cfg fs n roots [] ⟨true, x⟩) = true ↔
      cfg.catchLoop = false ∧ realpath fs n [] x = .loop := by
    intro x
    have hs0 : start [] (⟨true, x⟩ : P) = [] := rfl
    unfold contains
    simp only [hs0]
    rcases realpath_ok_or_loop fs n [] x with ⟨r, hr⟩ | hl
    · simp only [hr]
      constructor
      · intro hE
        cases hs : stat fs n r with
        | none => simp [hs, isErr] at hE
        | some e => cases e <;> simp [hs, isErr] at hE
      · rintro ⟨_, hE⟩; cases hE
    · simp only [hl]
      cases hc : cfg.catchLoop <;> simp [isErr]
  unfold iter
  simp only
  constructor
  · rintro ⟨e, he⟩
    split at he
    · rename_i hany
      obtain ⟨x, hx, hxe⟩ := List.any_eq_true.mp hany
      obtain ⟨h1, h2⟩ := (key x).mp hxe
      exact ⟨h1, x, hx, h2⟩
    · cases he
  · rintro ⟨h1, x, hx, h2⟩
    have hany : (candidates fs roots).any (fun x => isErr (contains cfg fs n roots [] ⟨true, x⟩)) = true :=
      List.any_eq_true.mpr ⟨x, hx, (key x).mpr ⟨h1, h2⟩⟩
    exact ⟨.symlinkLoop, by rw [if_pos hany]⟩

/-! ## the extension tables -/

/-- the list in `source.py` is exactly the union of the per-language lists of `language.py` -/
theorem ext_tables_agree :
    (CbiVerif.Gen.sourceExts.all fun e => (CbiVerif.Gen.languageExts.flatMap (·.2)).contains e) = true ∧
    ((CbiVerif.Gen.languageExts.flatMap (·.2)).all fun e => CbiVerif.Gen.sourceExts.contains e) = true := by
  decide

/-- `pathlib`'s suffix (used for membership) and `os.path.splitext` (used to pick the language) agree on
every name with a suffix, except names whose stem consists of dots only (`..c`) — recorded class F-C09-3 -/
theorem suffix_splitext (nm : String) (h : suffix nm ≠ "") :
    splitextExt nm = suffix nm ∨ dotStem nm = true := by
  unfold suffix at h
  unfold splitextExt suffix dotStem
  cases hs : splitLastDot nm.toList with
  | none => simp [hs] at h
  | some se =>
    obtain ⟨stem, ext⟩ := se
    simp only [hs] at h ⊢
    cases hd : dotsOnly stem with
    | true => right; rfl
    | false =>
      left
      by_cases hE : (stem.isEmpty || ext.isEmpty) = true
      · simp [hE] at h
      · simp [hE]

/-! ## witnesses of the recorded classes and non-vacuity -/

def exFS : FS :=
  [ (["t"], .dir), (["t", "a.c"], .file), (["t", "sub"], .dir), (["t", "sub", "b.h"], .file),
    (["t", "dl"], .link ⟨false, ["sub"]⟩), (["t", "la.c"], .link ⟨false, ["a.c"]⟩),
    (["t", "notes.txt"], .file), (["out"], .dir), (["out", "o.c"], .file),
    (["t", "lo.c"], .link ⟨false, ["..", "out", "o.c"]⟩), (["t", "sub", "x.c"], .file) ]

def exCfg : Cfg := { ignored := fun rel => rel == ["sub", "x.c"], catchLoop := false }

/-- `member_iff` / `spelling_independent` apply: `../dl/../la.c` from `/t/sub` and `/t/a.c` name the same file -/
example : dirPath exFS ["t", "sub"] = true ∧
    namei exFS 20 (start ["t", "sub"] ⟨false, ["..", "dl", "..", "la.c"]⟩) ["..", "dl", "..", "la.c"] = .ok ["t", "a.c"] ∧
    namei exFS 20 (start [] ⟨true, ["t", "a.c"]⟩) ["t", "a.c"] = .ok ["t", "a.c"] := by decide

example : wf exFS = true := by decide
/-- hypotheses of `iter_exact_disjoint` hold for two disjoint directory roots -/
example : ([["t", "sub"], ["out"]] : List Comps).Pairwise (fun a b => ¬ a <+: b ∧ ¬ b <+: a) := by decide
example : ∀ r ∈ ([["t", "sub"], ["out"]] : List Comps), lstat exFS r ≠ some .file := by decide
/-- hypotheses of `iter_exact` / `C15.counted_once` hold for overlapping directories: an inner directory listed
before its parent, the parent listed twice, an unrelated directory — every member once -/
example : ∀ r ∈ ([["t", "sub"], ["t"], ["out"], ["t"]] : List Comps), lstat exFS r ≠ some .file := by decide
example : iter { exCfg with ignored := fun _ => false } exFS 20 [["t", "sub"], ["t"], ["out"], ["t"]]
    = .ok [["t", "a.c"], ["t", "sub", "b.h"], ["t", "la.c"], ["t", "lo.c"], ["t", "sub", "x.c"], ["out", "o.c"]] := by rfl
example : iter exCfg exFS 20 [["t", "sub"], ["out"]] = .ok [["t", "sub", "b.h"], ["t", "sub", "x.c"], ["out", "o.c"]] := by rfl
example : bigFuel exFS 20 := by unfold bigFuel; decide
example : isTrue (contains exCfg exFS 20 [["t"]] ["t", "sub"] ⟨false, ["..", "dl", "..", "la.c"]⟩) = true := by decide
example : iter exCfg exFS 20 [["t"]] = .ok [["t", "a.c"], ["t", "sub", "b.h"], ["t", "la.c"]] := by rfl

/-- F-C09-K is inhabited: `a.c/../sub/b.h` names nothing for the OS, yet it is reported as a member -/
theorem escape_witness :
    escapes exFS 20 [] ⟨true, ["t", "a.c", "..", "sub", "b.h"]⟩ ∧
    contains exCfg exFS 20 [["t"]] [] ⟨true, ["t", "a.c", "..", "sub", "b.h"]⟩ = .ok true := by
  refine ⟨⟨Or.inr (by decide), ["t", "sub", "b.h"], by decide, by decide⟩, ?_⟩
  rfl

/-- D18 is inhabited: one looping link below the root makes the whole enumeration raise -/
theorem loop_witness :
    iter exCfg (exFS ++ [(["t", "lp.c"], .link ⟨false, ["lp.c"]⟩)]) 20 [["t"]] = .error .symlinkLoop ∧
    iter { exCfg with catchLoop := true } (exFS ++ [(["t", "lp.c"], .link ⟨false, ["lp.c"]⟩)]) 20 [["t"]]
      = .ok [["t", "a.c"], ["t", "sub", "b.h"], ["t", "la.c"]] := by
  exact ⟨rfl, rfl⟩

/-- F-C09-NEST (repaired): with one code-base directory inside another the enumeration that walked every listed
directory (`iterUnrepaired`, the code before the repair) produced a member twice; `iter` produces it once -/
theorem nested_roots_witness :
    iterUnrepaired exCfg exFS 20 [["t"], ["t", "sub"]]
      = .ok [["t", "a.c"], ["t", "sub", "b.h"], ["t", "la.c"], ["t", "sub", "b.h"]] ∧
    iter exCfg exFS 20 [["t"], ["t", "sub"]] = .ok [["t", "a.c"], ["t", "sub", "b.h"], ["t", "la.c"]] ∧
    iter exCfg exFS 20 [["t", "sub"], ["t"], ["t"]] = .ok [["t", "a.c"], ["t", "sub", "b.h"], ["t", "la.c"], ["t", "sub", "x.c"]] := by
  exact ⟨rfl, rfl, rfl⟩

/-- why `iter_complete`, `iter_exact` (and `C15.counted_once`) assume that no code-base "directory" is a
regular file: such a root is a member of itself (`is_relative_to` holds for the path itself) although
`rglob` below it yields nothing -/
theorem file_root_witness :
    wf [(["a.c"], Entry.file)] = true ∧ bigFuel [(["a.c"], Entry.file)] 20 ∧
    memberSpec exCfg [(["a.c"], Entry.file)] [["a.c"]] ["a.c"] ∧
    contains exCfg [(["a.c"], Entry.file)] 20 [["a.c"]] [] ⟨true, ["a.c"]⟩ = .ok true ∧
    iter exCfg [(["a.c"], Entry.file)] 20 [["a.c"]] = .ok [] := by
  refine ⟨by decide, by unfold bigFuel; decide, ⟨by decide, by decide, ["a.c"], by decide, by decide⟩, rfl, rfl⟩

/-- the statement of `iter_complete` WITHOUT the added hypothesis `hnf` is false -/
theorem iter_complete_without_hnf_false :
    ¬ (∀ (cfg : Cfg) (fs : FS) (n : Nat) (roots l : List Comps) (c : Comps),
        wf fs = true → bigFuel fs n → iter cfg fs n roots = .ok l → memberSpec cfg fs roots c → c ∈ l) := by
  intro H
  obtain ⟨h1, h2, h3, _, h5⟩ := file_root_witness
  have := H _ _ _ _ _ _ h1 h2 h5 h3
  cases this

end CbiVerif.C09
