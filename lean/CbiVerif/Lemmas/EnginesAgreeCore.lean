import CbiVerif.Lemmas.EnginesAgreeSim
/-! Helper lemmas for `Props/C04Engines.lean`, part 3: one node, one file, by induction on the include depth. -/
namespace CbiVerif.Engines
open CbiVerif.PP CbiVerif.Exclude CbiVerif.Cond CbiVerif.MF

variable {W : Type}

theorem exec_cases (F : FileOps W) (d : Nat) (file : String) (w : W) (i : Nat) :
    ((F.enter file w i).1 = none ∧ (MF.sem F d file).exec w i = (F.enter file w i).2) ∨
    (∃ inc, (F.enter file w i).1 = some inc ∧
      ((d = 0 ∧ (MF.sem F d file).exec w i = F.noFuel (F.enter file w i).2) ∨
       (∃ d', d = d' + 1 ∧ (MF.sem F d file).exec w i = assocWith (MF.sem F d' inc) F inc (F.enter file w i).2))) := by
  cases h : (F.enter file w i).1 with
  | none => left; cases d <;> simp [MF.sem, h]
  | some inc =>
    right
    refine ⟨inc, rfl, ?_⟩
    cases d with
    | zero => left; simp [MF.sem, h]
    | succ d' => right; exact ⟨d', rfl, by simp [MF.sem, h]⟩

theorem evalIf_eq (F : FileOps W) (d : Nat) (file : String) : (MF.sem F d file).evalIf = F.evalIf file := by
  cases d <;> rfl

/-- agreement of the two engines on one whole file at include depth `d` (induction hypothesis of the simulation) -/
def FileAgree (fs : Inc.FS) (name : String) (d : Nat) : Prop :=
  ∀ (g : String) (m : Nat) (nodes : List PNode) (ts : List Tree) (dd : List Warn.Directive)
    (E : String → Nat → String → Prop) (l : Local) (w : Inc.World),
    (Inc.parseAll fs).get g = some (.ok ⟨nodes.toArray, labels nodes, dd⟩) → build (labels nodes) = some ts →
    RelW E name l w →
    (assocTreeRef (Exclude.sem fs.files) m g .c (nodes.toArray, toPTrees ts) l).err ≠ none ∨
    (assocWith (MF.sem (Inc.ops fs (Inc.parseAll fs)) d g) (Inc.ops fs (Inc.parseAll fs)) g w).st.err ≠ none ∨
    (RelW E name (assocTreeRef (Exclude.sem fs.files) m g .c (nodes.toArray, toPTrees ts) l)
        (assocWith (MF.sem (Inc.ops fs (Inc.parseAll fs)) d g) (Inc.ops fs (Inc.parseAll fs)) g w) ∧
      (assocTreeRef (Exclude.sem fs.files) m g .c (nodes.toArray, toPTrees ts) l).taken = l.taken)

theorem step_include (fsm : FSMap) (file : String) (idx : Nat) (n : PNode) (l0 : Local) (hk : n.kind = .include) :
    stepNode fsm file idx n l0 =
      (match Inc.includeTarget l0.plat.tbl n.toks with
       | .error e => (({ l0 with assoc := addAssoc l0.assoc file idx l0.plat.name } : Local).fail e, Act.stay)
       | .ok ps =>
         match (l0.plat.findInclude fsm ps.1 (dirname file) ps.2).1 with
         | none => ({ l0 with assoc := addAssoc l0.assoc file idx l0.plat.name,
                              plat := (l0.plat.findInclude fsm ps.1 (dirname file) ps.2).2,
                              warns := l0.warns ++ [if ps.2 then .sysInclude file (n.lines.headD 0) ps.1 else .userInclude file (n.lines.headD 0) ps.1] }, Act.stay)
         | some inc =>
           if (l0.plat.findInclude fsm ps.1 (dirname file) ps.2).2.skip.contains inc
           then ({ l0 with assoc := addAssoc l0.assoc file idx l0.plat.name, plat := (l0.plat.findInclude fsm ps.1 (dirname file) ps.2).2 }, Act.stay)
           else ({ l0 with assoc := addAssoc l0.assoc file idx l0.plat.name, plat := (l0.plat.findInclude fsm ps.1 (dirname file) ps.2).2 }, Act.incl inc)) := by
  unfold stepNode Inc.includeTarget
  simp only [hk]
  cases includePath n.toks with
  | some r =>
    simp only []
    cases (l0.plat.findInclude fsm r.1 (dirname file) r.2).1 <;> rfl
  | none =>
    simp only []
    cases runExpandT l0.plat.tbl n.toks with
    | ok ts =>
      simp only []
      cases includePath ts with
      | none => rfl
      | some r => simp only []; cases (l0.plat.findInclude fsm r.1 (dirname file) r.2).1 <;> rfl
    | error e => rfl
    | sig s => rfl

/-- the parse step of `Exclude.sem` for a file whose class (given the inherited one) is C whenever it exists, against the
parsed file system of the C04 engine -/
theorem enterRef_cases' (fs : Inc.FS) (loc : Local) (g : String) (inh : Option LClass)
    (href : ∀ text, fs.files.get g = some text → (Exclude.sem fs.files).refClass g inh = some .c) :
    (∃ l1, (Exclude.sem fs.files).enterRef loc g inh = (l1, none) ∧ l1.err ≠ none) ∨
    (∃ (nodes : List PNode) (ts : List Tree) (dd : List Warn.Directive),
      (Inc.parseAll fs).get g = some (.ok ⟨nodes.toArray, labels nodes, dd⟩) ∧ build (labels nodes) = some ts ∧
      (Exclude.sem fs.files).enterRef loc g inh = (loc, some (.c, (nodes.toArray, toPTrees ts)))) := by
  cases hg : fs.files.get g with
  | none =>
    left
    simp only [Exclude.Sem.enterRef]
    cases (Exclude.sem fs.files).refClass g inh with
    | none => exact ⟨_, rfl, by simp [Local.fail]⟩
    | some cl =>
      simp only [Exclude.sem, parseAsFS, hg]
      exact ⟨_, rfl, by simp [Local.fail]⟩
  | some text =>
    simp only [Exclude.Sem.enterRef, href text hg]
    simp only [Exclude.sem, parseAsFS, hg, parseAll_get, Option.map_some]
    rcases parse_rel text with ⟨e0, _, ⟨e1, h1⟩, ⟨e2, h2⟩⟩ | ⟨nodes, _, _, ⟨e1, h1⟩, ⟨e2, h2⟩⟩ | ⟨nodes, ts, dd, _, hb, h1, h2⟩
    · left; rw [h2]; exact ⟨_, rfl, by simp [Local.fail]⟩
    · left; rw [h2]; exact ⟨_, rfl, by simp [Local.fail]⟩
    · right; exact ⟨nodes, ts, dd, by rw [h1], hb, by simp [h2]⟩

/-- … for a header reached from a C-family file -/
theorem enterRef_cases (fs : Inc.FS) (hfam : FindInst.CFam fs.files = true) (loc : Local) (g : String) :
    (∃ l1, (Exclude.sem fs.files).enterRef loc g (some .c) = (l1, none) ∧ l1.err ≠ none) ∨
    (∃ (nodes : List PNode) (ts : List Tree) (dd : List Warn.Directive),
      (Inc.parseAll fs).get g = some (.ok ⟨nodes.toArray, labels nodes, dd⟩) ∧ build (labels nodes) = some ts ∧
      (Exclude.sem fs.files).enterRef loc g (some .c) = (loc, some (.c, (nodes.toArray, toPTrees ts)))) := by
  apply enterRef_cases'
  intro text hg
  have hmem : ∃ e ∈ fs.files, e.1 = g := by
    unfold FSMap.get at hg
    cases hf : fs.files.find? (fun x => x.1 == g) with
    | none => simp [hf] at hg
    | some e => exact ⟨e, List.mem_of_find?_eq_some hf, by simpa using List.find?_some hf⟩
  obtain ⟨e, he, rfl⟩ := hmem
  have hcl := (List.all_eq_true.mp hfam) e he
  simp only [Exclude.Sem.refClass, Exclude.sem]
  simp only [Bool.or_eq_true, beq_iff_eq] at hcl
  rcases hcl with h | h <;> simp [h]

/-- what `IncludeNode.evaluate_for_platform` of the C04 engine leaves, by the outcome of the look-up -/
theorem includeStep_props (fs : Inc.FS) (hl : fs.links = []) (pfs : Inc.ParsedFS) (file : String) (w : Inc.World) (idx : Nat)
    (n : PNode) (ps : String × Bool) (r : Option String × IncMemo.Memo IncMemo.Key)
    (hit : Inc.includeTarget w.plat.tbl n.toks = .ok ps)
    (hlk : Inc.lookupWith true fs.env w.plat.incPaths w.plat.memo ⟨ps.1, Inc.dirnameK file, ps.2⟩ = r) :
    (Inc.includeStep true fs pfs file w idx n).2.plat = { w.plat with memo := r.2 } ∧
    (Inc.includeStep true fs pfs file w idx n).2.st.assoc = w.st.assoc ∧
    (r.1 = none → (Inc.includeStep true fs pfs file w idx n).1 = none ∧
        (Inc.includeStep true fs pfs file w idx n).2.st.err = w.st.err) ∧
    (∀ inc, r.1 = some inc → w.plat.skip.contains inc = true →
        (Inc.includeStep true fs pfs file w idx n).1 = none ∧ (Inc.includeStep true fs pfs file w idx n).2.st.err = w.st.err) ∧
    (∀ inc P, r.1 = some inc → w.plat.skip.contains inc = false → pfs.get inc = some (.ok P) → w.st.err = none →
        (Inc.includeStep true fs pfs file w idx n).1 = some inc ∧ (Inc.includeStep true fs pfs file w idx n).2.st.err = none) := by
  obtain ⟨r1, r2⟩ := r
  unfold Inc.includeStep
  simp only [hit, hlk, realpath_id fs hl]
  cases r1 with
  | none => simp
  | some inc0 =>
    simp only []
    by_cases hsk : w.plat.skip.contains inc0 = true
    · simp only [hsk, if_true]
      refine ⟨by first | rfl | trivial, by first | rfl | trivial, by simp, ?_, ?_⟩
      · intro inc h1 _; exact ⟨by first | rfl | trivial, by first | rfl | trivial⟩
      · intro inc P h1 h2; simp only [Option.some.injEq] at h1; subst h1; rw [hsk] at h2; simp at h2
    · simp only [hsk, Bool.false_eq_true, if_false]
      refine ⟨by split <;> rfl, ?_, by simp, ?_, ?_⟩
      · split <;> exact (Inc.insertFile_frame _ pfs inc0).2.2
      · intro inc h1 h2; simp only [Option.some.injEq] at h1; subst h1; exact absurd h2 hsk
      · intro inc P h1 _ hp herr
        simp only [Option.some.injEq] at h1; subst h1
        have := Inc.insertFile_err_none { w.st with visits := w.st.visits ++ [(⟨file, idx, n.lines.headD 0, ps.1, ps.2, w.plat.incPaths,
          IncMemo.resolveM fs.env w.plat.incPaths ⟨ps.1, Inc.dirnameK file, ps.2⟩⟩ : Inc.Visit)] } pfs inc0 P herr hp
        refine ⟨?_, ?_⟩
        · simp only [this, Option.isSome_none, Bool.false_eq_true, if_false]
        · simp only [this, Option.isSome_none, Bool.false_eq_true, if_false]

/-- a non-conditional directive (`#define`, `#undef`, `#pragma`, `#include`, unrecognised): the step of
`Exclude.visitRef` against `Sem.exec` of the C04 engine -/
theorem other_step (fs : Inc.FS) (hl : fs.links = []) (hfam : FindInst.CFam fs.files = true) (name : String) (d : Nat)
    (ih : ∀ d', d' < d → FileAgree fs name d')
    (m : Nat) (file : String) (nodes : Array PNode) (E : String → Nat → String → Prop) (l : Local)
    (a : AState Inc.World) (idx : Nat) (kids : List PTree) (n : PNode)
    (hnode : ∀ i, (Inc.parseAll fs).node file i = nodes[i]?) (hn : nodes[idx]? = some n)
    (hk : kindOf n.kind = .other) (hr : Rel E file name l a) :
    Out3 E file name (visitRef (Exclude.sem fs.files) (m + 1) file .c nodes l (.node idx kids))
      { a with out := a.out ++ [idx], σ := (MF.sem (Inc.ops fs (Inc.parseAll fs)) d file).exec a.σ idx } := by
  have hgetE : nodes[idx]! = n := by simp [getElem!_def, hn]
  have hnodeI : (Inc.parseAll fs).node file idx = some n := by rw [hnode, hn]
  obtain ⟨hcr, htk, hw⟩ := hr
  have hatt : ∀ f i p, Has (addAssoc l.assoc file idx l.plat.name) f i p ↔
      (Has a.σ.st.assoc f i p ∨ Pend E file name (a.out ++ [idx]) f i p) := by
    rw [hw.nm]; exact att_push hw.att idx
  have hplat := hw.plat
  simp only [visitRef, hw.lerr, hgetE]
  cases hkk : n.kind with
  | code => simp [kindOf, hkk] at hk
  | ifk => simp [kindOf, hkk] at hk
  | elifk => simp [kindOf, hkk] at hk
  | elsek => simp [kindOf, hkk] at hk
  | endk => simp [kindOf, hkk] at hk
  | unrecognized =>
    have he : (Inc.ops fs (Inc.parseAll fs)).enter file a.σ idx = (none, a.σ) := by
      simp only [Inc.ops, Inc.opsWith, Inc.enter, hw.werr, hnodeI, hkk]
    rcases exec_cases (Inc.ops fs (Inc.parseAll fs)) d file a.σ idx with ⟨_, hx⟩ | ⟨inc, h1, _⟩
    · rw [hx, he]
      simp only [Exclude.sem, stepNode, hkk]
      exact .inr (.inr ⟨hcr, htk, ⟨hw.lerr, hw.werr, hplat, hw.nm, hatt⟩⟩)
    · rw [he] at h1; simp at h1
  | undef =>
    have he : (Inc.ops fs (Inc.parseAll fs)).enter file a.σ idx =
        (none, { a.σ with plat := { a.σ.plat with tbl := a.σ.plat.tbl.filter (·.1 != n.name) } }) := by
      simp only [Inc.ops, Inc.opsWith, Inc.enter, hw.werr, hnodeI, hkk]
    rcases exec_cases (Inc.ops fs (Inc.parseAll fs)) d file a.σ idx with ⟨_, hx⟩ | ⟨inc, h1, _⟩
    · rw [hx, he]
      simp only [Exclude.sem, stepNode, hkk]
      exact .inr (.inr ⟨hcr, htk, ⟨hw.lerr, hw.werr, by simp only [hplat]; rfl, hw.nm, hatt⟩⟩)
    · rw [he] at h1; simp at h1
  | define =>
    simp only [Exclude.sem, stepNode, hkk]
    cases hmk : makeMacro n.name n.margs n.toks with
    | error e => left; simp [Local.fail]
    | ok mc =>
      simp only []
      have he : (Inc.ops fs (Inc.parseAll fs)).enter file a.σ idx =
          (if (a.σ.plat.tbl.get n.name).isSome then (none, a.σ)
           else (none, { a.σ with plat := { a.σ.plat with tbl := a.σ.plat.tbl ++ [(n.name, mc)] } })) := by
        simp only [Inc.ops, Inc.opsWith, Inc.enter, hw.werr, hnodeI, hkk, hmk]
      have htbl : a.σ.plat.tbl = l.plat.tbl := by rw [hplat]; rfl
      rcases exec_cases (Inc.ops fs (Inc.parseAll fs)) d file a.σ idx with ⟨_, hx⟩ | ⟨inc, h1, _⟩
      · rw [hx, he, htbl]
        by_cases hc : (l.plat.tbl.get n.name).isSome = true
        · simp only [hc, if_true]
          exact .inr (.inr ⟨hcr, htk, ⟨hw.lerr, hw.werr, hplat, hw.nm, hatt⟩⟩)
        · simp only [hc, Bool.false_eq_true, if_false]
          exact .inr (.inr ⟨hcr, htk, ⟨hw.lerr, hw.werr, by simp only [hplat]; rfl, hw.nm, hatt⟩⟩)
      · rw [he] at h1; split at h1 <;> simp at h1
  | pragma =>
    simp only [Exclude.sem, stepNode, hkk]
    have hskip : a.σ.plat.skip = l.plat.skip := by rw [hplat]; rfl
    have he : (Inc.ops fs (Inc.parseAll fs)).enter file a.σ idx =
        (match n.toks with
         | t :: _ => if t.spell == "once" && !l.plat.skip.contains file
            then (none, { a.σ with plat := { a.σ.plat with skip := a.σ.plat.skip ++ [file] } }) else (none, a.σ)
         | [] => (none, a.σ)) := by
      simp only [Inc.ops, Inc.opsWith, Inc.enter, hw.werr, hnodeI, hkk, hskip]
      cases n.toks <;> rfl
    rcases exec_cases (Inc.ops fs (Inc.parseAll fs)) d file a.σ idx with ⟨_, hx⟩ | ⟨inc, h1, _⟩
    · rw [hx, he]
      cases htoks : n.toks with
      | nil => exact .inr (.inr ⟨hcr, htk, ⟨hw.lerr, hw.werr, hplat, hw.nm, hatt⟩⟩)
      | cons t rest =>
        simp only []
        by_cases hc : (t.spell == "once" && !l.plat.skip.contains file) = true
        · simp only [hc, if_true]
          exact .inr (.inr ⟨hcr, htk, ⟨hw.lerr, hw.werr, by simp only [hplat]; rfl, hw.nm, hatt⟩⟩)
        · simp only [hc, Bool.false_eq_true, if_false]
          exact .inr (.inr ⟨hcr, htk, ⟨hw.lerr, hw.werr, hplat, hw.nm, hatt⟩⟩)
    · rw [he] at h1
      cases htoks : n.toks with
      | nil => simp [htoks] at h1
      | cons t rest => simp only [htoks] at h1; split at h1 <;> simp at h1
  | «include» =>
    rw [show (Exclude.sem fs.files).step = stepNode fs.files from rfl]
    rw [step_include fs.files file idx n l hkk]
    have htbl : a.σ.plat.tbl = l.plat.tbl := by rw [hplat]; rfl
    have he : (Inc.ops fs (Inc.parseAll fs)).enter file a.σ idx = Inc.includeStep true fs (Inc.parseAll fs) file a.σ idx n := by
      simp only [Inc.ops, Inc.opsWith, Inc.enter, hw.werr, hnodeI, hkk]
    cases hit : Inc.includeTarget l.plat.tbl n.toks with
    | error e => left; simp [Local.fail]
    | ok ps =>
      simp only []
      obtain ⟨hlk, hfi2⟩ := findInclude_eq fs hl l.plat ps.1 (dirname file) ps.2
      have hlk' : Inc.lookupWith true fs.env a.σ.plat.incPaths a.σ.plat.memo ⟨ps.1, Inc.dirnameK file, ps.2⟩ =
          ((l.plat.findInclude fs.files ps.1 (dirname file) ps.2).1, (l.plat.findInclude fs.files ps.1 (dirname file) ps.2).2.memo) := by
        rw [hplat, FindEngines.dirnameK_eq]; exact hlk
      have hit' : Inc.includeTarget a.σ.plat.tbl n.toks = .ok ps := by rw [htbl]; exact hit
      obtain ⟨hp1, hp2, hp3, hp4, hp5⟩ := includeStep_props fs hl (Inc.parseAll fs) file a.σ idx n ps _ hit' hlk'
      rw [← he] at hp1 hp2 hp3 hp4 hp5
      have hplat2 : ((Inc.ops fs (Inc.parseAll fs)).enter file a.σ idx).2.plat = cv (l.plat.findInclude fs.files ps.1 (dirname file) ps.2).2 := by
        rw [hp1, hplat]
        conv => rhs; rw [hfi2]
        rfl
      have hname2 : (l.plat.findInclude fs.files ps.1 (dirname file) ps.2).2.name = name := by
        rw [hfi2]; exact hw.nm
      have hskip2 : a.σ.plat.skip = (l.plat.findInclude fs.files ps.1 (dirname file) ps.2).2.skip := by
        rw [hplat]; conv => rhs; rw [hfi2]
        rfl
      have hatt2 : ∀ f i p, Has (addAssoc l.assoc file idx l.plat.name) f i p ↔
          (Has ((Inc.ops fs (Inc.parseAll fs)).enter file a.σ idx).2.st.assoc f i p ∨ Pend E file name (a.out ++ [idx]) f i p) := by
        rw [hp2]; exact hatt
      cases hfound : (l.plat.findInclude fs.files ps.1 (dirname file) ps.2).1 with
      | none =>
        simp only []
        obtain ⟨h1, h2⟩ := hp3 hfound
        rcases exec_cases (Inc.ops fs (Inc.parseAll fs)) d file a.σ idx with ⟨_, hx⟩ | ⟨inc, h1', _⟩
        · rw [hx]
          exact .inr (.inr ⟨hcr, htk, ⟨hw.lerr, by rw [h2]; exact hw.werr, hplat2, hname2, hatt2⟩⟩)
        · rw [h1] at h1'; simp at h1'
      | some inc =>
        simp only []
        by_cases hsk : (l.plat.findInclude fs.files ps.1 (dirname file) ps.2).2.skip.contains inc = true
        · simp only [hsk, if_true]
          obtain ⟨h1, h2⟩ := hp4 inc hfound (by rw [hskip2]; exact hsk)
          rcases exec_cases (Inc.ops fs (Inc.parseAll fs)) d file a.σ idx with ⟨_, hx⟩ | ⟨inc', h1', _⟩
          · rw [hx]
            exact .inr (.inr ⟨hcr, htk, ⟨hw.lerr, by rw [h2]; exact hw.werr, hplat2, hname2, hatt2⟩⟩)
          · rw [h1] at h1'; simp at h1'
        · simp only [hsk, Bool.false_eq_true, if_false]
          rcases enterRef_cases fs hfam
            { l with assoc := addAssoc l.assoc file idx l.plat.name, plat := (l.plat.findInclude fs.files ps.1 (dirname file) ps.2).2 } inc
            with ⟨l1, hen, hl1⟩ | ⟨nodes', ts', dd, hpg, hb, hen⟩
          · rw [hen]; exact .inl hl1
          · rw [hen]
            simp only []
            obtain ⟨h1, h2⟩ := hp5 inc _ hfound (by rw [hskip2]; simpa using hsk) hpg hw.werr
            rcases exec_cases (Inc.ops fs (Inc.parseAll fs)) d file a.σ idx with ⟨h1', _⟩ | ⟨inc', h1', hd⟩
            · rw [h1] at h1'; simp at h1'
            · rw [h1] at h1'
              simp only [Option.some.injEq] at h1'
              subst h1'
              rcases hd with ⟨_, hx⟩ | ⟨d', hd', hx⟩
              · right; left; right
                rw [hx]
                simp [Inc.ops, Inc.opsWith, Inc.World.setErr]
              · rw [hx]
                have hrel : RelW (Pend E file name (a.out ++ [idx])) name
                    { l with assoc := addAssoc l.assoc file idx l.plat.name, plat := (l.plat.findInclude fs.files ps.1 (dirname file) ps.2).2 }
                    ((Inc.ops fs (Inc.parseAll fs)).enter file a.σ idx).2 :=
                  ⟨hw.lerr, h2, hplat2, hname2, hatt2⟩
                rcases ih d' (by omega) inc m nodes' ts' dd _ _ _ hpg hb hrel with h | h | ⟨h, ht⟩
                · exact .inl h
                · exact .inr (.inl (.inr h))
                · exact .inr (.inr ⟨hcr, by rw [ht]; exact htk, h⟩)

end CbiVerif.Engines
