import CbiVerif.Lemmas.MacroFunRef
import CbiVerif.Lemmas.MacroDefined
import CbiVerif.Lemmas.MacroObjTop
/-! # C03, function-like fragment: what one loop iteration of `MX.step` does in each situation the fragment allows

Streams are written `P ++ some a :: R` with the read position at `P.length` (`P` may contain holes). -/
namespace CbiVerif.MX
open CbiVerif.PP

/-! ## the argument list on a plain token list -/
theorem splitArgs_length : ∀ (r : List Tok) (args : List (List Tok)) (cur : List Tok) (depth : Nat) (args' : List (List Tok))
    (rest : List Tok), splitArgs r args cur depth = some (args', rest) → rest.length < r.length := by
  intro r
  induction r with
  | nil => intro args cur depth args' rest h; simp [splitArgs] at h
  | cons tok r ih =>
    intro args cur depth args' rest h
    simp only [splitArgs] at h
    simp only [List.length_cons]
    split at h
    · have := ih _ _ _ _ _ h; omega
    · split at h
      · have := ih _ _ _ _ _ h; omega
      · split at h
        · split at h
          · simp only [Option.some.injEq, Prod.mk.injEq] at h
            obtain ⟨_, rfl⟩ := h
            omega
          · have := ih _ _ _ _ _ h; omega
        · have := ih _ _ _ _ _ h; omega

theorem callOf_length (ts : List Tok) (args : List (List Tok)) (rest : List Tok) (h : callOf ts = some (args, rest)) :
    rest.length + 2 ≤ ts.length := by
  cases ts with
  | nil => simp [callOf] at h
  | cons lp r =>
    simp only [callOf] at h
    split at h
    · have := splitArgs_length _ _ _ _ _ _ h
      simp only [List.length_cons]; omega
    · cases h

theorem foldl_toks_ge (S : List Helper) (n : Nat) : n ≤ S.foldl (fun n h => n + h.toks.length) n := by
  induction S generalizing n with
  | nil => simp
  | cons h S ih => simp only [List.foldl_cons]; exact Nat.le_trans (Nat.le_add_right _ _) (ih _)

theorem totalToks_ge (h : Helper) (S : List Helper) : h.toks.length ≤ totalToks (h :: S) := by
  unfold totalToks
  simp only [List.foldl_cons, Nat.zero_add]
  exact foldl_toks_ge S _

theorem filterSome_snoc_none (Q : List (Option Tok)) : filterSome (Q ++ [none]) = filterSome Q := by
  simp [filterSome]

/-- the machine's argument-collection loop on a stream that contains the whole call computes `splitArgs`; the consumed
    tokens are holes -/
theorem collect_sim (adv : Bool) (pr : Bool) (S : List Helper) (D : NoExp) : ∀ (r : List Tok) (Q : List (Option Tok))
    (args : List (List Tok)) (cur : List Tok) (depth f : Nat) (args' : List (List Tok)) (rest : List Tok),
    r.length < f → splitArgs r args cur depth = some (args', rest) →
    ∃ Q', filterSome Q' = filterSome Q ∧
      collectArgs adv f ⟨Q ++ r.map some, Q.length, pr⟩ S D args cur depth = .ok args' ⟨Q' ++ rest.map some, Q'.length, pr⟩ S D := by
  intro r
  induction r with
  | nil => intro Q args cur depth f args' rest _ h; simp [splitArgs] at h
  | cons tok r ih =>
    intro Q args cur depth f args' rest hf h
    obtain ⟨f', rfl⟩ : ∃ f', f = f' + 1 := ⟨f - 1, by simp at hf; omega⟩
    have hf' : r.length < f' := by simp at hf; omega
    simp only [splitArgs] at h
    simp only [List.map_cons, collectArgs, consume_mid]
    have hsh := shift Q (r.map some) none pr
    have hfs := filterSome_snoc_none Q
    by_cases h1 : (dtext tok == "," && depth == 1) = true
    · rw [if_pos h1] at h ⊢
      rw [hsh]
      obtain ⟨Q', hq, hc⟩ := ih (Q ++ [none]) _ _ _ f' _ _ hf' h
      exact ⟨Q', by rw [hq, hfs], hc⟩
    · rw [if_neg h1] at h ⊢
      by_cases h2 : (dtext tok == "(") = true
      · rw [if_pos h2] at h ⊢
        rw [hsh]
        obtain ⟨Q', hq, hc⟩ := ih (Q ++ [none]) _ _ _ f' _ _ hf' h
        exact ⟨Q', by rw [hq, hfs], hc⟩
      · rw [if_neg h2] at h ⊢
        by_cases h3 : (dtext tok == ")") = true
        · rw [if_pos h3] at h ⊢
          by_cases h4 : (depth == 1) = true
          · rw [if_pos h4] at h ⊢
            simp only [Option.some.injEq, Prod.mk.injEq] at h
            obtain ⟨rfl, rfl⟩ := h
            rw [hsh]
            exact ⟨Q ++ [none], hfs, rfl⟩
          · rw [if_neg h4] at h ⊢
            rw [hsh]
            obtain ⟨Q', hq, hc⟩ := ih (Q ++ [none]) _ _ _ f' _ _ hf' h
            exact ⟨Q', by rw [hq, hfs], hc⟩
        · rw [if_neg h3] at h ⊢
          rw [hsh]
          obtain ⟨Q', hq, hc⟩ := ih (Q ++ [none]) _ _ _ f' _ _ hf' h
          exact ⟨Q', by rw [hq, hfs], hc⟩

/-! ## one iteration at a token that stays -/
theorem mstep_nonident (c : Cfg) (tbl : Table) (P R : List (Option Tok)) (S : List Helper) (D : NoExp) (F : List Frame) (pr : Bool)
    (a : Tok) (hk : (a.kind != TKind.ident) = true) :
    step c tbl ⟨⟨P ++ some a :: R, P.length, pr⟩ :: S, D, F, none⟩
      = .cont ⟨⟨(P ++ [some a]) ++ R, (P ++ [some a]).length, pr⟩ :: S, D, F, none⟩ := by
  have hnl : ¬ (P.length ≥ (P ++ some a :: R).length) := by simp
  simp only [step, hnl, if_false, getElem?_mid, hk, if_true]
  simp

theorem mstep_paint (c : Cfg) (tbl : Table) (P R : List (Option Tok)) (S : List Helper) (D : NoExp) (F : List Frame) (pr : Bool)
    (a : Tok) (hk : (a.kind != TKind.ident) = false) (hd : (a.text == "defined") = false)
    (hq : (!a.expandable || D.contains (some a.text)) = true) :
    step c tbl ⟨⟨P ++ some a :: R, P.length, pr⟩ :: S, D, F, none⟩
      = .cont ⟨⟨(P ++ [some (paint a)]) ++ R, (P ++ [some (paint a)]).length, pr⟩ :: S, D, F, none⟩ := by
  have hnl : ¬ (P.length ≥ (P ++ some a :: R).length) := by simp
  simp only [step, hnl, if_false, getElem?_mid, hk, Bool.false_eq_true, hd, hq, if_true, set_mid']
  simp

theorem mstep_nomacro (c : Cfg) (tbl : Table) (P R : List (Option Tok)) (S : List Helper) (D : NoExp) (F : List Frame) (pr : Bool)
    (a : Tok) (hk : (a.kind != TKind.ident) = false) (hd : (a.text == "defined") = false)
    (hq : (!a.expandable || D.contains (some a.text)) = false) (hm : tbl.get a.text = none) :
    step c tbl ⟨⟨P ++ some a :: R, P.length, pr⟩ :: S, D, F, none⟩
      = .cont ⟨⟨(P ++ [some a]) ++ R, (P ++ [some a]).length, pr⟩ :: S, D, F, none⟩ := by
  have hnl : ¬ (P.length ≥ (P ++ some a :: R).length) := by simp
  simp only [step, hnl, if_false, getElem?_mid, hk, Bool.false_eq_true, hd, hq, hm]
  simp

/-- an enabled object-like macro name: its replacement list is pushed as a new stream, the name becomes a hole -/
theorem mstep_obj (c : Cfg) (tbl : Table) (P R : List (Option Tok)) (S : List Helper) (D : NoExp) (F : List Frame) (pr : Bool)
    (a : Tok) (m : Macro) (hk : (a.kind != TKind.ident) = false) (hd : (a.text == "defined") = false)
    (hq : (!a.expandable || D.contains (some a.text)) = false) (hm : tbl.get a.text = some m) (ho : m.args = none)
    (hov : ¬ (S.length + 2 ≥ c.lim)) :
    step c tbl ⟨⟨P ++ some a :: R, P.length, pr⟩ :: S, D, F, none⟩
      = .cont ⟨⟨(fixpw m.replacement a.pw).map some, 0, false⟩ :: ⟨(P ++ [none]) ++ R, (P ++ [none]).length, pr⟩ :: S,
          some m.name :: D, F, none⟩ := by
  have hnl : ¬ (P.length ≥ (P ++ some a :: R).length) := by simp
  simp only [step, hnl, if_false, getElem?_mid, hk, Bool.false_eq_true, hd, hq, hm, ho, hov, set_mid']
  simp

/-- an enabled function-like macro name followed by a complete call in the same stream: the whole call becomes holes, and the
    iteration continues with the processing of the collected arguments -/
theorem mstep_call (c : Cfg) (tbl : Table) (P : List (Option Tok)) (S : List Helper) (D : NoExp) (F : List Frame) (pr : Bool)
    (a lp : Tok) (r : List Tok) (m : Macro) (ps : List String) (args : List (List Tok)) (rest : List Tok)
    (hk : (a.kind != TKind.ident) = false) (hd : (a.text == "defined") = false)
    (hq : (!a.expandable || D.contains (some a.text)) = false) (hm : tbl.get a.text = some m) (ha : m.args = some ps)
    (hv : m.variadic = false)
    (hlp : dtext lp = "(") (hsp : splitArgs r [] [] 1 = some (args, rest)) :
    ∃ P2, filterSome P2 = filterSome P ∧
      step c tbl ⟨⟨P ++ some a :: some lp :: r.map some, P.length, pr⟩ :: S, D, F, none⟩
        = processArgs c a.pw m args [] ⟨⟨P2 ++ rest.map some, P2.length, pr⟩ :: S, D, F, none⟩ := by
  have hnl : ¬ (P.length ≥ (P ++ some a :: some lp :: r.map some).length) := by simp
  have hfuel : r.length < totalToks ((⟨(P ++ [none]) ++ none :: r.map some, (P ++ [none]).length + 1, pr⟩ : Helper) :: S) + 1 := by
    have h1 := totalToks_ge (⟨(P ++ [none]) ++ none :: r.map some, (P ++ [none]).length + 1, pr⟩ : Helper) S
    have h2 : ((P ++ [none]) ++ none :: r.map some).length = P.length + 2 + r.length := by simp; omega
    have h3 : (⟨(P ++ [none]) ++ none :: r.map some, (P ++ [none]).length + 1, pr⟩ : Helper).toks.length = P.length + 2 + r.length := h2
    omega
  obtain ⟨P2, hp2, hcol⟩ := collect_sim c.adv pr S D r ((P ++ [none]) ++ [none]) [] [] 1 _ args rest hfuel hsp
  refine ⟨P2, ?_, ?_⟩
  · rw [hp2, filterSome_snoc_none, filterSome_snoc_none]
  · simp only [step, hnl, if_false, getElem?_mid, hk, Bool.false_eq_true, hd, hq, hm, ha, stepCall, set_mid']
    rw [shift P (some lp :: r.map some) none pr]
    simp only [peekDown_mid, Option.map_some, hlp, bne_self_eq_false, Bool.false_eq_true, if_false, consume_mid, hv]
    rw [shift (P ++ [none]) (r.map some) none pr] at hcol ⊢
    rw [hcol]

/-- an enabled function-like macro name followed, in the same stream, by a token other than `(`: not a call, the name stays
    (unpainted) and the scan moves on -/
theorem mstep_bare (c : Cfg) (tbl : Table) (P R : List (Option Tok)) (S : List Helper) (D : NoExp) (F : List Frame) (pr : Bool)
    (a x : Tok) (m : Macro) (ps : List String)
    (hk : (a.kind != TKind.ident) = false) (hd : (a.text == "defined") = false)
    (hq : (!a.expandable || D.contains (some a.text)) = false) (hm : tbl.get a.text = some m) (ha : m.args = some ps)
    (hx : (dtext x != "(") = true) :
    step c tbl ⟨⟨P ++ some a :: some x :: R, P.length, pr⟩ :: S, D, F, none⟩
      = .cont ⟨⟨(P ++ [some a]) ++ some x :: R, (P ++ [some a]).length, pr⟩ :: S, D, F, none⟩ := by
  have hnl : ¬ (P.length ≥ (P ++ some a :: some x :: R).length) := by simp
  have hx' : (some (dtext x) != some "(") = true := by simpa using hx
  simp only [step, hnl, if_false, getElem?_mid, hk, Bool.false_eq_true, hd, hq, hm, ha, stepCall, set_mid']
  rw [shift P (some x :: R) none pr]
  simp only [peekDown_mid, Option.map_some, hx', if_true]
  simp

/-- an exhausted replacement-list stream is spliced into the stream below it, the read position ends up behind it -/
theorem mstep_pop (c : Cfg) (tbl : Table) (hadv : c.adv = true) (P1 Pb : List (Option Tok)) (as : List Tok) (S : List Helper)
    (x : Option String) (D : NoExp) (F : List Frame) (pr : Bool) :
    step c tbl ⟨⟨P1, P1.length, false⟩ :: ⟨Pb ++ as.map some, Pb.length, pr⟩ :: S, x :: D, F, none⟩
      = .cont ⟨⟨((filterSome Pb ++ filterSome P1).map some) ++ as.map some, ((filterSome Pb ++ filterSome P1).map some).length, pr⟩ :: S,
          D, F, none⟩ := by
  have h1 : P1.length ≥ P1.length := Nat.le_refl _
  simp only [step, h1, if_true, Bool.false_eq_true, if_false, splice, hadv, List.tail_cons, List.take_left', List.drop_left',
    filterSome_map, List.map_append, List.length_append, List.length_map, List.append_assoc]

/-- an exhausted argument stream ends the nested `expand`: its tokens are the returned value -/
theorem mstep_eop (c : Cfg) (tbl : Table) (P1 : List (Option Tok)) (b : Helper) (S : List Helper)
    (x : Option String) (D : NoExp) (F : List Frame) :
    step c tbl ⟨⟨P1, P1.length, true⟩ :: b :: S, x :: D, F, none⟩ = .cont ⟨b :: S, D, F, some (filterSome P1)⟩ := by
  have h1 : P1.length ≥ P1.length := Nat.le_refl _
  simp only [step, h1, if_true, eopState, List.tail_cons]

/-- the suspended loop takes the value the nested `expand` returned -/
theorem mstep_ret (c : Cfg) (tbl : Table) (st : List Helper) (D : NoExp) (f : Frame) (fs : List Frame) (res : List Tok) :
    step c tbl ⟨st, D, f :: fs, some res⟩
      = processArgs c f.pw f.m f.todo (f.done ++ [⟨f.cur, some res⟩]) ⟨st, D, fs, none⟩ := by
  simp only [step]

/-- the last two iterations at top level -/
theorem run_final' (c : Cfg) (tbl : Table) (P' : List (Option Tok)) (n : Nat) :
    run c tbl (n + 2) ⟨[⟨P', P'.length, false⟩], [none], [], none⟩ = .ok (filterSome P') := by
  have h1 : step c tbl ⟨[⟨P', P'.length, false⟩], [none], [], none⟩ = .cont ⟨[], [], [], some (filterSome P')⟩ := by
    have : P'.length ≥ P'.length := Nat.le_refl _
    simp only [step, this, if_true, eopState, List.tail_cons]
  have h2 : step c tbl ⟨[], [], [], some (filterSome P')⟩ = .done (filterSome P') := by simp [step]
  have e : n + 2 = (n + 1) + 1 := by omega
  rw [e]
  simp only [run, h1, h2]

/-! ## `MacroFunction.replace` without `#` / `##` / variadic folding is plain substitution -/
theorem paramIdx_lt (ps : List String) (tok : Tok) (i : Nat) (h : paramIdx ps tok = some i) : i < ps.length := by
  unfold paramIdx at h
  split at h
  · unfold List.idxOf? at h
    exact (List.findIdx?_eq_some_iff_getElem.mp h).1
  · cases h

theorem substArgs_plain (ps : List String) (ia : List Arg) (eargs : List (List Tok)) : ∀ (repl : List Tok),
    (∀ tok ∈ repl, ∀ i, paramIdx ps tok = some i → ∃ a, ia[i]? = some a ∧ a.exp = some (eargs.getD i [])) →
    substArgs ps ia (repl.map (·, false)) = .ok (substRef ps eargs repl) := by
  intro repl
  induction repl with
  | nil => intro _; simp [substArgs, substRef]
  | cons tok r ih =>
    intro h
    have ihr := ih (fun t ht => h t (by simp [ht]))
    simp only [List.map_cons, substArgs, substRef, Bool.false_eq_true, if_false]
    cases hp : paramIdx ps tok with
    | none => simp only [ihr]
    | some i =>
      obtain ⟨a, hia, hexp⟩ := h tok (by simp) i hp
      simp only [hia, hexp, ihr]

theorem replaceFn_plain (m : Macro) (ps : List String) (ha : m.args = some ps) (hv : m.variadic = false) (hs : m.hasStrcat = false)
    (ia : List Arg) (eargs : List (List Tok))
    (h : ∀ tok ∈ m.replacement, ∀ i, paramIdx ps tok = some i → ∃ a, ia[i]? = some a ∧ a.exp = some (eargs.getD i [])) :
    replaceFn m ia = .ok (substRef ps eargs m.replacement) := by
  simp only [replaceFn, ha, hv, hs, Option.getD_some, Bool.false_eq_true, if_false]
  rw [substArgs_plain ps ia eargs m.replacement h]

/-- the argument list `process_args` builds: an argument is pre-expanded (by `ex`) iff the macro marks it -/
def argList (m : Macro) (ex : List Tok → List Tok) : List (List Tok) → Nat → List Arg
  | [], _ => []
  | a :: r, i => (if needs m i then ⟨a, some (ex a)⟩ else ⟨a, none⟩) :: argList m ex r (i + 1)

theorem argList_get (m : Macro) (ex : List Tok → List Tok) : ∀ (todo : List (List Tok)) (i0 i : Nat), i < todo.length →
    needs m (i0 + i) = true → ∃ a, (argList m ex todo i0)[i]? = some a ∧ a.exp = some ((todo.map ex).getD i []) := by
  intro todo
  induction todo with
  | nil => intro i0 i hi; simp at hi
  | cons x r ih =>
    intro i0 i hi hn
    cases i with
    | zero =>
      simp only [Nat.add_zero] at hn
      simp [argList, hn]
    | succ j =>
      have hn' : needs m (i0 + 1 + j) = true := by
        have e : i0 + 1 + j = i0 + (j + 1) := by omega
        rw [e]; exact hn
      obtain ⟨a, h1, h2⟩ := ih (i0 + 1) j (by simp at hi; omega) hn'
      exact ⟨a, by simpa [argList] using h1, by simpa using h2⟩

end CbiVerif.MX
