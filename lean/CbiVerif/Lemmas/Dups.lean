import CbiVerif.Spec.Dups
/-! Helper lemmas for C16 (generic part: `dedupBy`, `pop`, `confirm`, `findDups`). -/
namespace CbiVerif.Dups

section Generic
set_option linter.unusedSectionVars false
variable {F K C H : Type} [DecidableEq K] [DecidableEq C] [DecidableEq H]

theorem pairwise_mem {R : F → F → Prop} {l : List F} (h : l.Pairwise R) {a b : F}
    (ha : a ∈ l) (hb : b ∈ l) : a = b ∨ R a b ∨ R b a := by
  induction l with
  | nil => cases ha
  | cons x xs ih =>
    rw [List.pairwise_cons] at h
    rcases List.mem_cons.mp ha with ha' | ha'
    · rcases List.mem_cons.mp hb with hb' | hb'
      · exact Or.inl (ha'.trans hb'.symm)
      · exact Or.inr (Or.inl (ha' ▸ h.1 b hb'))
    · rcases List.mem_cons.mp hb with hb' | hb'
      · exact Or.inr (Or.inr (hb' ▸ h.1 a ha'))
      · exact ih h.2 ha' hb'

/-! ### dedupBy -/

theorem mem_dedupBy {key : F → K} {seen : List K} {l : List F} {g : F}
    (h : g ∈ dedupBy key seen l) : g ∈ l ∧ key g ∉ seen := by
  induction l generalizing seen with
  | nil => simp [dedupBy] at h
  | cons f fs ih =>
    simp only [dedupBy] at h
    split at h
    · have := ih h
      exact ⟨List.mem_cons_of_mem _ this.1, this.2⟩
    · rename_i hns
      rcases List.mem_cons.mp h with h' | h'
      · subst h'
        exact ⟨List.mem_cons_self, hns⟩
      · have := ih h'
        exact ⟨List.mem_cons_of_mem _ this.1, fun hc => this.2 (List.mem_cons_of_mem _ hc)⟩

theorem dedupBy_pairwise {key : F → K} {seen : List K} {l : List F} :
    (dedupBy key seen l).Pairwise (fun a b => key a ≠ key b) := by
  induction l generalizing seen with
  | nil => simp [dedupBy]
  | cons f fs ih =>
    simp only [dedupBy]
    split
    · exact ih
    · rw [List.pairwise_cons]
      refine ⟨?_, ih⟩
      intro b hb heq
      have := (mem_dedupBy hb).2
      exact this (by rw [← heq]; exact List.mem_cons_self)

theorem mem_dedupBy_of_functional {key : F → K} {seen : List K} {l : List F}
    (hf : ∀ a ∈ l, ∀ b ∈ l, key a = key b → a = b) {g : F} (hg : g ∈ l) (hk : key g ∉ seen) :
    g ∈ dedupBy key seen l := by
  induction l generalizing seen with
  | nil => cases hg
  | cons f fs ih =>
    have hf' : ∀ a ∈ fs, ∀ b ∈ fs, key a = key b → a = b :=
      fun a ha b hb => hf a (List.mem_cons_of_mem _ ha) b (List.mem_cons_of_mem _ hb)
    simp only [dedupBy]
    rcases List.mem_cons.mp hg with hg' | hg'
    · subst hg'
      rw [if_neg hk]
      exact List.mem_cons_self
    · split
      · exact ih hf' hg' hk
      · apply Classical.byCases (p := g = f)
        · intro hgf
          subst hgf
          exact List.mem_cons_self
        · intro hgf
          apply List.mem_cons_of_mem
          apply ih hf' hg'
          intro hc
          rcases List.mem_cons.mp hc with h1 | h1
          · exact hgf (hf g hg f List.mem_cons_self h1)
          · exact hk h1

/-- every key of the input that was not seen before survives -/
theorem key_mem_dedupBy {key : F → K} {seen : List K} {l : List F} {g : F}
    (hg : g ∈ l) (hk : key g ∉ seen) : ∃ g' ∈ dedupBy key seen l, key g' = key g := by
  induction l generalizing seen with
  | nil => cases hg
  | cons f fs ih =>
    simp only [dedupBy]
    rcases List.mem_cons.mp hg with hg' | hg'
    · subst hg'
      rw [if_neg hk]
      exact ⟨g, List.mem_cons_self, rfl⟩
    · split
      · exact ih hg' hk
      · apply Classical.byCases (p := key g = key f)
        · intro hgf
          exact ⟨f, List.mem_cons_self, hgf.symm⟩
        · intro hgf
          have hk' : key g ∉ key f :: seen := by
            intro hc
            rcases List.mem_cons.mp hc with h1 | h1
            · exact hgf h1
            · exact hk h1
          obtain ⟨g', hg'', he⟩ := ih hg' hk'
          exact ⟨g', List.mem_cons_of_mem _ hg'', he⟩

/-! ### pop -/

theorem pop_perm {choose : List F → Nat} {l : List F} {x : F} {rest : List F}
    (h : pop choose l = some (x, rest)) : l.Perm (x :: rest) := by
  unfold pop at h
  split at h
  · cases h
  · rename_i y tl hd
    have hp := @List.perm_middle _ y (l.take (choose l % l.length)) tl
    rw [← hd, List.take_append_drop] at hp
    simp only [Option.some.injEq, Prod.mk.injEq] at h
    rw [← h.1, ← h.2]
    exact hp

theorem pop_isSome {choose : List F → Nat} {l : List F} (h : l ≠ []) :
    ∃ x rest, pop choose l = some (x, rest) := by
  unfold pop
  split
  · rename_i hd
    have hlen : 0 < l.length := List.length_pos_iff.mpr h
    have := List.drop_eq_nil_iff.mp hd
    have := Nat.mod_lt (choose l) hlen
    omega
  · exact ⟨_, _, rfl⟩

/-! ### confirm -/

theorem confirm_unfold (content : F → C) (choose : List F → Nat) (n : Nat) (l : List F) :
    (l.length ≤ 1 ∧ confirm content choose (n+1) l = []) ∨
    ∃ first rest, l.Perm (first :: rest) ∧
      ((1 < (first :: rest.filter (fun p => content p == content first)).length ∧
        confirm content choose (n+1) l =
          (first :: rest.filter (fun p => content p == content first)) ::
            confirm content choose n (rest.filter (fun p => !(content p == content first))))
      ∨ (¬ 1 < (first :: rest.filter (fun p => content p == content first)).length ∧
        confirm content choose (n+1) l =
          confirm content choose n (rest.filter (fun p => !(content p == content first))))) := by
  by_cases hl : l.length ≤ 1
  · exact Or.inl ⟨hl, by simp [confirm, hl]⟩
  · right
    have hne : l ≠ [] := by
      intro h
      rw [h] at hl
      simp at hl
    obtain ⟨x, rest, hp⟩ := pop_isSome (choose := choose) hne
    refine ⟨x, rest, pop_perm hp, ?_⟩
    by_cases hm : 1 < (x :: rest.filter (fun p => content p == content x)).length
    · left
      refine ⟨hm, ?_⟩
      simp only [confirm, hl, if_false, hp]
      rw [if_pos hm]
    · right
      refine ⟨hm, ?_⟩
      simp only [confirm, hl, if_false, hp]
      rw [if_neg hm]

theorem confirm_sub (content : F → C) (choose : List F → Nat) (n : Nat) (l : List F) :
    ∀ g ∈ confirm content choose n l, ∀ a ∈ g, a ∈ l := by
  induction n generalizing l with
  | zero => simp [confirm]
  | succ n ih =>
    intro g hg a ha
    rcases confirm_unfold content choose n l with ⟨_, h0⟩ | ⟨first, rest, hp, h⟩
    · rw [h0] at hg
      cases hg
    · have hrest : ∀ x, x ∈ rest → x ∈ l := fun x hx => hp.mem_iff.mpr (List.mem_cons_of_mem _ hx)
      have htail : g ∈ confirm content choose n (rest.filter (fun p => !(content p == content first))) → a ∈ l :=
        fun hg' => hrest a (List.mem_filter.mp (ih _ g hg' a ha)).1
      rcases h with ⟨_, he⟩ | ⟨_, he⟩
      · rw [he] at hg
        rcases List.mem_cons.mp hg with hg' | hg'
        · subst hg'
          rcases List.mem_cons.mp ha with ha' | ha'
          · exact hp.mem_iff.mpr (ha' ▸ List.mem_cons_self)
          · exact hrest a (List.mem_filter.mp ha').1
        · exact htail hg'
      · rw [he] at hg
        exact htail hg

theorem confirm_size (content : F → C) (choose : List F → Nat) (n : Nat) (l : List F) :
    ∀ g ∈ confirm content choose n l, 2 ≤ g.length := by
  induction n generalizing l with
  | zero => simp [confirm]
  | succ n ih =>
    intro g hg
    rcases confirm_unfold content choose n l with ⟨_, h0⟩ | ⟨first, rest, hp, h⟩
    · rw [h0] at hg
      cases hg
    · rcases h with ⟨hm, he⟩ | ⟨_, he⟩
      · rw [he] at hg
        rcases List.mem_cons.mp hg with hg' | hg'
        · subst hg'
          exact hm
        · exact ih _ g hg'
      · rw [he] at hg
        exact ih _ g hg

theorem confirm_same (content : F → C) (choose : List F → Nat) (n : Nat) (l : List F) :
    ∀ g ∈ confirm content choose n l, ∀ a ∈ g, ∀ b ∈ g, content a = content b := by
  induction n generalizing l with
  | zero => simp [confirm]
  | succ n ih =>
    intro g hg
    rcases confirm_unfold content choose n l with ⟨_, h0⟩ | ⟨first, rest, hp, h⟩
    · rw [h0] at hg
      cases hg
    · rcases h with ⟨_, he⟩ | ⟨_, he⟩
      · rw [he] at hg
        rcases List.mem_cons.mp hg with hg' | hg'
        · subst hg'
          have h1 : ∀ x ∈ first :: rest.filter (fun p => content p == content first),
              content x = content first := by
            intro x hx
            rcases List.mem_cons.mp hx with hx' | hx'
            · rw [hx']
            · simpa using (List.mem_filter.mp hx').2
          intro a ha b hb
          rw [h1 a ha, h1 b hb]
        · exact ih _ g hg'
      · rw [he] at hg
        exact ih _ g hg

/-- the groups of one bucket have pairwise different contents -/
theorem confirm_differ (content : F → C) (choose : List F → Nat) (n : Nat) (l : List F) :
    (confirm content choose n l).Pairwise
      (fun g₁ g₂ => ∀ a ∈ g₁, ∀ b ∈ g₂, content a ≠ content b) := by
  induction n generalizing l with
  | zero => simp [confirm]
  | succ n ih =>
    rcases confirm_unfold content choose n l with ⟨_, h0⟩ | ⟨first, rest, hp, h⟩
    · rw [h0]
      exact List.Pairwise.nil
    · rcases h with ⟨_, he⟩ | ⟨_, he⟩
      · rw [he, List.pairwise_cons]
        refine ⟨?_, ih _⟩
        intro g₂ hg₂ a ha b hb
        have hb' := confirm_sub content choose n _ g₂ hg₂ b hb
        have hbne : content b ≠ content first := by simpa using (List.mem_filter.mp hb').2
        have haeq : content a = content first := by
          rcases List.mem_cons.mp ha with ha' | ha'
          · rw [ha']
          · simpa using (List.mem_filter.mp ha').2
        rw [haeq]
        exact fun hc => hbne hc.symm
      · rw [he]
        exact ih _

/-- the report of one bucket repeats no file: whatever symmetric relation holds pairwise in the bucket
    holds pairwise in the concatenation of its groups -/
theorem confirm_flatten_pairwise {R : F → F → Prop} (hsym : ∀ {x y}, R x y → R y x)
    (content : F → C) (choose : List F → Nat) (n : Nat) (l : List F) (hl : l.Pairwise R) :
    (confirm content choose n l).flatten.Pairwise R := by
  induction n generalizing l with
  | zero => simp [confirm]
  | succ n ih =>
    rcases confirm_unfold content choose n l with ⟨_, h0⟩ | ⟨first, rest, hp, h⟩
    · rw [h0]
      exact List.Pairwise.nil
    · have hl' : (first :: rest).Pairwise R := (hp.pairwise_iff hsym).mp hl
      rw [List.pairwise_cons] at hl'
      have hr : (rest.filter (fun p => !(content p == content first))).Pairwise R :=
        hl'.2.sublist List.filter_sublist
      rcases h with ⟨_, he⟩ | ⟨_, he⟩
      · rw [he, List.flatten_cons, List.pairwise_append]
        refine ⟨?_, ih _ hr, ?_⟩
        · rw [List.pairwise_cons]
          exact ⟨fun x hx => hl'.1 x (List.mem_filter.mp hx).1, hl'.2.sublist List.filter_sublist⟩
        · intro a ha b hb
          obtain ⟨g, hg, hbg⟩ := List.mem_flatten.mp hb
          have hb' := confirm_sub content choose n _ g hg b hbg
          have hbr := (List.mem_filter.mp hb').1
          have hbne : content b ≠ content first := by simpa using (List.mem_filter.mp hb').2
          rcases List.mem_cons.mp ha with ha' | ha'
          · rw [ha']
            exact hl'.1 b hbr
          · have har := (List.mem_filter.mp ha').1
            have haeq : content a = content first := by simpa using (List.mem_filter.mp ha').2
            rcases pairwise_mem hl'.2 har hbr with h1 | h1 | h1
            · exact absurd (h1 ▸ haeq) hbne
            · exact h1
            · exact hsym h1
      · rw [he]
        exact ih _ hr

/-- completeness: two different files with equal content end up together in some group -/
theorem confirm_complete (content : F → C) (choose : List F → Nat) (n : Nat) (l : List F)
    (hn : l.length ≤ n) (a b : F) (ha : a ∈ l) (hb : b ∈ l) (hab : a ≠ b)
    (hc : content a = content b) :
    ∃ g ∈ confirm content choose n l, a ∈ g ∧ b ∈ g := by
  induction n generalizing l with
  | zero =>
    have : l = [] := List.length_eq_zero_iff.mp (Nat.le_zero.mp hn)
    rw [this] at ha
    cases ha
  | succ n ih =>
    rcases confirm_unfold content choose n l with ⟨hl1, _⟩ | ⟨first, rest, hp, h⟩
    · -- at most one file: a = b
      exfalso
      match l, hl1, ha, hb with
      | [], _, ha, _ => cases ha
      | [x], _, ha, hb =>
        simp at ha hb
        exact hab (ha.trans hb.symm)
      | _ :: _ :: _, hl1, _, _ => simp at hl1
    · have ha' : a ∈ first :: rest := hp.mem_iff.mp ha
      have hb' : b ∈ first :: rest := hp.mem_iff.mp hb
      by_cases hfa : content a = content first
      · have hfb : content b = content first := hc ▸ hfa
        have hmem : ∀ x, x ∈ first :: rest → content x = content first →
            x ∈ first :: rest.filter (fun p => content p == content first) := by
          intro x hx hcx
          rcases List.mem_cons.mp hx with hx' | hx'
          · rw [hx']
            exact List.mem_cons_self
          · exact List.mem_cons_of_mem _ (List.mem_filter.mpr ⟨hx', by simpa using hcx⟩)
        have hma := hmem a ha' hfa
        have hmb := hmem b hb' hfb
        have hlen : 1 < (first :: rest.filter (fun p => content p == content first)).length := by
          apply Classical.byContradiction
          intro hcon
          have hnil : rest.filter (fun p => content p == content first) = [] := by
            apply List.length_eq_zero_iff.mp
            simp only [List.length_cons] at hcon
            omega
          rw [hnil] at hma hmb
          simp at hma hmb
          exact hab (hma.trans hmb.symm)
        rcases h with ⟨_, he⟩ | ⟨hm, _⟩
        · rw [he]
          exact ⟨_, List.mem_cons_self, hma, hmb⟩
        · exact absurd hlen hm
      · have hfb : content b ≠ content first := fun h => hfa (hc.trans h)
        have hne : ∀ x, x ∈ first :: rest → content x ≠ content first →
            x ∈ rest.filter (fun p => !(content p == content first)) := by
          intro x hx hcx
          rcases List.mem_cons.mp hx with hx' | hx'
          · exact absurd (by rw [hx']) hcx
          · exact List.mem_filter.mpr ⟨hx', by simpa using hcx⟩
        have hlen' : (rest.filter (fun p => !(content p == content first))).length ≤ n := by
          have h1 := List.length_filter_le (fun p => !(content p == content first)) rest
          have h2 := hp.length_eq
          simp only [List.length_cons] at h2
          omega
        obtain ⟨g, hg, hag, hbg⟩ := ih _ hlen' (hne a ha' hfa) (hne b hb' hfb)
        rcases h with ⟨_, he⟩ | ⟨_, he⟩
        · rw [he]
          exact ⟨g, List.mem_cons_of_mem _ hg, hag, hbg⟩
        · rw [he]
          exact ⟨g, hg, hag, hbg⟩

/-- the fuel is not a restriction: any fuel of at least the bucket size gives the same result
    (the loop ends by itself because `remaining` shrinks in every iteration) -/
theorem confirm_fuel (content : F → C) (choose : List F → Nat) (n m : Nat) (l : List F)
    (hn : l.length ≤ n) (hm : l.length ≤ m) :
    confirm content choose n l = confirm content choose m l := by
  induction n generalizing m l with
  | zero =>
    have : l = [] := List.length_eq_zero_iff.mp (Nat.le_zero.mp hn)
    subst this
    cases m <;> simp [confirm]
  | succ n ih =>
    cases m with
    | zero =>
      have : l = [] := List.length_eq_zero_iff.mp (Nat.le_zero.mp hm)
      subst this
      simp [confirm]
    | succ m =>
      by_cases hl : l.length ≤ 1
      · simp [confirm, hl]
      · have hne : l ≠ [] := by
          intro h
          rw [h] at hl
          simp at hl
        obtain ⟨x, rest, hp⟩ := pop_isSome (choose := choose) hne
        have hlen := (pop_perm hp).length_eq
        simp only [List.length_cons] at hlen
        have h1 := List.length_filter_le (fun p => !(content p == content x)) rest
        have e := ih m (rest.filter (fun p => !(content p == content x))) (by omega) (by omega)
        simp only [confirm, hl, if_false, hp, e]


/-! ### findDups -/

theorem mem_digests {content : F → C} {hash : C → H} {files : List F} {h : H} :
    h ∈ digests content hash files ↔ ∃ f ∈ files, hash (content f) = h := by
  constructor
  · intro hh
    have := (mem_dedupBy hh).1
    obtain ⟨f, hf, he⟩ := List.mem_map.mp this
    exact ⟨f, hf, he⟩
  · rintro ⟨f, hf, he⟩
    have hm : h ∈ files.map (fun f => hash (content f)) := List.mem_map.mpr ⟨f, hf, he⟩
    obtain ⟨g', hg', hk⟩ := key_mem_dedupBy (key := id) (seen := []) hm (by simp)
    simp only [id] at hk
    rw [← hk]
    exact hg'

theorem digests_nodup {content : F → C} {hash : C → H} {files : List F} :
    (digests content hash files).Pairwise (· ≠ ·) :=
  dedupBy_pairwise (key := id)

/-- a group of the report comes out of the confirmation loop of the bucket of some digest -/
theorem mem_findDups {content : F → C} {hash : C → H} {choose : List F → Nat} {files : List F}
    {g : List F} (hg : g ∈ findDups content hash choose files) :
    ∃ h, g ∈ confirm content choose (files.filter (fun f => hash (content f) == h)).length
        (files.filter (fun f => hash (content f) == h)) := by
  simp only [findDups, List.mem_flatMap] at hg
  obtain ⟨h, _, hg⟩ := hg
  split at hg
  · exact ⟨h, hg⟩
  · cases hg

theorem findDups_sub {content : F → C} {hash : C → H} {choose : List F → Nat} {files : List F}
    {g : List F} (hg : g ∈ findDups content hash choose files) {a : F} (ha : a ∈ g) : a ∈ files := by
  obtain ⟨h, hg'⟩ := mem_findDups hg
  exact (List.mem_filter.mp (confirm_sub content choose _ _ g hg' a ha)).1

theorem findDups_size {content : F → C} {hash : C → H} {choose : List F → Nat} {files : List F}
    {g : List F} (hg : g ∈ findDups content hash choose files) : 2 ≤ g.length := by
  obtain ⟨h, hg'⟩ := mem_findDups hg
  exact confirm_size content choose _ _ g hg'

theorem findDups_same {content : F → C} {hash : C → H} {choose : List F → Nat} {files : List F}
    {g : List F} (hg : g ∈ findDups content hash choose files) :
    ∀ a ∈ g, ∀ b ∈ g, content a = content b := by
  obtain ⟨h, hg'⟩ := mem_findDups hg
  exact confirm_same content choose _ _ g hg'

theorem findDups_complete (content : F → C) (hash : C → H) (choose : List F → Nat) (files : List F)
    (a b : F) (ha : a ∈ files) (hb : b ∈ files) (hab : a ≠ b) (hc : content a = content b) :
    ∃ g ∈ findDups content hash choose files, a ∈ g ∧ b ∈ g := by
  have hmem : hash (content a) ∈ digests content hash files := mem_digests.mpr ⟨a, ha, rfl⟩
  have hA : a ∈ files.filter (fun f => hash (content f) == hash (content a)) :=
    List.mem_filter.mpr ⟨ha, by simp⟩
  have hB : b ∈ files.filter (fun f => hash (content f) == hash (content a)) :=
    List.mem_filter.mpr ⟨hb, by simp [hc]⟩
  have hlen : (files.filter (fun f => hash (content f) == hash (content a))).length > 1 := by
    apply Classical.byContradiction
    intro hcon
    match hl : files.filter (fun f => hash (content f) == hash (content a)) with
    | [] => rw [hl] at hA; cases hA
    | [x] =>
      rw [hl] at hA hB
      simp at hA hB
      exact hab (hA.trans hB.symm)
    | x :: y :: r => rw [hl] at hcon; simp at hcon
  obtain ⟨g, hg, hag, hbg⟩ := confirm_complete content choose _ _ (Nat.le_refl _) a b hA hB hab hc
  refine ⟨g, ?_, hag, hbg⟩
  simp only [findDups, List.mem_flatMap]
  exact ⟨hash (content a), hmem, by simp only [hlen, if_true]; exact hg⟩

/-- groups of the report have pairwise different contents -/
theorem findDups_differ (content : F → C) (hash : C → H) (choose : List F → Nat) (files : List F) :
    (findDups content hash choose files).Pairwise
      (fun g₁ g₂ => ∀ a ∈ g₁, ∀ b ∈ g₂, content a ≠ content b) := by
  unfold findDups
  rw [List.pairwise_flatMap]
  constructor
  · intro h _
    dsimp only
    split
    · exact confirm_differ content choose _ _
    · exact List.Pairwise.nil
  · refine List.Pairwise.imp ?_ (digests_nodup (content := content) (hash := hash) (files := files))
    intro h₁ h₂ hne g₁ hg₁ g₂ hg₂ a ha b hb hc
    dsimp only at hg₁ hg₂
    split at hg₁
    · split at hg₂
      · have h1 := (List.mem_filter.mp (confirm_sub content choose _ _ g₁ hg₁ a ha)).2
        have h2 := (List.mem_filter.mp (confirm_sub content choose _ _ g₂ hg₂ b hb)).2
        simp at h1 h2
        exact hne (by rw [← h1, ← h2, hc])
      · cases hg₂
    · cases hg₁

/-- the report repeats no file: any symmetric relation holding pairwise among the files holds pairwise
    in the concatenation of all groups -/
theorem findDups_flatten_pairwise {R : F → F → Prop} (hsym : ∀ {x y}, R x y → R y x)
    (content : F → C) (hash : C → H) (choose : List F → Nat) (files : List F)
    (hl : files.Pairwise R) : (findDups content hash choose files).flatten.Pairwise R := by
  unfold findDups
  have hk := digests_nodup (content := content) (hash := hash) (files := files)
  generalize digests content hash files = ks at hk
  induction ks with
  | nil => simp
  | cons h ks ih =>
    rw [List.pairwise_cons] at hk
    rw [List.flatMap_cons, List.flatten_append, List.pairwise_append]
    refine ⟨?_, ih hk.2, ?_⟩
    · dsimp only
      split
      · exact confirm_flatten_pairwise hsym content choose _ _ (hl.sublist List.filter_sublist)
      · simp
    · intro a ha b hb
      -- `a` has digest `h`, `b` has a digest in `ks`
      obtain ⟨g₁, hg₁, hag⟩ := List.mem_flatten.mp ha
      dsimp only at hg₁
      obtain ⟨g₂, hg₂, hbg⟩ := List.mem_flatten.mp hb
      obtain ⟨h', hh', hg₂⟩ := List.mem_flatMap.mp hg₂
      dsimp only at hg₂
      split at hg₁
      · split at hg₂
        · have h1 := List.mem_filter.mp (confirm_sub content choose _ _ g₁ hg₁ a hag)
          have h2 := List.mem_filter.mp (confirm_sub content choose _ _ g₂ hg₂ b hbg)
          have e1 : hash (content a) = h := by simpa using h1.2
          have e2 : hash (content b) = h' := by simpa using h2.2
          rcases pairwise_mem hl h1.1 h2.1 with h3 | h3 | h3
          · exfalso
            apply hk.1 h' hh'
            rw [← e1, ← e2, h3]
          · exact h3
          · exact hsym h3
        · cases hg₂
      · cases hg₁

end Generic
/-! ### file level -/
section Files
variable {C : Type}

theorem eligible_iff_regular {a : File C} : a.eligible = true ↔ Regular a := by
  unfold File.eligible Regular
  cases a.isMember <;> cases a.isSymlink <;> simp

theorem mem_candidates {files : List (File C)} {a : File C} (h : a ∈ candidates files) :
    a ∈ files ∧ Regular a := by
  have h1 := (mem_dedupBy h).1
  have h2 := List.mem_filter.mp h1
  exact ⟨h2.1, eligible_iff_regular.mp h2.2⟩

theorem candidates_pairwise (files : List (File C)) :
    (candidates files).Pairwise (fun a b => a.path ≠ b.path) :=
  dedupBy_pairwise

theorem mem_candidates_of_functional {files : List (File C)} (hf : Functional files) {a : File C}
    (ha : a ∈ files) (hr : Regular a) : a ∈ candidates files := by
  apply mem_dedupBy_of_functional
  · intro x hx y hy hxy
    exact hf x (List.mem_filter.mp hx).1 y (List.mem_filter.mp hy).1 hxy
  · exact List.mem_filter.mpr ⟨ha, eligible_iff_regular.mpr hr⟩
  · simp

theorem flatten_pairwise_of_no_repeat {R : List (List (File C))}
    (h : (R.flatten.map File.path).Nodup) : R.flatten.Pairwise (fun a b => a.path ≠ b.path) :=
  List.pairwise_map.mp h

theorem no_repeat_of_flatten_pairwise {R : List (List (File C))}
    (h : R.flatten.Pairwise (fun a b => a.path ≠ b.path)) : (R.flatten.map File.path).Nodup :=
  List.pairwise_map.mpr h

/-- inside one group all paths are different -/
theorem group_paths_of_no_repeat {R : List (List (File C))} (h : (R.flatten.map File.path).Nodup)
    {g : List (File C)} (hg : g ∈ R) : g.Pairwise (fun a b => a.path ≠ b.path) :=
  (List.pairwise_flatten.mp (flatten_pairwise_of_no_repeat h)).1 g hg

/-- different groups share no path -/
theorem groups_disjoint_of_no_repeat {R : List (List (File C))} (h : (R.flatten.map File.path).Nodup) :
    R.Pairwise (fun g₁ g₂ => ∀ a ∈ g₁, ∀ b ∈ g₂, a.path ≠ b.path) :=
  (List.pairwise_flatten.mp (flatten_pairwise_of_no_repeat h)).2

/-- a file is in at most one group -/
theorem same_group_of_no_repeat {R : List (List (File C))} (h : (R.flatten.map File.path).Nodup)
    {g₁ g₂ : List (File C)} (h₁ : g₁ ∈ R) (h₂ : g₂ ∈ R) {a : File C} (ha₁ : a ∈ g₁) (ha₂ : a ∈ g₂) :
    g₁ = g₂ := by
  rcases pairwise_mem (groups_disjoint_of_no_repeat h) h₁ h₂ with h3 | h3 | h3
  · exact h3
  · exact absurd rfl (h3 a ha₁ a ha₂)
  · exact absurd rfl (h3 a ha₂ a ha₁)

theorem nodup_of_paths {g : List (File C)} (h : g.Pairwise (fun a b => a.path ≠ b.path)) : g.Nodup :=
  List.Pairwise.imp (R := fun a b => a.path ≠ b.path) (S := fun a b => a ≠ b)
    (fun {a b} (hne : a.path ≠ b.path) (he : a = b) => hne (congrArg File.path he)) h

/-- a group of two or more distinct paths contains, next to any file, a file with another path -/
theorem exists_other {g : List (File C)} (hlen : 2 ≤ g.length)
    (hp : g.Pairwise (fun a b => a.path ≠ b.path)) (a : File C) : ∃ b ∈ g, b.path ≠ a.path := by
  match g, hlen, hp with
  | x :: y :: rest, _, hp =>
    rw [List.pairwise_cons] at hp
    have hxy : x.path ≠ y.path := hp.1 y List.mem_cons_self
    by_cases hax : x.path = a.path
    · exact ⟨y, List.mem_cons_of_mem _ List.mem_cons_self, fun h => hxy (hax.trans h.symm)⟩
    · exact ⟨x, List.mem_cons_self, hax⟩

end Files

end CbiVerif.Dups
