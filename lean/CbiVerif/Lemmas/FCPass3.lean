import CbiVerif.Lemmas.FCPass2
/-!
Text level: the run of the Fortran pass over the C pass output agrees with the reference on
physical line numbers; `splitLines` vs `textLines`.
-/
namespace CbiVerif.Fortran
open Tbl
set_option linter.unusedSimpArgs false

theorem numberedFrom_cons (n : Nat) (b : Bool) (bs : List Bool) :
    numberedFrom n (b :: bs) = (if b then [n + 1] else []) ++ numberedFrom (n + 1) bs := rfl

/-- **main run lemma**: physical lines `n+1 …` scanned by the reference from mode `m`, and the
Fortran pass over what the C pass makes of them, started in a related cleaner state -/
theorem run_eq_ref (ls : List (List Char)) : ∀ (n : Nat) (s : FSt) (m : RF) (r : List (Bool × Bool)),
    RlF s m → isLineStart m = true → (∀ l ∈ ls, LineOK l) → refLines m ls = some r →
    ∃ bs, agree bs r ∧
      select (flagsFrom s ((cpass n ls).map (·.text))) (cpass n ls) = numberedFrom n bs ∧
      RlF (finalState s ((cpass n ls).map (·.text))) .code := by
  induction ls with
  | nil =>
    intro n s m r hR _ _ h
    simp only [refLines] at h
    split at h
    · rename_i hm
      simp only [Option.some.injEq] at h; subst h
      simp only [beq_iff_eq] at hm; subst hm
      exact ⟨[], trivial, rfl, hR⟩
    · cases h
  | cons l ls ih =>
    intro n s m r hR hm hok h
    have hl : LineOK l := hok l (by simp)
    have hok' : ∀ l' ∈ ls, LineOK l' := fun l' h' => hok l' (by simp [h'])
    simp only [refLines] at h
    simp only [cpass]
    by_cases hd : isDirectiveLine l = true
    · -- directive line
      simp only [hd, if_true] at h
      split at h
      · rename_i hmc
        simp only [beq_iff_eq] at hmc; subst hmc
        cases hr : refLines .code ls with
        | none => simp [hr] at h
        | some r' =>
          simp only [hr, Option.map_some, Option.some.injEq] at h; subst h
          obtain ⟨ob, e1, e2⟩ := dLine_dir l hd hl
          have hnb : ob.blank = false := by
            unfold isDirText at e2
            simp only [beq_iff_eq] at e2
            simp [OSL.blank, e2]
          obtain ⟨bs, a1, a2, a3⟩ := ih (n + 1) s .code r' hR rfl hok' hr
          refine ⟨true :: bs, ⟨fun _ => rfl, a1⟩, ?_, ?_⟩
          · simp only [e1, hnb, Bool.false_eq_true, if_false, List.singleton_append, List.map_cons, flagsFrom, e2,
              if_true, select, numberedFrom_cons, a2]
          · simpa only [e1, hnb, Bool.false_eq_true, if_false, List.singleton_append, List.map_cons, finalState, e2,
              if_true] using a3
      · cases h
    · -- code / blank / comment line
      have hd' : isDirectiveLine l = false := by simpa using hd
      simp only [hd', Bool.false_eq_true, if_false] at h
      cases hrl : rline m l with
      | none => simp [hrl] at h
      | some rl =>
        simp only [hrl] at h
        cases hr : refLines rl.next ls with
        | none => simp [hr] at h
        | some r' =>
          simp only [hr, Option.map_some, Option.some.injEq] at h; subst h
          have e1 := dLine_code l hd' hl
          have hbl := code_blank_iff l {} onlySp_empty
          have hparts := collapse_eq l
          simp only [e1]
          cases hb : (({} : OSL).addAll (l.map emitChar)).blank with
          | true =>
            -- blank physical line: dropped by the C pass, not counted by the reference
            rw [hb] at hbl
            have hrl' := rline_blank m l rl hm hbl.symm hrl
            subst hrl'
            obtain ⟨bs, a1, a2, a3⟩ := ih (n + 1) s m r' hR hm hok' hr
            refine ⟨false :: bs, ⟨fun _ => rfl, a1⟩, ?_, ?_⟩
            · simpa only [if_true, List.nil_append, numberedFrom_cons, Bool.false_eq_true, if_false] using a2
            · simpa only [if_true, List.nil_append] using a3
          | false =>
            have hnd : isDirText (collapse l) = false := collapse_notdir l hd'
            have hrc := rline_collapse m l rl hrl
            obtain ⟨l1, l2⟩ := line_sim s m (collapse l) rl hR hrc
            obtain ⟨bs, a1, a2, a3⟩ := ih (n + 1) _ rl.next r' l1 (rline_lineStart m l rl hrl) hok' hr
            refine ⟨(!(procLine s (collapse l)).2.blank) :: bs, ⟨l2, a1⟩, ?_, ?_⟩
            · simp only [Bool.false_eq_true, if_false, List.singleton_append, List.map_cons, hparts, flagsFrom, hnd,
                select, numberedFrom_cons, a2]
            · simpa only [Bool.false_eq_true, if_false, List.singleton_append, List.map_cons, hparts, finalState, hnd]
                using a3

/-! ## `splitLines` and `textLines` -/

theorem splitLinesAux_fst (cs : List Char) : ∀ cur : List Char,
    (splitLinesAux cs cur).map (·.1) = textLinesAux cs cur := by
  induction cs with
  | nil => intro cur; simp only [splitLinesAux, textLinesAux]; split <;> simp
  | cons c cs ih =>
    intro cur
    by_cases hc : c = '\n'
    · subst hc; simp [splitLinesAux, textLinesAux, ih]
    · rw [splitLinesAux, textLinesAux]
      · exact ih _
      · intro h; exact hc h
      · intro h; exact hc h

theorem splitLines_fst (s : String) : (splitLines s).map (·.1) = textLines s := splitLinesAux_fst _ _

theorem lineOK_of_textOK (ls : List (List Char)) (h : textOK ls = true) : ∀ l ∈ ls, LineOK l := by
  intro l hl
  simp only [textOK, List.all_eq_true, Bool.and_eq_true, Bool.not_eq_true', Bool.or_eq_true] at h
  obtain ⟨⟨h1, _⟩, h3⟩ := h l hl
  refine ⟨fun c hc hh => ?_, fun hd => ?_⟩
  · subst hh
    have : l.contains '\\' = true := List.contains_iff_mem.mpr hc
    rw [h1] at this; cases this
  · rcases h3 with h3 | h3
    · rw [hd] at h3; cases h3
    · exact h3

end CbiVerif.Fortran
