import CbiVerif.Model.C06Fortran
import CbiVerif.Spec.FortranHash
/-!
C06, composed — the FULL guard of a free-form Fortran file: C17's guard (`C06L.fguard`: the reference scanner accepts the
text, no line of finding class F-C17-1) AND no line of finding class F-C17-2 (`Spec/FortranHash.lean`: a continuation line
whose `#` opens the text of its statement, which the code reads as a preprocessor directive).  Inside it the NODES of the file
are the groups of `Spec/FortranNodes.lean` (`C17.nodes_eq_ref`), not only their concatenation.

Core Lean only (the driver reports `hashLinesL` per file, op `c06text`).
-/
namespace CbiVerif.C06L
open CbiVerif.C06C

/-- C17's guard and no F-C17-2 line -/
def fguardN (t : List Char) : Bool := fguard t && (Fortran.hashHeadLines (String.ofList t)).isEmpty

/-- the F-C17-2 lines of the file (`[]` for a file that is not free-form Fortran) -/
def hashLinesL (f : SrcFile) : List Nat :=
  match langOf f.path with
  | .fortranFree => Fortran.hashHeadLines (String.ofList f.text)
  | _ => []

/-- the guard of the file's language under which the NODES are the specification's: C05's for a C-family file, C17's without
    F-C17-2 for a Fortran file -/
def guardN (f : SrcFile) : Bool := guardL f && (hashLinesL f).isEmpty

end CbiVerif.C06L
