import CbiVerif.Model.CodeBase
import Mathlib.Data.List.Nodup
/-! Helper lemmas for C09 / C15: the directories `CodeBase.__iter__` walks (`CB.walkRoots`, repair of
F-C09-NEST = F-C15-ROOTS): no repetition, no nesting, every listed directory covered, independent of the
order of the list, identity on lists without overlap. -/
namespace CbiVerif.CB
open CbiVerif.Path CbiVerif.FS

theorem mem_firstOcc : ∀ (l : List Comps) (x : Comps), x ∈ firstOcc l ↔ x ∈ l
  | [], x => by simp [firstOcc]
  | d :: ds, x => by
    simp only [firstOcc, List.mem_cons, List.mem_filter, mem_firstOcc ds x]
    by_cases h : x = d
    · simp [h]
    · simp [h]

theorem firstOcc_nodup : ∀ (l : List Comps), (firstOcc l).Nodup
  | [] => by simp [firstOcc]
  | d :: ds => by
    simp only [firstOcc, List.nodup_cons]
    refine ⟨?_, List.Nodup.filter _ (firstOcc_nodup ds)⟩
    intro h
    have := (List.mem_filter.mp h).2
    simp at this

theorem firstOcc_of_nodup : ∀ (l : List Comps), l.Nodup → firstOcc l = l
  | [], _ => rfl
  | d :: ds, h => by
    obtain ⟨hd, hds⟩ := List.nodup_cons.mp h
    simp only [firstOcc, firstOcc_of_nodup ds hds]
    congr 1
    apply List.filter_eq_self.mpr
    intro x hx
    have : x ≠ d := by intro hE; subst hE; exact hd hx
    simpa using this

theorem insideAnother_iff (roots : List Comps) (d : Comps) :
    insideAnother roots d = true ↔ ∃ o ∈ roots, o ≠ d ∧ o <+: d := by
  unfold insideAnother isRelativeTo
  simp only [List.any_eq_true, Bool.and_eq_true, bne_iff_ne, ne_eq, List.isPrefixOf_iff_prefix]

theorem insideAnother_false_iff (roots : List Comps) (d : Comps) :
    insideAnother roots d = false ↔ ∀ o ∈ roots, o <+: d → o = d := by
  rw [← Bool.not_eq_true, insideAnother_iff]
  constructor
  · intro h o ho hp
    apply Classical.byContradiction
    intro hne
    exact h ⟨o, ho, hne, hp⟩
  · rintro h ⟨o, ho, hne, hp⟩
    exact hne (h o ho hp)

/-- a directory is walked iff it is listed and does not lie inside another listed directory -/
theorem mem_walkRoots (roots : List Comps) (w : Comps) :
    w ∈ walkRoots roots ↔ w ∈ roots ∧ insideAnother roots w = false := by
  unfold walkRoots
  rw [mem_firstOcc, List.mem_filter]
  simp

theorem walkRoots_subset (roots : List Comps) (w : Comps) (h : w ∈ walkRoots roots) : w ∈ roots :=
  ((mem_walkRoots roots w).mp h).1

/-- no directory is walked twice … -/
theorem walkRoots_nodup (roots : List Comps) : (walkRoots roots).Nodup := firstOcc_nodup _

/-- … and no walked directory lies inside (or equals) another walked one -/
theorem walkRoots_pairwise (roots : List Comps) :
    (walkRoots roots).Pairwise (fun a b => ¬ a <+: b ∧ ¬ b <+: a) := by
  apply List.Nodup.pairwise_of_forall_ne (walkRoots_nodup roots)
  intro a ha b hb hab
  obtain ⟨ha1, ha2⟩ := (mem_walkRoots roots a).mp ha
  obtain ⟨hb1, hb2⟩ := (mem_walkRoots roots b).mp hb
  constructor
  · intro hp
    exact hab ((insideAnother_false_iff roots b).mp hb2 a ha1 hp)
  · intro hp
    exact hab ((insideAnother_false_iff roots a).mp ha2 b hb1 hp).symm

/-- every listed directory equals a walked one or lies inside a walked one -/
theorem exists_walkRoot (roots : List Comps) :
    ∀ (k : Nat) (r : Comps), r ∈ roots → r.length ≤ k → ∃ w ∈ walkRoots roots, w <+: r := by
  intro k
  induction k with
  | zero =>
    intro r hr hk
    refine ⟨r, (mem_walkRoots roots r).mpr ⟨hr, ?_⟩, List.prefix_refl r⟩
    rw [insideAnother_false_iff]
    intro o _ hp
    have hr0 : r = [] := List.eq_nil_of_length_eq_zero (by omega)
    subst hr0
    exact List.prefix_nil.mp hp
  | succ k ih =>
    intro r hr hk
    cases hi : insideAnother roots r with
    | false => exact ⟨r, (mem_walkRoots roots r).mpr ⟨hr, hi⟩, List.prefix_refl r⟩
    | true =>
      obtain ⟨o, ho, hne, hp⟩ := (insideAnother_iff roots r).mp hi
      have hlt : o.length < r.length := by
        have hle := hp.length_le
        rcases Nat.lt_or_ge o.length r.length with h | h
        · exact h
        · exact absurd (hp.eq_of_length (by omega)) hne
      obtain ⟨w, hw, hwo⟩ := ih o ho (by omega)
      exact ⟨w, hw, hwo.trans hp⟩

theorem exists_walkRoot' (roots : List Comps) (r : Comps) (hr : r ∈ roots) : ∃ w ∈ walkRoots roots, w <+: r :=
  exists_walkRoot roots r.length r hr (Nat.le_refl _)

/-- on a list without overlap (what the enumeration assumed before the repair) every listed directory is walked, in order -/
theorem walkRoots_of_disjoint (roots : List Comps) (h : roots.Pairwise (fun a b => ¬ a <+: b ∧ ¬ b <+: a)) :
    walkRoots roots = roots := by
  have hnd : roots.Nodup := by
    refine List.Pairwise.imp ?_ h
    intro a b hab hE
    subst hE
    exact hab.1 (List.prefix_refl a)
  have hall : ∀ a ∈ roots, ∀ b ∈ roots, a ≠ b → (¬ a <+: b ∧ ¬ b <+: a) := by
    apply List.Pairwise.forall_of_forall_of_flip (R := fun (a b : Comps) => a ≠ b → (¬ a <+: b ∧ ¬ b <+: a))
    · exact fun _ _ hne => absurd rfl hne
    · exact List.Pairwise.imp (S := fun (a b : Comps) => a ≠ b → (¬ a <+: b ∧ ¬ b <+: a)) (fun hab _ => hab) h
    · exact List.Pairwise.imp (S := flip fun (a b : Comps) => a ≠ b → (¬ a <+: b ∧ ¬ b <+: a)) (fun hab _ => ⟨hab.2, hab.1⟩) h
  unfold walkRoots
  have hf : roots.filter (fun d => !insideAnother roots d) = roots := by
    apply List.filter_eq_self.mpr
    intro d hd
    have : insideAnother roots d = false := by
      rw [insideAnother_false_iff]
      intro o ho hp
      apply Classical.byContradiction
      intro hne
      exact (hall o ho d hd hne).1 hp
    simp [this]
  rw [hf, firstOcc_of_nodup roots hnd]

/-- the set of walked directories does not depend on the order in which the directories are listed -/
theorem walkRoots_perm (r₁ r₂ : List Comps) (h : r₁.Perm r₂) : (walkRoots r₁).Perm (walkRoots r₂) := by
  apply (List.perm_ext_iff_of_nodup (walkRoots_nodup r₁) (walkRoots_nodup r₂)).mpr
  intro a
  have hin : insideAnother r₁ a = insideAnother r₂ a := by
    rw [Bool.eq_iff_iff, insideAnother_iff, insideAnother_iff]
    constructor
    · rintro ⟨o, ho, h1, h2⟩; exact ⟨o, h.mem_iff.mp ho, h1, h2⟩
    · rintro ⟨o, ho, h1, h2⟩; exact ⟨o, h.mem_iff.mpr ho, h1, h2⟩
  rw [mem_walkRoots, mem_walkRoots, h.mem_iff, hin]

/-- listing a directory again, or listing a directory inside one that is already listed, changes nothing -/
theorem walkRoots_append_covered (roots : List Comps) (d : Comps) (h : ∃ o ∈ roots, o <+: d) :
    (walkRoots (roots ++ [d])).Perm (walkRoots roots) := by
  apply (List.perm_ext_iff_of_nodup (walkRoots_nodup _) (walkRoots_nodup _)).mpr
  intro a
  obtain ⟨o, ho, hod⟩ := h
  rw [mem_walkRoots, mem_walkRoots]
  constructor
  · rintro ⟨ha, hi⟩
    rw [insideAnother_false_iff] at hi
    have ha' : a ∈ roots := by
      rcases List.mem_append.mp ha with ha | ha
      · exact ha
      · simp only [List.mem_singleton] at ha
        subst ha
        have := hi o (List.mem_append_left _ ho) hod
        subst this
        exact ho
    refine ⟨ha', ?_⟩
    rw [insideAnother_false_iff]
    intro o' ho' hp
    exact hi o' (List.mem_append_left _ ho') hp
  · rintro ⟨ha, hi⟩
    rw [insideAnother_false_iff] at hi
    refine ⟨List.mem_append_left _ ha, ?_⟩
    rw [insideAnother_false_iff]
    intro o' ho' hp
    rcases List.mem_append.mp ho' with ho' | ho'
    · exact hi o' ho' hp
    · simp only [List.mem_singleton] at ho'
      subst ho'
      -- o <+: d = o' <+: a, and o ∈ roots, so o = a, hence a <+: o' <+: a
      have hoa := hi o ho (hod.trans hp)
      subst hoa
      exact List.IsPrefix.eq_of_length hp (Nat.le_antisymm hp.length_le hod.length_le)

end CbiVerif.CB
