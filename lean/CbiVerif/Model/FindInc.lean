import CbiVerif.PP.Find
import CbiVerif.Model.IncludeMemo
import CbiVerif.Model.MultiFile
import CbiVerif.Model.Warn
import CbiVerif.Model.WellNested
/-! # Executable multi-file model of `finder.find` (instance of the generic `MF.sem`).

What is modelled (codebasin/finder.py `find`, `ParserState.insert_file/associate`;
codebasin/platform.py `Platform`; codebasin/preprocessor.py `IncludeNode`, `PragmaNode`,
`DefineNode`, `UndefNode`; codebasin/file_parser.py `insert_directive_node` warning):

* files are identified by their real path; `-I` directories may be symbolic links (`FS.links`);
* `find_include_file` = `IncMemo.find` (the memo proved transparent in `Props/C04`);
* the associator = `Cond.model` (C01: `Cond.build` + `Cond.visitList`) over the file's node labels (`PP.labels`);
* every evaluated include node is logged in the ghost list `visits` together with the memo-free
  `IncludeSearch.resolve` of its request (this is what C18 counts against the warnings).
-/
namespace CbiVerif.Inc
open CbiVerif.PP CbiVerif.Cond CbiVerif.MF CbiVerif.IncludeSearch

/-! ## paths (kernel-reducible twins of `PP.normpath / joinPath / dirname`, so that the non-vacuity
examples in `Props/` can be checked by evaluation) -/
def splitSlash : List Char → List Char → List (List Char)
  | [], cur => [cur.reverse]
  | c :: cs, cur => if c == '/' then cur.reverse :: splitSlash cs [] else splitSlash cs (c :: cur)

def joinSlash : List String → String
  | [] => ""
  | [a] => a
  | a :: rest => a ++ "/" ++ joinSlash rest

/-- `os.path.normpath` for absolute POSIX paths (lexical) -/
def normpathK (p : String) : String :=
  let comps := (splitSlash p.toList []).map String.ofList
  let out := comps.foldl (fun (acc : List String) c =>
    if c == "" || c == "." then acc else if c == ".." then acc.dropLast else acc ++ [c]) []
  "/" ++ joinSlash out

/-- `os.path.join` -/
def joinPathK (a b : String) : String :=
  if b.toList.head? == some '/' then b
  else if a.toList.getLast? == some '/' then a ++ b
  else a ++ "/" ++ b

/-- `os.path.dirname` -/
def dirnameK (p : String) : String :=
  match ((splitSlash p.toList []).map String.ofList).dropLast with
  | [] => ""
  | [""] => "/"
  | l => joinSlash l

/-! ## file system -/
structure FS where
  /-- real absolute path ↦ text -/
  files : FSMap
  /-- absolute path of a symbolic link ↦ its (real, absolute) target -/
  links : List (String × String) := []

def replacePrefix (p l t : String) : Option String :=
  if p == l then some t
  else if (l ++ "/").toList.isPrefixOf p.toList then some (t ++ String.ofList (p.toList.drop l.length))
  else none

def realpathLoop (links : List (String × String)) : Nat → String → String
  | 0, p => p
  | n + 1, p =>
    match links.findSome? (fun lt => replacePrefix p lt.1 lt.2) with
    | some p' => realpathLoop links n p'
    | none => p

/-- `os.path.realpath` for the links the harness creates -/
def FS.realpath (fs : FS) (p : String) : String := realpathLoop fs.links (fs.links.length + 1) p
/-- `os.path.isfile` -/
def FS.isfile (fs : FS) (p : String) : Bool := (fs.files.get (fs.realpath p)).isSome
/-- `os.path.abspath(os.path.join(dir, name))` + `isfile` -/
def FS.env (fs : FS) : Env := { isfile := fs.isfile, join := fun d n => normpathK (joinPathK d n) }

/-! ## parsing (once per file; `FileParser.parse_file`) -/
def spellingOf (ts : List Tok) : String :=
  ts.foldl (fun s t => s ++ (if t.pw then " " else "") ++ t.spell) ""

/-- one directive logical line as `insert_directive_node` sees it -/
def directiveOf (text : String) (line : Nat) : Option Warn.Directive :=
  match parseDirective text [line] with
  | .ok n =>
    let toks := tokenize text
    some { line := line, recognised := n.kind != .unrecognized, ntokens := toks.length,
           name := (toks[1]?.map (·.spell)).getD "", spelling := spellingOf toks }
  | .error _ => none

/-- the directive lines of a file, in source order -/
def directivesOfText (text : String) : List Warn.Directive :=
  match cFileSource text with
  | .ok (lls, _, _) => lls.filterMap fun ll => if ll.isDirective then directiveOf ll.text ll.start else none
  | .error _ => []

structure Parsed where
  nodes : Array PNode
  lbls : List Lbl
  directives : List Warn.Directive

def parseOne (text : String) : Except Err Parsed := do
  let nodes ← parseFile text
  let _ ← buildTree nodes          -- the error cases of `SourceTree.insert` (ill-nested input)
  return { nodes := nodes.toArray
           lbls := labels nodes
           directives := directivesOfText text }

abbrev ParsedFS := List (String × Except Err Parsed)
def parseAll (fs : FS) : ParsedFS := fs.files.map fun (f, t) => (f, parseOne t)
def ParsedFS.get (p : ParsedFS) (f : String) : Option (Except Err Parsed) := (p.find? (·.1 == f)).map (·.2)
/-- the executable form of the hypothesis `WFparsed` of C04.include_semantics -/
def ParsedFS.wf (p : ParsedFS) : Bool :=
  p.all fun e => match e.2 with | .ok x => wfCheck x.lbls | .error _ => true
def ParsedFS.node (p : ParsedFS) (f : String) (i : Nat) : Option PNode :=
  match p.get f with
  | some (.ok x) => x.nodes[i]?
  | _ => none

/-! ## state -/
structure Platform where
  name : String
  tbl : Table := []
  skip : List String := []
  incPaths : List String := []
  memo : IncMemo.Memo IncMemo.Key := []

/-- one evaluated include directive (ghost log) and, at the same time, the content of a warning -/
structure Visit where
  file : String
  idx : Nat
  line : Nat
  name : String
  sys : Bool
  /-- the search directories of the translation unit (ghost) -/
  paths : List String
  /-- the compiler's answer, computed without the memo -/
  spec : Option String
deriving Repr, DecidableEq

structure PState where
  inserted : List String := []                               -- keys of `state.trees`
  assoc : List ((String × Nat) × List String) := []          -- (file, node) ↦ platforms
  warns : List Visit := []                                   -- "… include '…' not found"
  visits : List Visit := []
  dwarns : List Warn.Event := []                             -- "unrecognized directive …"
  err : Option Err := none

def PState.addAssoc (s : PState) (f : String) (i : Nat) (p : String) : PState :=
  match s.assoc.find? (·.1 == (f, i)) with
  | some (_, ps) =>
    if ps.contains p then s
    else { s with assoc := s.assoc.map fun e => if e.1 == (f, i) then (e.1, e.2 ++ [p]) else e }
  | none => { s with assoc := s.assoc ++ [((f, i), [p])] }

/-- `ParserState.insert_file` (argument already a real path) -/
def PState.insertFile (s : PState) (pfs : ParsedFS) (f : String) : PState :=
  if s.inserted.contains f || s.err.isSome then s else
  match pfs.get f with
  | none => { s with err := some (.other "FileNotFoundError") }
  | some (.error e) => { s with err := some e }
  | some (.ok p) =>
    { s with inserted := s.inserted ++ [f]
             dwarns := s.dwarns ++ Warn.directiveEvents f p.directives }

structure World where
  st : PState
  plat : Platform

def World.setErr (w : World) (e : Err) : World := { w with st := { w.st with err := some e } }

def evalCondW (w : World) (toks : List Tok) : Bool × World :=
  match w.st.err with
  | some _ => (false, w)
  | none =>
    match condValue w.plat.tbl toks with
    | .ok b => (b, w)
    | .error e => (false, w.setErr e)

/-- literal or computed include: `(path, is_system_include)` -/
def includeTarget (tbl : Table) (toks : List Tok) : Except Err (String × Bool) :=
  match includePath toks with
  | some r => .ok r
  | none =>
    match runExpandT tbl toks with
    | .ok ts => match includePath ts with | some r => .ok r | none => .error (.parse "Invalid path.")
    | .error e => .error e
    | .sig s => .error (.other s)

/-- `platform.find_include_file(name, dir, sys)`; `memoised = false` is the memo-free loop (reference) -/
def lookupWith (memoised : Bool) (E : Env) (paths : List String) (m : IncMemo.Memo IncMemo.Key) (q : IncMemo.Query) :
    Option String × IncMemo.Memo IncMemo.Key :=
  if memoised then IncMemo.find E paths m q else (IncMemo.resolveM E paths q, m)

/-- `IncludeNode.evaluate_for_platform` up to (not including) the recursive `associate` -/
def includeStep (memoised : Bool) (fs : FS) (pfs : ParsedFS) (file : String) (w : World) (idx : Nat) (n : PNode) :
    Option String × World :=
  match includeTarget w.plat.tbl n.toks with
  | .error e => (none, w.setErr e)
  | .ok ps =>
    let q : IncMemo.Query := ⟨ps.1, dirnameK file, ps.2⟩
    let r := lookupWith memoised fs.env w.plat.incPaths w.plat.memo q
    let v : Visit := ⟨file, idx, n.lines.headD 0, ps.1, ps.2, w.plat.incPaths, IncMemo.resolveM fs.env w.plat.incPaths q⟩
    let w1 : World := { st := { w.st with visits := w.st.visits ++ [v] }, plat := { w.plat with memo := r.2 } }
    match r.1 with
    | none => (none, { w1 with st := { w1.st with warns := w1.st.warns ++ [v] } })
    | some inc =>
      let real := fs.realpath inc
      if w1.plat.skip.contains real then (none, w1)
      else
        let w2 : World := { w1 with st := w1.st.insertFile pfs real }
        if w2.st.err.isSome then (none, w2) else (some real, w2)

/-- effect of a non-conditional node -/
def enter (memoised : Bool) (fs : FS) (pfs : ParsedFS) (file : String) (w : World) (idx : Nat) : Option String × World :=
  match w.st.err with
  | some _ => (none, w)
  | none =>
    match pfs.node file idx with
    | none => (none, w)
    | some n =>
      match n.kind with
      | .pragma =>
        match n.toks with
        | t :: _ =>
          if t.spell == "once" && !w.plat.skip.contains file
          then (none, { w with plat := { w.plat with skip := w.plat.skip ++ [file] } })
          else (none, w)
        | [] => (none, w)
      | .define =>
        match makeMacro n.name n.margs n.toks with
        | .ok m =>
          if (w.plat.tbl.get n.name).isSome then (none, w)
          else (none, { w with plat := { w.plat with tbl := w.plat.tbl ++ [(n.name, m)] } })
        | .error e => (none, w.setErr e)
      | .undef => (none, { w with plat := { w.plat with tbl := w.plat.tbl.filter (·.1 != n.name) } })
      | .include => includeStep memoised fs pfs file w idx n
      | _ => (none, w)

def opsWith (memoised : Bool) (fs : FS) (pfs : ParsedFS) : FileOps World where
  evalIf file w i :=
    match pfs.node file i with
    | some n => evalCondW w n.toks
    | none => (false, w)
  enter := enter memoised fs pfs
  labels file := match pfs.get file with | some (.ok p) => p.lbls | _ => []
  record w file out := { w with st := out.foldl (fun s i => s.addAssoc file i w.plat.name) w.st }
  noFuel w := w.setErr (.other "RecursionError")
  crash w := w.setErr .index

/-- the per-directive semantics of the code: memoised include resolution -/
def ops (fs : FS) (pfs : ParsedFS) : FileOps World := opsWith true fs pfs
/-- the reference: the compiler's rule evaluated afresh at every include -/
def opsSpec (fs : FS) (pfs : ParsedFS) : FileOps World := opsWith false fs pfs

/-! ## `finder.find` -/
def buildDefines : List String → Table → Except Err Table
  | [], tbl => .ok tbl
  | d :: ds, tbl =>
    match macroFromDefinitionString d with
    | .ok m => buildDefines ds (if (tbl.get m.name).isNone then tbl ++ [(m.name, m)] else tbl)
    | .error e => .error e

/-- one `-include` file (codebasin/finder.py `find`): searched like a quote include written in the entry's
source file `src`; if it resolves to no file, one warning of the user-include kind with line 0 naming the
source file and the requested name; if it resolves and is not on the once-list (`process_include`), it is
parsed and processed (`run` = the associator, or the flat reference machine).  Every forced include is logged
in the ghost list `visits` with node index 0 and line 0 (real directives have lines ≥ 1). -/
def forcedWith (memoised : Bool) (run : String → World → World) (fs : FS) (pfs : ParsedFS) (src : String)
    (w : World) (inc : String) : World :=
  if w.st.err.isSome then w else
  let q : IncMemo.Query := ⟨inc, dirnameK src, false⟩
  let r := lookupWith memoised fs.env w.plat.incPaths w.plat.memo q
  let v : Visit := ⟨src, 0, 0, inc, false, w.plat.incPaths, IncMemo.resolveM fs.env w.plat.incPaths q⟩
  let w1 : World := { st := { w.st with visits := w.st.visits ++ [v] }, plat := { w.plat with memo := r.2 } }
  match r.1 with
  | none => { w1 with st := { w1.st with warns := w1.st.warns ++ [v] } }
  | some f =>
    let real := fs.realpath f
    if w1.plat.skip.contains real then w1
    else
      let w2 : World := { w1 with st := w1.st.insertFile pfs real }
      if w2.st.err.isSome then w2 else run real w2

/-- one database entry: a fresh `Platform`, the `-D` definitions, the forced includes in order, then the file itself -/
def runEntryWith (memoised : Bool) (run : String → World → World) (fs : FS) (pfs : ParsedFS) (pname : String)
    (st : PState) (e : Entry) : PState :=
  if st.err.isSome then st else
  match buildDefines e.defines [] with
  | .error er => { st with err := some er }
  | .ok tbl =>
    let w0 : World := { st := st, plat := { name := pname, tbl := tbl, incPaths := e.includePaths } }
    let w1 := e.includeFiles.foldl (forcedWith memoised run fs pfs e.file) w0
    let w2 := if w1.st.err.isSome then w1 else run (fs.realpath e.file) w1
    w2.st

def findWith (memoised : Bool) (run : ParsedFS → String → World → World) (fs : FS) (codebase : List String)
    (config : List (String × List Entry)) : PState :=
  let pfs := parseAll fs
  let files := codebase ++ (config.flatMap (·.2)).map (·.file)
  let st0 : PState := files.foldl (fun s f => s.insertFile pfs (fs.realpath f)) {}
  config.foldl (fun st pe => pe.2.foldl (runEntryWith memoised (run pfs) fs pfs pe.1) st) st0

/-- the model of `finder.find`: tree associator, memoised include resolution -/
def find (fs : FS) (codebase : List String) (config : List (String × List Entry)) (fuel : Nat) : PState :=
  findWith true (fun pfs => assocFile (ops fs pfs) fuel) fs codebase config

/-- the reference: flat conditional-stack machine with textual inclusion, the compiler's rule at every include -/
def findSpec (fs : FS) (codebase : List String) (config : List (String × List Entry)) (fuel : Nat) : PState :=
  findWith false (fun pfs => runFileRef (opsSpec fs pfs) fuel) fs codebase config

end CbiVerif.Inc
