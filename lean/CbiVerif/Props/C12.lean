import CbiVerif.Lemmas.Compilers
import CbiVerif.Props.C12Regex  -- built (and re-checked against the regenerated table) together with this module
import CbiVerif.Generated.Compilers
/-!
# C12 — compiler emulation: aliases, implicit options, modes and passes

Theorems about `CbiVerif.Compilers` (Model/Compilers.lean) — the definitions the native driver executes
against `codebasin/config.py` — and about the table `CbiVerif.Gen.Compilers.builtinFiles`, regenerated from
`codebasin/compilers/*.toml` on every run.
-/
namespace CbiVerif.C12
open CbiVerif.Compilers CbiVerif.Compilers.Spec CbiVerif.Gen.Compilers

/-! ## aliases -/

/-- For every compiler table and every name the alias walk returns (it is a total function: it cannot
diverge or crash) and its answer is justified: `found d` — following `alias_of` links from the name for
fewer than |table| steps ends in the non-alias compiler `d`; `unknownTarget a` — the chain reaches an alias
of `a`, which is not in the table; `loop` — the chain reaches an alias of a name already on the chain;
`notRecognized` — the name itself is not in the table.  The fuel `|table| + 1` is never what stops the walk. -/
theorem alias_terminates_and_resolves (cs : CompilerMap) (name : String) :
    Outcome cs name (resolve cs name) :=
  resolve_outcome cs name

/-- … and it is the *only* justified answer: the four situations exclude one another (alias links are
functional), so whenever the table justifies an answer, that is the answer of the walk — in particular a chain
that has a non-alias end is never reported as a loop or as dangling, and vice versa. -/
theorem alias_resolution_complete (cs : CompilerMap) (name : String) (r : Resolved) (h : Outcome cs name r) :
    resolve cs name = r :=
  outcome_unique cs name r h

/-- the compiler handed to `parse_args` is never an alias -/
theorem resolved_not_alias (cs : CompilerMap) (name : String) (d : Compiler) (h : resolve cs name = .found d) :
    aliasTarget d = none := by
  have := alias_terminates_and_resolves cs name
  rw [h] at this
  obtain ⟨_, _, _, _, _, h4⟩ := this
  exact h4

/-- the built-in table (as regenerated from the *.toml files) loads completely and is schema-valid -/
def builtinMap : CompilerMap := (loadCompilers builtinFiles .absent).1

theorem builtin_valid : (loadBuiltin builtinFiles []).2 = true := by decide

/-- every built-in name resolves to a non-alias compiler: no loop, no dangling alias in the shipped files -/
theorem builtin_aliases_resolve :
    (builtinMap.map (·.1)).all (fun n => match resolve builtinMap n with | .found _ => true | _ => false) = true := by
  decide

/-! A literal table for the non-vacuity examples of this file (a copy of the shapes the shipped files use), so that an
edit of the shipped `*.toml` files re-checks the table theorems above but cannot break an example; the same examples
on the regenerated table itself are in `Props/C12Builtin.lean`. -/
def exIcx : Definition :=
  { parser := some [{ flags := ["-fopenmp"], action := "append_const", dest := some "modes", const := some "openmp" },
                    { flags := ["-fsycl"], action := "append_const", dest := some "modes", const := some "sycl" },
                    { flags := ["-fsycl-targets"], action := "store_split", dest := some "passes", sep := some ",", format := some "sycl-$value", default := some (DefaultV.list ["sycl-spir64"]) }],
    modes := some [{ name := "sycl", defines := ["SYCL_LANGUAGE_VERSION"] }, { name := "openmp", defines := ["_OPENMP"] }],
    passes := some [{ name := "sycl-spir64", defines := ["__SYCL_DEVICE_ONLY__", "__SPIR__", "__SPIRV__"], modes := ["sycl"] },
                    { name := "sycl-spir64_gen", defines := ["__SYCL_DEVICE_ONLY__", "__SPIR__", "__SPIRV__"], modes := ["sycl"] },
                    { name := "sycl-nvptx64-nvidia-cuda", defines := ["__SYCL_DEVICE_ONLY__", "__NVPTX__"], modes := ["sycl"] }] }
def exNvcc : Definition :=
  { options := some ["-D__NVCC__", "-D__CUDACC__"],
    parser := some [{ flags := ["-fopenmp"], action := "append_const", dest := some "modes", const := some "openmp" },
                    { flags := ["--gpu-architecture", "--gpu-code", "-gencode"], action := "extend_match", dest := some "passes", format := some "sm_$value", pattern := some "(?:sm_|compute_)(\\d+)", default := some (DefaultV.list ["sm_70"]), override := some true }],
    modes := some [{ name := "openmp", defines := ["_OPENMP"] }],
    passes := some [{ name := "sm_70", defines := ["__CUDA_ARCH__=700"] }, { name := "sm_80", defines := ["__CUDA_ARCH__=800"] }] }
def exGcc : Definition :=
  { parser := some [{ flags := ["-fopenmp"], action := "append_const", dest := some "modes", const := some "openmp" }],
    modes := some [{ name := "openmp", defines := ["_OPENMP"] }] }
def exFiles : List (List (String × Definition)) :=
  [[("gcc", exGcc), ("g++", { aliasOf := some "gcc" })], [("icx", exIcx), ("icpx", { aliasOf := some "icx" })], [("nvcc", exNvcc)]]
def exMap : CompilerMap := (loadCompilers exFiles .absent).1

/-! ## implicit options -/

/-- Implicit options behave exactly as if appended to the command line: a compiler with options `O`
on `argv` gives what the same compiler without options gives on `argv ++ O` — configurations, reports
and errors alike. -/
theorem implicit_eq_explicit (c : Compiler) (mt : Matches) (argv O : List String) :
    parseArgs { c with options := O } mt argv = parseArgs { c with options := [] } mt (argv ++ O) :=
  parseArgs_options { c with options := O } c rfl rfl rfl mt argv

/-- the same through name resolution: replacing the resolved compiler's options by explicit arguments -/
theorem implicit_eq_explicit_resolved (cs : CompilerMap) (mt : Matches) (name : String) (argv : List String) :
    emulate cs mt name argv =
      (match parseArgs { (resolve cs name).compiler with options := [] } mt (argv ++ (resolve cs name).compiler.options) with
       | .error e => .error e
       | .ok (cfgs, l) => .ok (cfgs, (resolve cs name).logs name ++ l)) := by
  simp only [emulate]
  rw [parseArgs_options (resolve cs name).compiler (resolve cs name).compiler rfl rfl rfl mt argv]
  rfl

example : parseArgs { (fromToml {}) with options := ["-DA", "-I", "inc"] } {} ["-DB", "x.c"] =
    .ok ([⟨"default", ["B", "A"], ["inc"], []⟩], []) := by decide

/-! ## passes and modes -/

/-- every command yields one configuration for the default pass plus one per selected (declared) pass, and
each is exactly: the command line's lists, then the lists declared for the pass, then the lists declared for
each of its modes (for `default`: the modes enabled on the command line) — nothing else, in that order.
Undeclared passes / modes contribute nothing and are reported. -/
theorem pass_composition (c : Compiler) (st : PState) :
    compose c st =
      ((selectedPasses st).filterMap (specConfig c (baseConfig st) (activeModes st)),
       (selectedPasses st).flatMap (specLogs c (activeModes st))) :=
  compose_eq c st

/-- the default pass is always among the selected ones, no pass is selected twice -/
theorem default_selected (st : PState) : "default" ∈ selectedPasses st ∧ (selectedPasses st).Nodup := by
  refine ⟨?_, nodup_dedup _⟩
  unfold selectedPasses
  rw [mem_dedup]
  simp

/-- one configuration per pass: the pass names of the result are the selected passes that are `default` or
declared, each once, in selection order; `default` is always there -/
theorem one_config_per_pass (c : Compiler) (st : PState) :
    (compose c st).1.map (·.passName) = (selectedPasses st).filter (fun p => p == "default" || hasKey c.passes p) ∧
    ((compose c st).1.map (·.passName)).Nodup ∧
    "default" ∈ (compose c st).1.map (·.passName) := by
  have hmap : (compose c st).1.map (·.passName) = (selectedPasses st).filter (fun p => p == "default" || hasKey c.passes p) := by
    rw [pass_composition]
    simp only
    generalize selectedPasses st = l
    induction l with
    | nil => rfl
    | cons p r ih =>
      simp only [List.filterMap_cons, List.filter_cons]
      have hs := specConfig_isSome c (baseConfig st) (activeModes st) p
      cases hc : specConfig c (baseConfig st) (activeModes st) p with
      | none =>
        rw [hc] at hs
        simp only [Option.isSome_none] at hs
        rw [← hs]
        simpa using ih
      | some cfg =>
        rw [hc] at hs
        simp only [Option.isSome_some] at hs
        rw [← hs]
        simp only [if_true, List.map_cons, ih, specConfig_passName c _ _ p cfg hc]
  refine ⟨hmap, ?_, ?_⟩
  · rw [hmap]
    exact List.Nodup.sublist List.filter_sublist (default_selected st).2
  · rw [hmap, List.mem_filter]
    exact ⟨(default_selected st).1, by simp⟩

/-- the configuration of the default pass in closed form -/
theorem default_config (c : Compiler) (st : PState) :
    configOf "default" (baseConfig st) none (declaredModes c (activeModes st)) ∈ (compose c st).1 := by
  rw [pass_composition]
  simp only [List.mem_filterMap]
  exact ⟨"default", (default_selected st).1, by simp [specConfig]⟩

/-- the configuration of a selected, declared pass in closed form -/
theorem selected_pass_config (c : Compiler) (st : PState) (p : String) (pd : PassDef)
    (hsel : p ∈ selectedPasses st) (hne : p ≠ "default") (hdecl : lookup c.passes p = some pd) :
    configOf p (baseConfig st) (some pd.toModeDef) (declaredModes c pd.modes) ∈ (compose c st).1 := by
  rw [pass_composition]
  simp only [List.mem_filterMap]
  refine ⟨p, hsel, ?_⟩
  have : (p == "default") = false := by simpa using hne
  simp [specConfig, this, hdecl]

/-! ## what a flag contributes (single steps of the argument loop, context free) -/

/-- A flag that enables a mode (or appends any constant): the exact spelling `f` of an `append_const` rule, at
any position of any command line and in any parser state, appends exactly its constant to its destination,
consumes nothing else and leaves the rest of the command line to be read as before. -/
theorem const_flag_contributes (t : List Opt) (mt : Matches) (f : String) (flags : List String) (dest const : String)
    (c : Char) (r : List Char) (hf : f.toList = '-' :: c :: r)
    (ho : findOpt t f = some ⟨flags, .zero, .appendConst dest const⟩) (rest : List String) (st : PState) :
    runArgs t mt (f :: rest) false st = runArgs t mt rest false ({ st with absorbing := false }.appendTo dest const) :=
  const_flag_step t mt f flags dest const c r hf ho rest st

/-- `flag=value` for a rule taking a value: exactly the rule's action on `value`, nothing else consumed -/
theorem value_flag_eq_contributes (t : List Opt) (mt : Matches) (fl vl : List Char) (o : Opt) (c : Char) (r : List Char)
    (hf : fl = '-' :: c :: r) (hne : '=' ∉ fl)
    (hnone : findOpt t (String.ofList (fl ++ '=' :: vl)) = none)
    (ho : findOpt t (String.ofList fl) = some o) (hn : o.nargs = .one) (rest : List String) (st : PState) :
    runArgs t mt (String.ofList (fl ++ '=' :: vl) :: rest) false st =
      (match takeAction mt { st with absorbing := false } (String.ofList fl) o (some (String.ofList vl)) with
       | .error e => .error e
       | .ok st1 => runArgs t mt rest false st1) :=
  eq_flag_step t mt fl vl o c r hf hne hnone ho hn rest st

/-- `flag value` (value not option-like): the same action, exactly the two arguments consumed -/
theorem value_flag_sep_contributes (t : List Opt) (mt : Matches) (f b : String) (o : Opt) (c : Char) (r : List Char)
    (hf : f.toList = '-' :: c :: r) (ho : findOpt t f = some o) (hn : o.nargs = .one)
    (hb : isPositional t b = true) (rest : List String) (st : PState) :
    runArgs t mt (f :: b :: rest) false st =
      (match takeAction mt { st with absorbing := false } f o (some b) with
       | .error e => .error e
       | .ok st1 => runArgs t mt rest false st1) :=
  sep_flag_step t mt f b o c r hf ho hn hb rest st

/-- a `store_split` rule selecting passes stores the split, formatted values under the spelling used (which is
what makes finding D31 possible: the rule's default lives under its first spelling) -/
theorem store_split_selects (mt : Matches) (st : PState) (f : String) (flags : List String) (sep fmt : Option String)
    (v : String) (parts vs : List String) (h1 : pySplit v sep = .ok parts) (h2 : mapM' (substitute fmt) parts = .ok vs) :
    takeAction mt st f ⟨flags, .one, .storeSplit "passes" sep fmt⟩ (some v) =
      .ok { st with passesByFlag := dictSet st.passesByFlag (flags.headD f) vs } :=
  storeSplit_passes mt st f flags sep fmt v parts vs h1 h2

/-- the hypotheses are satisfiable: `-fopenmp` and `-fsycl-targets=…` of the `icx` definition -/
def icxTable : List Opt := match addRules (match lookup exMap "icx" with | some c => c.parser | none => []) baseTable with
  | .ok t => t | .error _ => []
example : "-fopenmp".toList = '-' :: 'f' :: "openmp".toList ∧
    findOpt icxTable "-fopenmp" = some ⟨["-fopenmp"], .zero, .appendConst "modes" "openmp"⟩ := by decide
example : '=' ∉ "-fsycl-targets".toList ∧ findOpt icxTable "-fsycl-targets=spir64" = none ∧
    (findOpt icxTable "-fsycl-targets").map (·.nargs) = some .one := by decide
example : pySplit "spir64,spir64_gen" (some ",") = .ok ["spir64", "spir64_gen"] ∧
    mapM' (substitute (some "sycl-$value")) ["spir64", "spir64_gen"] = .ok ["sycl-spir64", "sycl-spir64_gen"] := by decide

/-! ## the user file extends the built-in table -/

/-- `_load_compilers` with a schema-valid `.cbi/config` whose tables have distinct names (TOML guarantees it):
* a compiler the user file does not name is exactly as built in;
* a name that is new is defined by the user's table;
* a table with `alias_of` (re)defines the name as that alias;
* a table without `alias_of` for a known, non-alias compiler *extends* it: implicit options and parser rules
  are appended to the built-in ones, modes and passes are added or replaced by name, everything else stays;
  for a name that was an alias the alias is dropped and only the user's table remains. -/
theorem user_extends_builtin (builtin : List (List (String × Definition))) (l : List (String × Definition))
    (hb : (loadBuiltin builtin []).2 = true) (hv : l.all (·.2.valid) = true) (hnd : (l.map (·.1)).Nodup) :
    let cs := (loadBuiltin builtin []).1
    let cs' := (loadCompilers builtin (.defs l)).1
    (∀ k, k ∉ l.map (·.1) → lookup cs' k = lookup cs k) ∧
    (∀ name d, (name, d) ∈ l → lookup cs name = none → lookup cs' name = some (fromToml d)) ∧
    (∀ name d a, (name, d) ∈ l → d.aliasOf = some a → lookup cs' name = some (fromToml d)) ∧
    (∀ name d c, (name, d) ∈ l → d.aliasOf = none → lookup cs name = some c →
        ∃ c', lookup cs' name = some c' ∧ Extends { c with aliasOf := none } d c') := by
  intro cs cs'
  have hcs' : cs' = (l.foldl mergeOne (cs, [])).1 := by
    show (loadCompilers builtin (.defs l)).1 = _
    unfold loadCompilers
    cases hlb : loadBuiltin builtin [] with
    | mk m ok =>
      have hok : ok = true := by rw [hlb] at hb; exact hb
      subst hok
      simp only [hv, if_true]
      show _ = (l.foldl mergeOne ((loadBuiltin builtin []).1, [])).1
      rw [hlb]
  refine ⟨?_, ?_, ?_, ?_⟩
  · intro k hk
    rw [hcs']; exact foldl_mergeOne_other l _ k hk
  · intro name d hmem hnone
    rw [hcs', foldl_mergeOne_mem l _ name d hnd hmem]
    simp only [mergedDef, hnone]
  · intro name d a hmem ha
    rw [hcs', foldl_mergeOne_mem l _ name d hnd hmem]
    cases hl : lookup cs name with
    | none => simp only [mergedDef]
    | some c => simp only [mergedDef, ha]
  · intro name d c hmem ha hl
    refine ⟨(extendCompiler { c with aliasOf := none } d).1, ?_, extendCompiler_extends _ d⟩
    rw [hcs', foldl_mergeOne_mem l _ name d hnd hmem]
    simp only [mergedDef, hl, ha]

/-- consequence for behaviour: a user table that only adds implicit options to a built-in compiler makes every
command line behave as the built-in compiler on `argv ++ user options` (after the built-in implicit options) -/
theorem user_options_appended (c c' : Compiler) (d : Definition) (mt : Matches) (argv : List String)
    (h : Extends c d c') (hp : d.parser = none) (hm : c'.modes = c.modes) (hps : c'.passes = c.passes) :
    parseArgs c' mt argv = parseArgs { c with options := [], aliasOf := none } mt (argv ++ c.options ++ d.options.getD []) := by
  have h3 := h.parser
  simp only [hp, Option.getD_none, List.append_nil] at h3
  rw [parseArgs_options c' { c with aliasOf := none } h3 hm hps mt argv, h.options, List.append_assoc]

/-! ## attribution -/

/-- `finder.find` over the entries `load_database` produced: a node is attributed to a platform iff some entry
of that platform uses it (`uses` = the associator reaches the node under that entry's configuration) -/
theorem any_entry_attributes {Node} (uses : Entry → Node → Bool) (nodes : List Node)
    (config : List (String × List Entry)) (n : Node) (p : String) :
    (n, p) ∈ attributeAll uses nodes config ↔
      n ∈ nodes ∧ ∃ es, (p, es) ∈ config ∧ ∃ e ∈ es, uses e n = true := by
  unfold attributeAll
  rw [attr_outer]
  simp

/-- "A line is attributed to a platform if any pass of any of its commands uses it": with the entries of each
platform produced by `load_database` from its commands, `(n, p)` is in the result iff some command of `p`
has some pass configuration (one of `emulate`'s results for that command) under which `n` is used. -/
theorem any_pass_attributes {Node} (uses : Entry → Node → Bool) (nodes : List Node) (cs : CompilerMap) (mt : Matches)
    (platforms : List (String × List Command)) (config : List (String × List Entry))
    (hcfg : List.Forall₂ (fun pc pe => pc.1 = pe.1 ∧ ∃ logs, loadDatabase cs mt pc.2 = .ok (pe.2, logs)) platforms config)
    (n : Node) (p : String) :
    (n, p) ∈ attributeAll uses nodes config ↔
      n ∈ nodes ∧ ∃ cmds, (p, cmds) ∈ platforms ∧ ∃ cmd ∈ cmds, ∃ cfgs l,
        emulate cs mt cmd.argv0 cmd.argv = .ok (cfgs, l) ∧ ∃ e ∈ entriesOf cmd cfgs, uses e n = true := by
  rw [any_entry_attributes]
  constructor
  · rintro ⟨hn, es, hmem, e, he, hu⟩
    refine ⟨hn, ?_⟩
    induction hcfg with
    | nil => simp at hmem
    | @cons pc pe r1 r2 hhead _ ih =>
      rcases List.mem_cons.mp hmem with h | h
      · obtain ⟨hname, logs, hload⟩ := hhead
        have h1 : p = pe.1 := by rw [← h]
        have h2 : es = pe.2 := by rw [← h]
        subst h2
        obtain ⟨cmd, hc, cfgs, l, hem, hin⟩ := (mem_loadDatabase cs mt pc.2 _ logs hload e).mp he
        exact ⟨pc.2, List.mem_cons.mpr (Or.inl (by rw [h1, ← hname])), cmd, hc, cfgs, l, hem, e, hin, hu⟩
      · obtain ⟨cmds, hm, rest⟩ := ih h
        exact ⟨cmds, List.mem_cons_of_mem _ hm, rest⟩
  · rintro ⟨hn, cmds, hmem, cmd, hc, cfgs, l, hem, e, hin, hu⟩
    refine ⟨hn, ?_⟩
    induction hcfg with
    | nil => simp at hmem
    | @cons pc pe r1 r2 hhead _ ih =>
      rcases List.mem_cons.mp hmem with h | h
      · obtain ⟨hname, logs, hload⟩ := hhead
        have h1 : p = pc.1 := by rw [← h]
        have h2 : cmds = pc.2 := by rw [← h]
        subst h2
        refine ⟨pe.2, List.mem_cons.mpr (Or.inl (by rw [h1, hname])), e, ?_, hu⟩
        exact (mem_loadDatabase cs mt pc.2 _ logs hload e).mpr ⟨cmd, hc, cfgs, l, hem, hin⟩
      · obtain ⟨es, hm, rest⟩ := ih h
        exact ⟨es, List.mem_cons_of_mem _ hm, rest⟩

/-! ## the regenerated tables agree with what the model assumes -/

/-- the fixed options read from `parse_args`' `add_argument` calls are the model's `baseTable` -/
theorem baseTable_matches :
    fixedOptions = baseTable.map (fun o =>
      (o.flags, (match o.nargs with | .one => "one" | .opt => "opt" | .zero => "zero"),
       (match o.act with | .append d => "append:" ++ d | .undefine d => "undefine:" ++ d | .ignore => "ignore" | _ => "?"))) := by decide

/-- the schema still has the two alternatives `Definition.valid` models, and the rule keys `Rule` has -/
theorem schema_shape :
    schemaAlternatives = [["modes", "options", "parser", "passes"], ["alias_of"]] ∧
    schemaRuleKeys = ["action", "const", "default", "dest", "flags", "format", "override", "pattern", "sep"] := by decide

/-- every action used by a built-in rule is one the model implements -/
theorem builtin_actions_supported :
    (builtinMap.all fun nc => nc.2.parser.all fun r => match ruleOpt r with | .ok _ => true | .error _ => false) = true := by
  decide

/-! ## non-vacuity (literal table; the same on the regenerated table: Props/C12Builtin.lean) -/

/-- `icpx -fsycl -fopenmp`: `icpx` resolves through its alias to `icx`; two configurations — the default pass
with both modes, the default SYCL device pass with the pass's defines and its `sycl` mode -/
example : emulate exMap {} "icpx" ["-fsycl", "-fopenmp", "-DX", "a.cpp"] =
    .ok ([⟨"sycl-spir64", ["X", "__SYCL_DEVICE_ONLY__", "__SPIR__", "__SPIRV__", "SYCL_LANGUAGE_VERSION"], [], []⟩,
          ⟨"default", ["X", "SYCL_LANGUAGE_VERSION", "_OPENMP"], [], []⟩], []) := by decide

/-- `-fsycl-targets=` replaces the default device pass by the listed ones (store_split with format) -/
example : (emulate exMap {} "icx" ["-fsycl-targets=spir64_gen,nvptx64-nvidia-cuda", "a.cpp"]).toOption.map
      (fun r => r.1.map (·.passName)) = some ["sycl-spir64_gen", "sycl-nvptx64-nvidia-cuda", "default"] := by decide

/-- `nvcc`: implicit `-D__NVCC__ -D__CUDACC__`, default pass `sm_70`; `--gpu-architecture` overrides it
(regex results supplied as a table), an undeclared architecture is reported and yields no configuration -/
example : emulate exMap {} "nvcc" ["x.cu"] =
    .ok ([⟨"sm_70", ["__NVCC__", "__CUDACC__", "__CUDA_ARCH__=700"], [], []⟩,
          ⟨"default", ["__NVCC__", "__CUDACC__"], [], []⟩], []) := by decide

example : emulate exMap { table := [(("--gpu-architecture", "sm_80,sm_60"), ["80", "60"])] } "nvcc"
      ["--gpu-architecture=sm_80,sm_60", "-fopenmp", "x.cu"] =
    .ok ([⟨"sm_80", ["__NVCC__", "__CUDACC__", "__CUDA_ARCH__=800"], [], []⟩,
          ⟨"default", ["__NVCC__", "__CUDACC__", "_OPENMP"], [], []⟩], [.badPass "sm_60"]) := by decide

/-- alias outcomes on a table extended by a user file: chain through a built-in alias, loop, dangling target -/
def userAliases : UserFile := .defs [("c++", { aliasOf := some "g++" }), ("a", { aliasOf := some "b" }),
  ("b", { aliasOf := some "c" }), ("c", { aliasOf := some "b" }), ("d", { aliasOf := some "nope" })]

example : (match resolve (loadCompilers exFiles userAliases).1 "c++" with | .found c => c.parser.map (·.flags) | _ => []) =
    [["-fopenmp"]] := by decide
example : resolve (loadCompilers exFiles userAliases).1 "a" = .loop := by decide
example : resolve (loadCompilers exFiles userAliases).1 "d" = .unknownTarget "nope" := by decide
example : resolve (loadCompilers exFiles userAliases).1 "cl" = .notRecognized := by decide

/-- the hypotheses of `user_extends_builtin` hold for the built-in table and a user file that extends `nvcc`
and adds a compiler; the extended `nvcc` keeps its rules and passes and gains the option -/
def userExt : List (String × Definition) :=
  [("nvcc", { options := some ["-DEXTRA"] }), ("mycc", { options := some ["-DMY"] })]
example : (loadBuiltin exFiles []).2 = true ∧ userExt.all (·.2.valid) = true ∧ (userExt.map (·.1)).Nodup := by decide
example : (emulate (loadCompilers exFiles (.defs userExt)).1 {} "nvcc" ["x.cu"]).toOption.map (fun r => r.1.map (·.defines)) =
    some [["__NVCC__", "__CUDACC__", "EXTRA", "__CUDA_ARCH__=700"], ["__NVCC__", "__CUDACC__", "EXTRA"]] := by decide

/-- the recorded findings exist in the model exactly as in the code (witnesses replayed by the harness):
D31 — a `store_split` rule used through its second spelling keeps the default pass of the first -/
def d31Rule : Rule :=
  { flags := ["-ftargets", "--targets"], action := "store_split", dest := some "passes", sep := some ",", default := some (DefaultV.list ["p1"]) }
def d31 : Compiler := fromToml { parser := some [d31Rule], passes := some [{ name := "p1" }, { name := "p2" }] }
example : (parseArgs d31 {} ["--targets=p2"]).toOption.map (fun r => r.1.map (·.passName)) = some ["p2", "default"] := by decide
example : (parseArgs d31 {} ["-ftargets=p2"]).toOption.map (fun r => r.1.map (·.passName)) = some ["p2", "default"] := by decide

end CbiVerif.C12
