import Lean.Data.Json
import CbiVerif.PP.Analyse
/-! Driver op for C01.
`{"op":"c01","text":…,"defs":[…]}` →
`{"model": {"ok":[[kind,[lines],attributed],…]} | {"exc":…},
  "spec":  {"rows":[…],"bad":b,"unterminated":b,"diag":b,"err":null|str,"c23":b,"wf":b} | {"exc":…}}`
`model` = `PP.analyseFile` = parse + `Cond.model (Cond.semCBI …)` (tree builder + visitor, keep-first define);
`spec`  = `PP.referenceFile` = parse + `Cond.reference (Cond.semC …)` (flat ISO C machine, overwrite define). -/
namespace CbiVerif.Drv.C01
open Lean CbiVerif.PP

def rowsJson (rows : List Row) : Json :=
  Json.arr (rows.map fun (k, ls, a) =>
    Json.arr #[Json.str ((toString (repr k)).splitOn "." |>.getLast!),
               Json.arr (ls.map fun (n : Nat) => (n : Json)).toArray, Json.bool a]).toArray

def handleC01 (j : Json) : Json :=
  let defs := (j.getObjValAs? (Array String) "defs").toOption.getD #[]
  let text := (j.getObjValAs? String "text").toOption.getD ""
  let model := match analyseFile text defs.toList with
    | .ok rows => Json.mkObj [("ok", rowsJson rows)]
    | .error e => Json.mkObj [("exc", toString (repr e))]
  let spec := match referenceFile text defs.toList with
    | .ok r => Json.mkObj [("rows", rowsJson r.rows), ("bad", r.bad), ("unterminated", r.unterminated), ("diag", r.diag),
        ("err", match r.err with | some e => Json.str (toString (repr e)) | none => Json.null),
        ("c23", r.c23),
        ("wf", !r.bad && !r.unterminated && !r.diag && r.err.isNone && !r.c23)]
    | .error e => Json.mkObj [("exc", toString (repr e))]
  Json.mkObj [("model", model), ("spec", spec)]

def handlers : List (String × (Json → Json)) := [("c01", handleC01)]

end CbiVerif.Drv.C01
