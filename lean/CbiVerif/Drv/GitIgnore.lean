import Lean.Data.Json
import CbiVerif.Spec.GitIgnore
import CbiVerif.Model.GitIgnoreCB
import CbiVerif.Drv.CodeBase
/-! driver ops for C09 (gitignore pattern semantics inside the model)

op `gitignore`   request {"op":"gitignore","cases":[{"patterns":[line],"paths":[{"p":"a/b","d":bool}]}]}
                 reply   [[bool]]            -- `GitIgnore.ignoredStr patterns (components of p) d`
op `gitignore_parse` request {"op":"gitignore_parse","patterns":[line]}
                 reply   [null | {"neg":b,"dirOnly":b,"anchored":b,"wellformed":b}]
op `codebase_gi` request as op `codebase`, with "patterns":[line] instead of the table "ignored"
                 reply   {"roots":[abs]|"loop","queries":[{"contains":bool|"loop"}],"iter":[abs]|"loop"}
                 -- `CB.contains` / `CB.iter` with `cfg := CBGit.gitCfg patterns catchLoop` (what `member_iff_gitignore` is about) -/
open Lean
namespace CbiVerif.Drv.GitIgnore
open CbiVerif.GitIgnore

def strs (j : Json) (k : String) : List String :=
  ((j.getObjValAs? (Array Json) k).toOption.getD #[]).toList.map fun x => x.getStr?.toOption.getD ""

def comps (s : String) : List String := (s.splitOn "/").filter (fun c => c != "")

def handle (j : Json) : Json :=
  Json.arr (((j.getObjValAs? (Array Json) "cases").toOption.getD #[]).map fun c =>
    let pats := strs c "patterns"
    -- parse the lines once per case: `ignoredStr` = `ignored (filterMap parseLine (map enc lines))`
    let ps := (pats.map enc).filterMap parseLine
    Json.arr (((c.getObjValAs? (Array Json) "paths").toOption.getD #[]).map fun q =>
      let p := (q.getObjValAs? String "p").toOption.getD ""
      let d := (q.getObjValAs? Bool "d").toOption.getD false
      Json.bool (ignored ps ((comps p).map enc) d)))

def handleParse (j : Json) : Json :=
  Json.arr ((strs j "patterns").map fun l =>
    match parseLine (enc l) with
    | none => Json.null
    | some p => Json.mkObj [("neg", Json.bool p.neg), ("dirOnly", Json.bool p.dirOnly),
                            ("anchored", Json.bool p.anchored), ("wellformed", Json.bool p.toks.isSome)]).toArray

open CbiVerif.Path CbiVerif.FS CbiVerif.CB CbiVerif.Drv.CodeBase in
def handleCB (j : Json) : Json :=
  let fs := parseFS j
  let cwd := (ofString ((j.getObjValAs? String "cwd").toOption.getD "/")).comps
  let n := (j.getObjValAs? Nat "fuel").toOption.getD 4000
  let cfg := CbiVerif.CBGit.gitCfg (CbiVerif.Drv.CodeBase.strs j "patterns")
    ((j.getObjValAs? Bool "catchLoop").toOption.getD false)
  let rootSp := (CbiVerif.Drv.CodeBase.strs j "roots").map ofString
  match mkRoots fs n cwd rootSp with
  | .error _ => Json.mkObj [("roots", Json.str "loop")]
  | .ok roots =>
    let qs := (CbiVerif.Drv.CodeBase.strs j "queries").map fun s =>
      Json.mkObj [("contains", boolJson (contains cfg fs n roots cwd (ofString s)))]
    Json.mkObj [
      ("roots", Json.arr (roots.map fun c => Json.str (renderAbs c)).toArray),
      ("queries", Json.arr qs.toArray),
      ("iter", listJson (iter cfg fs n roots))]

def handlers : List (String × (Json → Json)) :=
  [("gitignore", handle), ("gitignore_parse", handleParse), ("codebase_gi", handleCB)]

end CbiVerif.Drv.GitIgnore
