"""C16 — the duplicates report lists exactly the sets of byte-identical files.

Implementation: codebasin.report.find_duplicates / codebasin.report.duplicates, CLI `codebasin -R duplicates`
Model (Lean):   CbiVerif.Dups.findDuplicates (driver op "dups"), the definition of Props/C16.lean,
                fed with the observed enumeration (path, is_symlink, member, bytes) and run with several
                hash functions (injective .. constant) and several `set.pop()` strategies
Oracle:         direct byte-wise partition of the regular member files, computed from the generated plan
                (membership from the generator's ground truth, not from CodeBase.__contains__: a hand-written
                evaluator for five fixed pattern forms, or — plans with "oracle": "git" — `git check-ignore`
                on the ORDERED exclude list, which may contain negations, re-exclusions and repeats)

Streams:        single report on a fresh CodeBase (fixed pattern forms); the same with ordered gitignore-style
                exclude lists judged by git; HISTORIES: one CodeBase object is constructed (and optionally
                iterated / queried / reported on), then the tree is edited (files added, deleted, overwritten,
                renamed, turned into links and back) and the report of the SAME object is compared with the
                byte-wise partition of the edited plan, stage after stage; `codebasin -R duplicates` as a
                subprocess for all three (exclude list split between `-x` and `[codebase] exclude`).

The real code is additionally run with `hashlib.file_digest` interposed IN THE HARNESS PROCESS by weak
digests (constant / size / first byte): the result must not change (theorem `hash_irrelevant`); this makes
the byte-wise confirmation loop observable (sha512 collisions cannot be constructed).
"""
from __future__ import annotations

import atexit
import contextlib
import hashlib
import io
import json
import os
import shutil
import tempfile
from pathlib import Path

from harness import core
from harness.gen import c16gen, fstree

SRC_EXT = [".c", ".h", ".cpp", ".hpp", ".cc", ".cxx", ".hh", ".f90", ".F90", ".f", ".s", ".asm"]
C_EXT = [".c", ".h", ".cpp", ".hpp", ".cc", ".cxx", ".hh"]
NONSRC_EXT = [".txt", ".md", ".o", ".py", ".json", ""]
DIRNAMES = ["a", "b", "sub", "excl", "a b", "dü", "a/b", "sub/excl", "a/b/c", "b/sub"]
STEMS = ["f", "g", "main", "util", "x_gen", "rooted", "k.gen", "util v2", "straße", "m-1", "- dash"]
MTIME = 1_600_000_000
# exclude-pattern forms with an unambiguous meaning (gitignore): ground truth below
PATTERNS = ["excl/", "x_*", "/rooted.c", "*.gen.c", "a/b/"]
WEAK = ["const", "len", "first"]
MODEL_VARIANTS = [("id", "head"), ("const", "last"), ("len", "mid"), ("sum", "lcg"), ("first", "lcg"), ("strhash", "last")]


# ---------------------------------------------------------------------------
# ground truth (independent of the implementation)
# ---------------------------------------------------------------------------
def gt_excluded(rel: str, pats) -> bool:
    parts = rel.split("/")
    base = parts[-1]
    for p in pats:
        if p == "excl/" and "excl" in parts[:-1]:
            return True
        if p == "x_*" and any(q.startswith("x_") for q in parts):
            return True
        if p == "/rooted.c" and rel == "rooted.c":
            return True
        if p == "*.gen.c" and base.endswith(".gen.c"):
            return True
        if p == "a/b/" and parts[:2] == ["a", "b"] and len(parts) > 2:
            return True
    return False


def gt_member(plan, p: str) -> bool:
    """p: path relative to the scratch base of a regular file (kind file/hardlink)."""
    if os.path.splitext(p)[1] not in SRC_EXT:
        return False
    for d in plan["dirs"]:
        if p.startswith(d + "/"):
            return not gt_excluded(p[len(d) + 1:], plan["excludes"])
    return False


def plan_bytes(plan):
    out = {}
    for e in plan["entries"]:
        if e["k"] == "file":
            out[e["p"]] = bytes.fromhex(e["hex"])
    for e in plan["entries"]:
        if e["k"] == "hardlink":
            out[e["p"]] = out[e["to"]]
    return out


_GIT = None


def git_oracle():
    """one scratch git repository per run: reference for the meaning of an ordered exclude list"""
    global _GIT
    if _GIT is None:
        d = tempfile.mkdtemp(prefix="cbiverif_c16git_")
        atexit.register(shutil.rmtree, d, True)
        _GIT = fstree.GitOracle(d)
    return _GIT


def candidates_by_root(plan):
    """regular files with a recognised extension below a code-base directory: {dir: [dir-relative path]}
    (the first listed directory containing the file is the one the patterns are relative to)"""
    out = {}
    for p in plan_bytes(plan):
        if os.path.splitext(p)[1] not in SRC_EXT:
            continue
        for d in plan["dirs"]:
            if p.startswith(d + "/"):
                out.setdefault(d, []).append(p[len(d) + 1:])
                break
    return out


def git_members(plan, base: Path, pats):
    git = git_oracle()
    mem = set()
    for d, rels in candidates_by_root(plan).items():
        ign = git.ignored(str(base / d), pats, rels)
        mem |= {d + "/" + r for r in rels if r not in ign}
    return mem


def members_of(plan, base: Path):
    """(set of member paths, None) or (None, reason) when the exclude list has no agreed meaning.
    Plans with "oracle": "git": a candidate is a member iff `git check-ignore --no-index` does not ignore it under
    the ordered list.  Lists on which the pattern library (pathspec, trusted, not under test here) and git differ
    about some candidate are not judged: that divergence is the recorded subject of C09 (F-C09-GI-*)."""
    if plan.get("oracle") != "git":
        return {p for p in plan_bytes(plan) if gt_member(plan, p)}, None
    import pathspec

    pats = list(plan["excludes"])
    mem = git_members(plan, base, pats)
    try:
        spec = pathspec.GitIgnoreSpec.from_lines(pats)
    except Exception as e:  # noqa
        return None, f"pathspec rejects the list: {type(e).__name__}"
    for d, rels in candidates_by_root(plan).items():
        for r in rels:
            if bool(spec.match_file(r)) != ((d + "/" + r) not in mem):
                return None, f"pathspec and git differ on {r!r}"
    return mem, None


def oracle(plan, members):
    """classes of size >= 2 of byte-identical regular member files, as a set of frozensets of relative paths"""
    data = plan_bytes(plan)
    classes = {}
    for p, b in data.items():
        if p in members:
            classes.setdefault(b, set()).add(p)
    return {frozenset(s) for s in classes.values() if len(s) >= 2}


def stage_plans(plan):
    """the plan at every stage of its history (stage 0 = as generated)"""
    out = [c16gen.apply_edits(plan, [])]
    for edits in plan.get("history") or []:
        out.append(c16gen.apply_edits(out[-1], edits))
    return out


# ---------------------------------------------------------------------------
# generator
# ---------------------------------------------------------------------------
def variants(rng, b: bytes, textual: bool):
    out = [b]
    if b:
        last = bytes([b[-1] ^ 1]) if not textual else (b"}" if b[-1:] != b"}" else b")")
        out.append(b[:-1] + last)              # differs only in the final byte
        out.append(b[:-1])                     # shorter by one byte
        mid = len(b) // 2
        out.append(b[:mid] + (b"Z" if b[mid:mid + 1] != b"Z" else b"Y") + b[mid + 1:])  # same size, middle byte
        out.append((b"Q" if b[:1] != b"Q" else b"R") + b[1:])  # same size, first byte
    out.append(b + b"\n")                      # longer by one byte
    out.append(b + b" ")
    return out


def content_pool(rng, textual: bool):
    bases = [b"", b"int f(void);\n", b"int f(void);", b"int f(void);\r\n", b"#define A 1\n", b"/* c */\n", b"a", b"\n",
             b"int main() { return 0; }\n"]
    if not textual:
        bases += [b"\x00", b"\x00\x00", b"\xff\xfe\x00", bytes(range(256)), b"x" * 8192, b"x" * 8193, b"y" * 20000]
    else:
        bases += [b"// " + b"x" * 8190 + b"\n", b"// " + b"y" * 9000 + b"\n"]
    cand = []
    for b in rng.sample(bases, rng.randint(1, 3)):
        cand += variants(rng, b, textual)
    if rng.random() < 0.5:
        cand.append(b"")
    k = rng.randint(1, min(6, len(cand)))
    return rng.sample(cand, k)


def gen_plan(rng, mode="api", excl="fixed", history=False):
    """excl="git": the exclude list is an ordered gitignore-style list derived from the files (judged by git);
    history=True: 1-3 stages of edits follow, applied while one CodeBase object stays alive"""
    textual = mode == "cli"
    exts = C_EXT if textual else SRC_EXT
    pool = content_pool(rng, textual)
    weights = [rng.choice([1, 1, 2, 4]) for _ in pool]
    dirs = ["root"]
    style = rng.random()
    if mode == "api" and style < 0.15:
        dirs = ["root", "root2"]
    excludes = [p for p in PATTERNS if rng.random() < 0.35]
    entries, used = [], set()
    subdirs = [""] + rng.sample(DIRNAMES, rng.randint(0, 4))

    def fresh(base_dir, ext_list, stem=None):
        for _ in range(50):
            sd = rng.choice(subdirs)
            st = stem or rng.choice(STEMS)
            name = st + rng.choice(ext_list)
            p = "/".join(x for x in (base_dir, sd, name) if x)
            if p not in used and not any(u.startswith(p + "/") or p.startswith(u + "/") for u in used):
                used.add(p)
                return p
        return None

    def pick():
        return rng.choices(pool, weights)[0]

    for _ in range(rng.randint(0, 14)):
        p = fresh(rng.choice(dirs), exts)
        if p:
            entries.append({"p": p, "k": "file", "hex": pick().hex()})
    # distractors
    for _ in range(rng.randint(0, 2)):  # twins with an unrecognised extension
        p = fresh(rng.choice(dirs), NONSRC_EXT)
        if p:
            entries.append({"p": p, "k": "file", "hex": pick().hex()})
    for _ in range(rng.randint(0, 2)):  # twins outside the code base
        p = fresh("outside", exts)
        if p:
            entries.append({"p": p, "k": "file", "hex": pick().hex()})
    if "root2" not in dirs and rng.random() < 0.3:
        p = fresh("root2", exts)
        if p:
            entries.append({"p": p, "k": "file", "hex": pick().hex()})
    for _ in range(rng.randint(0, 3)):  # excluded twins (only effective if the pattern was drawn)
        form = rng.choice(["excl", "x_", "rooted", "gen", "ab"])
        d0 = rng.choice(dirs)
        if form == "excl":
            p = "/".join([d0, rng.choice(["excl", "sub/excl"]), rng.choice(STEMS) + rng.choice(exts)])
        elif form == "x_":
            p = "/".join([d0, rng.choice(["", "a"]), "x_" + rng.choice(["1", "two"]) + rng.choice(exts)]).replace("//", "/")
        elif form == "rooted":
            p = "/".join([d0, rng.choice(["", "a", "sub"]), "rooted.c"]).replace("//", "/")
        elif form == "gen":
            p = "/".join([d0, rng.choice(["", "b"]), rng.choice(["k", "z"]) + ".gen.c"]).replace("//", "/")
        else:
            p = "/".join([d0, rng.choice(["a/b", "a/b/c", "sub/a/b"]), rng.choice(STEMS) + rng.choice(exts)])
        if p not in used and not any(u.startswith(p + "/") or p.startswith(u + "/") for u in used):
            used.add(p)
            entries.append({"p": p, "k": "file", "hex": pick().hex()})
    regular = [e["p"] for e in entries]
    # hard links (second name of the same inode: a regular file with identical bytes)
    for _ in range(rng.randint(0, 1) if regular else 0):
        t = rng.choice(regular)
        p = fresh(rng.choice(dirs), exts)
        if p:
            entries.append({"p": p, "k": "hardlink", "to": t})
    # symbolic links: to members, to excluded/outside/non-source twins, dangling, to directories
    for _ in range(rng.randint(0, 3) if regular else 0):
        t = rng.choice(regular)
        p = fresh(rng.choice(dirs), exts + [".txt"] if rng.random() < 0.8 else NONSRC_EXT)
        if p:
            entries.append({"p": p, "k": "symlink", "to": t, "abs": rng.random() < 0.5})
    if rng.random() < 0.15:
        p = fresh(rng.choice(dirs), exts)
        if p:
            entries.append({"p": p, "k": "symlink", "to": "outside/nowhere.c", "abs": True})  # dangling
    real_dirs = sorted({os.path.dirname(q) for q in regular if os.path.dirname(q) not in ("", "root", "root2", "outside")})
    if real_dirs and rng.random() < 0.25:
        t = rng.choice(real_dirs)
        p = rng.choice(dirs) + "/" + rng.choice(["dlink", "zlink", "alink"])
        if p not in used and not any(u.startswith(p + "/") for u in used):
            used.add(p)
            entries.append({"p": p, "k": "symlink", "to": t, "abs": rng.random() < 0.5})
    plan = {"mode": mode, "dirs": dirs, "excludes": excludes, "entries": entries}
    if mode == "api" and style > 0.9:
        # overlapping directories: the same files are enumerated twice (no anchored patterns then)
        subs = sorted({"/".join(e["p"].split("/")[:2]) for e in entries if e["p"].startswith("root/") and e["p"].count("/") >= 2})
        if subs:
            plan["dirs"] = ["root", rng.choice(subs)]
            plan["excludes"] = [p for p in excludes if p in ("excl/", "x_*", "*.gen.c")]
            # ground truth uses the first directory containing the file: root
    if excl == "git":
        plan["oracle"] = "git"
        data = plan_bytes(plan)
        cand = candidates_by_root(plan)
        rels = sorted({r for rs in cand.values() for r in rs})
        blobs = [data[d + "/" + r] for d, rs in cand.items() for r in rs]
        twins = sorted({r for d, rs in cand.items() for r in rs if blobs.count(data[d + "/" + r]) >= 2})
        plan["excludes"] = c16gen.gen_patterns(rng, rels, twins)
        if mode == "cli":
            # command line first, then `[codebase] exclude` of the analysis file: one ordered list
            n = len(plan["excludes"])
            k = rng.randint(1, n - 1) if n >= 2 and rng.random() < 0.7 else rng.randint(0, n)  # mostly: both sources non-empty
            for i, q in enumerate(plan["excludes"]):
                if q.startswith("-"):
                    k = min(k, i)  # argparse would read it as an option
            plan["cli_split"] = k
    if history:
        plan["warm"] = rng.choice(["find", "find", "iter", "contains", "printed", "none"])
        plan["history"] = []
        cur = plan
        for _ in range(rng.choices([1, 2, 3], [5, 3, 1])[0]):
            edits = c16gen.gen_edits(rng, cur, exts, NONSRC_EXT, textual)
            if edits:
                plan["history"].append(edits)
                cur = c16gen.apply_edits(cur, edits)
    return plan


def materialise(plan, base: Path):
    for d in plan["dirs"] + ["outside"]:
        (base / d).mkdir(parents=True, exist_ok=True)
    for e in plan["entries"]:
        if e["k"] == "file":
            q = base / e["p"]
            q.parent.mkdir(parents=True, exist_ok=True)
            q.write_bytes(bytes.fromhex(e["hex"]))
            os.utime(q, (MTIME, MTIME))  # same size => same shallow signature (type, size, mtime)
    for e in plan["entries"]:
        q = base / e["p"]
        if e["k"] == "hardlink":
            q.parent.mkdir(parents=True, exist_ok=True)
            os.link(base / e["to"], q)
        elif e["k"] == "symlink":
            q.parent.mkdir(parents=True, exist_ok=True)
            tgt = base / e["to"]
            os.symlink(str(tgt) if e.get("abs") else os.path.relpath(tgt, q.parent), q)
    if plan["mode"] == "cli":
        k = plan.get("cli_split", len(plan["excludes"]))
        toml = ""
        if k < len(plan["excludes"]):
            toml = "[codebase]\nexclude = " + json.dumps(plan["excludes"][k:], ensure_ascii=False) + "\n\n"
        (base / "root" / "analysis.toml").write_text(toml + '[platform.p]\ncommands = "cc.json"\n', encoding="utf-8")
        (base / "root" / "cc.json").write_text("[]\n")


# ---------------------------------------------------------------------------
# observation of the implementation
# ---------------------------------------------------------------------------
class _FakeDigest:
    def __init__(self, s):
        self.s = s

    def hexdigest(self):
        return self.s


def _weak(kind):
    def file_digest(f, alg, **kw):
        data = f.read()
        if kind == "const":
            return _FakeDigest("0")
        if kind == "len":
            return _FakeDigest(str(len(data)))
        return _FakeDigest(data[:1].hex())

    return file_digest


def rel(base: Path, p) -> str:
    return os.path.relpath(str(p), str(base))


def as_groups(base, result):
    """list[set[Path]] -> (ordered list of frozensets of relative paths, problems)"""
    probs = []
    out = []
    if not isinstance(result, list):
        probs.append(f"find_duplicates returned {type(result).__name__}, not a list")
        result = list(result)
    for g in result:
        if not isinstance(g, (set, frozenset)):
            probs.append(f"group is a {type(g).__name__}, not a set")
        out.append(frozenset(rel(base, p) for p in g))
    return out, probs


def run_find(report, cb, base, weak=None):
    import filecmp

    filecmp.clear_cache()
    saved = hashlib.file_digest
    try:
        if weak:
            hashlib.file_digest = _weak(weak)
        try:
            res = report.find_duplicates(cb)
        except Exception as e:  # noqa
            return None, [f"find_duplicates raised {type(e).__name__}: {e}"]
    finally:
        hashlib.file_digest = saved
    return as_groups(base, res)


def parse_report(text: str, base: Path):
    """'Duplicates' section -> (list of frozensets, problems)"""
    lines = text.splitlines()
    probs = []
    try:
        i = max(k for k, ln in enumerate(lines) if ln.strip() in ("Duplicates", "\033[1m\033[4mDuplicates\033[0m"))
    except ValueError:
        return None, ["no 'Duplicates' heading in the output"]
    body = [ln for ln in lines[i + 1:] if ln.strip() and set(ln.strip()) != {"="}]
    if body == ["No duplicates found."]:
        return [], probs
    groups, cur = [], None
    for ln in body:
        if ln.startswith("Match ") and ln.endswith(":"):
            idx = ln[6:-1]
            if idx != str(len(groups)):
                probs.append(f"heading '{ln}' where 'Match {len(groups)}:' was expected")
            cur = []
            groups.append(cur)
        elif ln.startswith("- ") and cur is not None:
            cur.append(rel(base, ln[2:]))
        else:
            probs.append(f"unexpected line in the Duplicates section: {ln!r}")
    out = []
    for g in groups:
        if len(set(g)) != len(g):
            probs.append(f"a path is printed twice in one match: {g}")
        out.append(frozenset(g))
    return out, probs


def observe_enumeration(cb, base: Path, plan):
    """what the model is fed with: the walk of the implementation (Path.rglob over the directories, in order),
    each non-directory entry with is_symlink, real membership (`in cb`) and the bytes it reads."""
    files = []
    for d in cb.directories:
        for p in Path(d).rglob("*"):
            try:
                if p.is_dir():
                    continue
                member = p in cb
                sym = p.is_symlink()
                data = p.read_bytes() if p.exists() else b""
            except (OSError, RuntimeError):
                continue
            files.append({"path": rel(base, p), "symlink": sym, "member": bool(member), "content": data.hex()})
    seen = {f["path"] for f in files}
    for e in plan["entries"]:  # files outside every directory of the code base
        if e["p"] not in seen and e["k"] in ("file", "hardlink"):
            files.append({"path": e["p"], "symlink": False, "member": bool((base / e["p"]) in cb),
                          "content": (base / e["p"]).read_bytes().hex()})
    return files


def describe(want, got):
    miss = [sorted(g) for g in want - got]
    extra = [sorted(g) for g in got - want]
    return f"expected groups missing {miss}; reported groups not in the byte-wise partition {extra}"


def signature(plan, want, members):
    data = plan_bytes(plan)
    ids = {}
    key = []
    for e in sorted(plan["entries"], key=lambda e: e["p"]):
        if e["k"] in ("file", "hardlink"):
            key.append((e["p"], e["k"], ids.setdefault(data[e["p"]], len(ids))))
        else:
            key.append((e["p"], "symlink", e["to"]))
    return repr((plan["dirs"], plan["excludes"], key))


def _stats(ctx, plan, stage_plan, base, want, members, stage, origin):
    """distribution buckets (all measured on the concrete case)"""
    data = plan_bytes(stage_plan)
    n_unique = len(members) - sum(len(g) for g in want)
    sizes = sorted((len(g) for g in want), reverse=True)
    ctx.count(key=f"groups={min(len(want), 4)}{'+' if len(want) > 4 else ''},max={min(sizes[0], 5) if sizes else 0}")
    for k in {e["k"] for e in stage_plan["entries"]}:
        ctx.dist["has_" + k] += 1
    cands = {d + "/" + r for d, rs in candidates_by_root(stage_plan).items() for r in rs}
    if cands - members:
        ctx.dist["has_excluded_file"] += 1
    if b"" in {data[p] for p in members}:
        ctx.dist["has_empty_member"] += 1
    if len(stage_plan["dirs"]) > 1:
        ctx.dist["multi_dir"] += 1
    if stage_plan.get("oracle") == "git":
        pats = stage_plan["excludes"]
        ctx.dist["excl-git:judged"] += 1
        if any(q.startswith("!") for q in pats):
            ctx.dist["excl-git:has-negation"] += 1
            if git_members(stage_plan, base, [q for q in pats if not q.startswith("!")]) != members:
                ctx.dist["excl-git:negation-takes-effect"] += 1
                twins = {q for g in want for q in g}
                if twins & (members - git_members(stage_plan, base, [q for q in pats if not q.startswith("!")])):
                    ctx.dist["excl-git:re-included-file-is-a-listed-twin"] += 1
        if len(pats) > 1 and git_members(stage_plan, base, pats[::-1]) != members:
            ctx.dist["excl-git:order-matters"] += 1
        if len(set(pats)) < len(pats):
            ctx.dist["excl-git:has-repeated-pattern"] += 1
    if want and n_unique >= 1:
        ctx.nontrivial.add(signature(stage_plan, want, members) + (f"|stage{stage}|{plan.get('warm')}" if stage else ""))
    ctx.sample({"dirs": stage_plan["dirs"], "excludes": stage_plan["excludes"], "mode": stage_plan["mode"], "origin": origin, "stage": stage,
                "history": plan.get("history"), "warm": plan.get("warm") if plan.get("history") else None,
                "files": [(e["p"], e["k"], e.get("to") or len(e["hex"]) // 2) for e in stage_plan["entries"]][:12],
                "expected_groups": sorted(sorted(g) for g in want)}, cap=8)


def judge(ctx, drv, plan, stage_plan, base, cb, case, full, report, stage, origin):
    """one observation of the implementation against the byte-wise partition of `stage_plan`"""
    out = {}
    members, why = members_of(stage_plan, base)
    if members is None:
        ctx.dist["excl-git:pattern-library-differs-from-git(not judged)"] += 1
        out["not_judged"] = why
        return out
    want = oracle(stage_plan, members)
    out["spec"] = sorted(sorted(g) for g in want)
    _stats(ctx, plan, stage_plan, base, want, members, stage, origin)

    if stage_plan["mode"] == "cli":
        k = stage_plan.get("cli_split", len(stage_plan["excludes"]))
        args = ["-R", "duplicates"]
        for p in stage_plan["excludes"][:k]:
            args += ["-x", p]
        rc, so, se = core.run_cli("codebasin", args + ["analysis.toml"], cwd=base / "root")
        out["cli_rc"] = rc
        ctx.count(key="cli")
        if rc != 0:
            ctx.notes.append(f"CLI exit {rc} on {json.dumps(plan)[:300]}: {se[-300:]}")
            out["cli_stderr"] = se[-500:]
            return out
        got, probs = parse_report(so, base)
        out["implementation_cli"] = None if got is None else [sorted(g) for g in got]
        if got is None or probs or set(got) != want or len(got) != len(set(got)):
            what = "CLI `-R duplicates`: " + "; ".join(probs[:3] + ([describe(want, set(got))] if got is not None and set(got) != want else [])
                                                       + (["a group is printed twice"] if got is not None and len(got) != len(set(got)) else []))
            ctx.violation(what, case)
        if not full:
            return out

    tag = f"[stage {stage}, same CodeBase object as before the edits] " if stage else ""
    # --- implementation vs the byte-wise partition (real sha512)
    got, probs = run_find(report, cb, base)
    out["implementation"] = None if got is None else [sorted(g) for g in got]
    bad = list(probs)
    if got is not None:
        if len(got) != len(set(got)):
            bad.append("the same group is reported twice")
        if set(got) != want:
            bad.append(describe(want, set(got)))
        for g in got:  # clause-level diagnosis
            if len(g) < 2:
                bad.append(f"group with fewer than two files: {sorted(g)}")
            for p in g:
                if (base / p).is_symlink():
                    bad.append(f"symbolic link listed: {p}")
                elif p not in members:
                    bad.append(f"listed file is not a code-base file: {p}")
    if bad:
        ctx.violation(tag + "find_duplicates: " + "; ".join(bad[:4]), case)
    # --- implementation with interposed weak digests: same result required
    out["implementation_weak_hash"] = {}
    for wk in (WEAK if not stage else WEAK[stage % 3:stage % 3 + 1]):
        gw, pw = run_find(report, cb, base, weak=wk)
        out["implementation_weak_hash"][wk] = None if gw is None else [sorted(g) for g in gw]
        ctx.count(key="weak-hash:" + wk)
        if gw is None or pw or set(gw) != want or len(gw) != len(set(gw)):
            ctx.violation(tag + f"find_duplicates with hashlib.file_digest interposed by a '{wk}' digest (harness-side): "
                          + "; ".join(pw[:2] + ([describe(want, set(gw))] if gw is not None else [])), dict(case, weak_hash=wk))
    # --- printed report
    buf = io.StringIO()
    try:
        with contextlib.redirect_stdout(buf):
            report.duplicates(cb, buf)
        printed, pp = parse_report(buf.getvalue(), base)
    except Exception as e:  # noqa
        printed, pp = None, [f"report.duplicates raised {type(e).__name__}: {e}"]
    out["implementation_printed"] = None if printed is None else [sorted(g) for g in printed]
    ctx.count(key="printed")
    if printed is None or pp or set(printed) != want or len(printed) != len(set(printed)):
        ctx.violation(tag + "report.duplicates (printed): " + "; ".join(pp[:3] + ([describe(want, set(printed))] if printed is not None else [])), case)
    # the same with a stream that is not sys.stdout: everything must go to the stream
    b1, b2 = io.StringIO(), io.StringIO()
    try:
        with contextlib.redirect_stdout(b2):
            report.duplicates(cb, b1)
        p1, pp1 = parse_report(b1.getvalue(), base)
    except Exception as e:  # noqa
        p1, pp1 = None, [str(e)]
    if p1 is None or pp1 or set(p1) != want:
        st, leak = b1.getvalue(), b2.getvalue()
        c2 = dict(case, stream="io.StringIO (not sys.stdout)", stream_text=st[:1500], stdout_text=leak[:1500])

        def path_lines_leaked(_c, st=st, leak=leak):
            # exactly the recorded defect: headings in the stream, every '- path' line on sys.stdout instead
            listed = {q for g in want for q in g}
            leaked = {rel(base, ln[2:]) for ln in leak.splitlines() if ln.startswith("- ")}
            return bool(want) and "- " not in st and st.count("Match ") == len(want) and leaked == listed

        ctx.classify(c2, tag + "report.duplicates(codebase, stream): the stream does not contain the report "
                     f"(stream has {None if p1 is None else [sorted(g) for g in p1]}, {len(leak)} characters went to sys.stdout instead)",
                     [("F-C16-1", path_lines_leaked)])
    # --- model vs implementation (correspondence); the model is fed with a walk made NOW by the harness
    if drv is not None and got is not None:
        files = observe_enumeration(cb, base, stage_plan)
        try:
            listing = [rel(base, p) for p in cb]
        except Exception as e:  # noqa
            listing = f"iteration raised {type(e).__name__}"
        if [f["path"] for f in files if f["member"] and not f["path"].startswith("outside/")] != listing:
            ctx.notes.append(f"harness walk differs from iteration of the code base (stage {stage}) on " + json.dumps(plan)[:200])
        out["model"] = {}
        variants_ = MODEL_VARIANTS if not stage else MODEL_VARIANTS[:1] + MODEL_VARIANTS[1 + stage % 5:2 + stage % 5]
        reqs = [{"op": "dups", "files": files, "hash": h, "choose": c, "seed": ctx.rng.randrange(1 << 30)} for h, c in variants_]
        reps = drv.batch(reqs)
        for (h, c), r in zip(variants_, reps):
            mg = [frozenset(g) for g in r["groups"]]
            out["model"][f"{h}/{c}"] = [sorted(g) for g in mg]
            if set(mg) != set(got) or len(mg) != len(got):
                ctx.corr_break(f"dups[{h}/{c}]", case, out["implementation"], r["groups"])
            if set(mg) != want:
                ctx.notes.append(f"model[{h}/{c}] != byte-wise partition on {json.dumps(plan)[:300]}")
        # order of the groups = insertion order of the digests.  Only a statistic: it presupposes that the
        # real digest is injective on the inputs, which the property (and the theorems) do not need.
        mg = [frozenset(g) for g in reps[0]["groups"]]
        if set(mg) == set(got):
            ctx.dist["group_order_as_model" if mg == got else "group_order_differs_from_model"] += 1
    return out


def warm_up(warm, cb, base, plan0, report):
    """what happens to the CodeBase object before the first edit when stage 0 is not judged"""
    if warm == "iter":
        list(cb)
    elif warm == "contains":
        for e in plan0["entries"]:
            (base / e["p"]) in cb  # noqa: B015
    elif warm == "printed":
        with contextlib.redirect_stdout(io.StringIO()):
            report.duplicates(cb, io.StringIO())
    # "none": the object is only constructed


def check_case(ctx, drv, plan, origin, full=True):
    core.import_codebasin()
    from codebasin import CodeBase, report

    hist = plan.get("history") or []
    stages = stage_plans(plan)
    api = plan["mode"] != "cli" or full
    warm = plan.get("warm", "find") if hist and api else "find"  # CLI only: every stage is a separate process
    outs = []
    if hist:
        ctx.dist[f"hist:stages={len(hist)}"] += 1
        ctx.dist[f"hist:before-first-edit={warm}"] += 1
        for edits in hist:
            for ed in edits:
                ctx.dist["hist:edit:" + ed["op"] + (":" + ed["e"]["k"] if ed["op"] == "add" else "")] += 1
    with core.Scratch() as d:
        base = Path(d).resolve()
        materialise(stages[0], base)
        cb = None
        prev = None
        for i, pl in enumerate(stages):
            if i:
                c16gen.apply_on_disk(base, hist[i - 1])
            if api and cb is None:
                # ONE object for the whole history
                cb = CodeBase(*[str(base / x) for x in plan["dirs"]], exclude_patterns=list(plan["excludes"]))
            case = {"plan": plan, "origin": origin}
            if hist:
                case["stage"] = i
            if i == 0 and warm != "find":
                try:
                    if api:
                        warm_up(warm, cb, base, pl, report)
                    outs.append({"before_first_edit": warm})
                except Exception as e:  # noqa
                    ctx.violation(f"{warm} on a fresh CodeBase raised {type(e).__name__}: {e}", case)
                    outs.append({"before_first_edit": warm, "raised": str(e)})
                m0, _ = members_of(pl, base)
                prev = None if m0 is None else sorted(sorted(g) for g in oracle(pl, m0))
                continue
            o = judge(ctx, drv, plan, pl, base, cb, case, full, report, i, origin)
            if i and "spec" in o:
                if prev is not None and prev != o["spec"]:
                    ctx.dist["hist:edits-change-the-partition"] += 1
            prev = o.get("spec", prev)
            outs.append(o)
    return {"stages": outs} if hist else outs[0]


# ---------------------------------------------------------------------------
def fixed_plans():
    """hand-written shapes that must always be present"""
    A, B, E = b"int f(void);\n".hex(), b"int f(void);\r".hex(), b"".hex()
    big = (b"x" * 9000).hex()
    big2 = (b"x" * 8999 + b"y").hex()
    return [
        {"mode": "api", "dirs": ["root"], "excludes": [], "entries": [
            {"p": "root/a.c", "k": "file", "hex": A}, {"p": "root/b.h", "k": "file", "hex": A},
            {"p": "root/sub/c.cpp", "k": "file", "hex": A}, {"p": "root/d.c", "k": "file", "hex": B},
            {"p": "root/e.c", "k": "file", "hex": B}, {"p": "root/u.c", "k": "file", "hex": "41"},
            {"p": "root/l.c", "k": "symlink", "to": "root/u.c", "abs": False}]},
        {"mode": "api", "dirs": ["root"], "excludes": ["excl/"], "entries": [
            {"p": "root/e1.c", "k": "file", "hex": E}, {"p": "root/e2.f90", "k": "file", "hex": E},
            {"p": "root/excl/t.c", "k": "file", "hex": A}, {"p": "root/t.c", "k": "file", "hex": A},
            {"p": "outside/t.c", "k": "file", "hex": A}, {"p": "root/t.txt", "k": "file", "hex": A},
            {"p": "root/s.c", "k": "symlink", "to": "outside/t.c", "abs": True}]},
        {"mode": "api", "dirs": ["root"], "excludes": [], "entries": [
            {"p": "root/big1.c", "k": "file", "hex": big}, {"p": "root/big2.c", "k": "file", "hex": big2},
            {"p": "root/big3.c", "k": "file", "hex": big}, {"p": "root/big4.c", "k": "file", "hex": big2},
            {"p": "root/big5.c", "k": "file", "hex": big2}]},
        {"mode": "api", "dirs": ["root", "root/sub"], "excludes": [], "entries": [
            {"p": "root/sub/a.c", "k": "file", "hex": A}, {"p": "root/sub/b.c", "k": "file", "hex": A},
            {"p": "root/c.c", "k": "file", "hex": "00"}, {"p": "root/h.c", "k": "hardlink", "to": "root/c.c"}]},
        # ordered exclude list: a directory's files excluded, one taken back, an extension excluded, one taken back,
        # a repeat of the first pattern BEFORE the negation (no effect), a negation before its pattern (no effect)
        {"mode": "api", "dirs": ["root"], "oracle": "git",
         "excludes": ["!u.h", "lib/*", "*.h", "lib/*", "!lib/k.c", "!**/g.h", "u.h"], "entries": [
            {"p": "root/lib/k.c", "k": "file", "hex": A}, {"p": "root/lib/j.c", "k": "file", "hex": A},
            {"p": "root/m.c", "k": "file", "hex": A}, {"p": "root/sub/g.h", "k": "file", "hex": B},
            {"p": "root/o.c", "k": "file", "hex": B}, {"p": "root/u.h", "k": "file", "hex": B},
            {"p": "root/v.h", "k": "file", "hex": B}, {"p": "root/w.c", "k": "file", "hex": "41"}]},
        # history: object constructed and reported on; then twins added (existing and new directory), a twin deleted,
        # a twin overwritten by a same-size near-duplicate, a unique file overwritten into a class, a rename out of the code base
        {"mode": "api", "dirs": ["root"], "excludes": ["excl/"], "warm": "find", "entries": [
            {"p": "root/a.c", "k": "file", "hex": A}, {"p": "root/b.c", "k": "file", "hex": A},
            {"p": "root/c.c", "k": "file", "hex": B}, {"p": "root/d.c", "k": "file", "hex": "41"},
            {"p": "root/e.c", "k": "file", "hex": E}, {"p": "root/p.c", "k": "file", "hex": big},
            {"p": "root/q.c", "k": "file", "hex": big}],
         "history": [
            [{"op": "add", "e": {"p": "root/sub/c2.h", "k": "file", "hex": B}},
             {"op": "add", "e": {"p": "root/fresh/e1.h", "k": "file", "hex": E}},
             {"op": "add", "e": {"p": "root/fresh/e2.h", "k": "file", "hex": E}},
             {"op": "add", "e": {"p": "root/excl/a3.c", "k": "file", "hex": A}}],
            [{"op": "del", "p": "root/b.c"}, {"op": "write", "p": "root/q.c", "hex": big2},
             {"op": "write", "p": "root/d.c", "hex": B}],
            [{"op": "move", "p": "root/sub/c2.h", "to": "root/sub/c2.txt"}, {"op": "add", "e": {"p": "root/b.c", "k": "file", "hex": A}}]]},
        # history on an object that was only constructed before the edits
        {"mode": "api", "dirs": ["root", "root2"], "excludes": [], "warm": "none", "entries": [
            {"p": "root/a.c", "k": "file", "hex": A}, {"p": "root2/u.c", "k": "file", "hex": "41"}],
         "history": [[{"op": "add", "e": {"p": "root2/a.c", "k": "file", "hex": A}}]]},
    ]


def run(ctx, drv):
    ctx.rule = ("inputs = generated code bases (1-2 directories, nested sub-directories, 0-14 source files with contents drawn "
                "from a pool of 1-6 byte strings containing near-duplicates: last/first/middle byte changed, one byte longer/shorter, "
                "empty, > 8 KiB; plus twins with unrecognised extension, outside the root, excluded by patterns, hard links, "
                "symlinks to members/outside/dangling/directories; every file has the same mtime). Three streams of them: "
                "(1) 'random': exclude list = subset of five fixed pattern forms (hand-written ground truth), one report on a fresh CodeBase; "
                "(2) 'excl-git': exclude list = ORDERED gitignore-style list of 1-7 patterns derived from the files (file-, directory- and "
                "catch-all patterns, negations after/before the pattern they amend, re-exclusions, exact repeats); membership for the "
                "oracle = `git check-ignore` on that ordered list; lists on which pathspec and git differ are counted and not judged; "
                "(3) 'history': ONE CodeBase object is constructed and (by draw) reported on / iterated / queried / left untouched, then 1-3 "
                "stages of 1-4 edits each are applied to the tree (add file to an existing or new directory, delete, overwrite with same-size "
                "or other-size content, rename inside / into excluded places / to an unrecognised extension / outside, regular file <-> "
                "symlink, add hard link / symlink) and after every stage the report of the SAME object is compared with the byte-wise "
                "partition of the edited plan (30 % of the histories use stream-2 exclude lists). "
                "Each observation goes through find_duplicates (real sha512 and interposed weak digests: 3 at stage 0, 1 per later stage), "
                "the printed report, and (CLI streams 'random-cli', 'excl-git-cli': list split between -x and [codebase] exclude; "
                "'history-cli': one process per stage) `codebasin -R duplicates`. "
                "Non-trivial = distinct code base (paths, kinds, content classes, directories, ordered patterns; for later stages also the "
                "stage number) whose byte-wise partition has >= 1 class of size >= 2 AND >= 1 regular member with unique content.")
    ctx.assumptions += [
        "hashlib.file_digest and filecmp.cmp(shallow=False) are modelled as 'a function of the bytes' and 'equality of the bytes'",
        "membership of a file in the code base is ground truth of the generator for the oracle (five simple pattern forms, or "
        "`git check-ignore --no-index` on the ordered list for the excl-git stream, restricted to lists on which pathspec agrees "
        "with git on every candidate file) and CodeBase.__contains__ as observed for the model input (membership itself is property C09); "
        "the Lean model does not contain the pattern language: a wrong exclude list is detected by the implementation-vs-oracle "
        "comparison and shows up as a correspondence break only through the observed `member` flags",
        "files do not change while ONE report is computed (they do change between the reports of a history; the model is fed "
        "with a walk made by the harness at the time of each report); one path denotes one file (hypothesis Functional of the theorems)",
        "histories are observed through the Python API (one object) and through separate CLI processes; finder.find / get_setmap "
        "are not used as the first consumer of the object (list(), `in`, find_duplicates and report.duplicates are)",
        "weak digests are interposed in the harness process only (hashlib.file_digest monkeypatched around the call); the repository is not modified",
    ]
    for f in sorted((core.VERIF / "corpus" / "C16").glob("*.json")):
        check_case(ctx, drv, json.loads(f.read_text())["plan"], "corpus:" + f.name)
    for i, p in enumerate(fixed_plans()):
        check_case(ctx, drv, p, f"fixed{i}")
    def stream(n, origin, full=True, **kw):
        for _ in range(n):
            if len(ctx.violations) >= 20:
                break
            ctx.dist["stream:" + origin] += 1
            check_case(ctx, drv, gen_plan(ctx.rng, **kw), origin, full=full)

    stream(ctx.n(600, 3500), "random", mode="api")
    stream(ctx.n(150, 900), "excl-git", mode="api", excl="git")
    stream(ctx.n(110, 660), "history", mode="api", history=True)
    stream(ctx.n(50, 300), "history+excl-git", mode="api", excl="git", history=True)
    stream(ctx.n(12, 80), "random-cli", full=False, mode="cli")
    stream(ctx.n(14, 90), "excl-git-cli", full=False, mode="cli", excl="git")
    stream(ctx.n(4, 24), "history-cli", full=False, mode="cli", history=True)


def search(ctx, drv):
    run(ctx, drv)


def replay(ctx, drv, case):
    plan = case["plan"]
    c2 = core.Ctx(ctx.prop, "quick", 0)
    out = check_case(c2, drv, plan, "replay", full=case.get("origin", "").endswith("-cli") is False)
    out["violations"] = [w for w, _ in c2.violations]
    out["known_findings"] = sorted(c2.known_seen)
    out["correspondence_breaks"] = [b["op"] for b in c2.corr_breaks]
    return out
