/-!
Character classes of free-form Fortran source text (vocabulary shared by the
model of `fortran_cleaner` and by the reference scanner).  Core Lean only.

Every transition of the cleaner and of the reference is decided by the class of
the character; the character itself is only carried into the output buffer.
-/
namespace CbiVerif.Fortran

/-- the nine classes the code distinguishes -/
inductive Cls | bang | amp | dq | sq | dollar | alpha | ws | bslash | other
deriving DecidableEq, Repr, Inhabited

/-- Python `str.isspace` on the code points that can occur (ASCII + NEL + NBSP) -/
def pyIsSpace (c : Char) : Bool :=
  let n := c.toNat
  (9 ≤ n && n ≤ 13) || (28 ≤ n && n ≤ 32) || n == 133 || n == 160

/-- class of a character.  `Char.isAlpha` is ASCII-only whereas Python's `str.isalpha` is
Unicode-aware: texts with non-ASCII characters are outside the reference's `WF`. -/
def cls (c : Char) : Cls :=
  if c == '!' then .bang
  else if c == '&' then .amp
  else if c == '"' then .dq
  else if c == '\'' then .sq
  else if c == '$' then .dollar
  else if c == '\\' then .bslash
  else if pyIsSpace c then .ws
  else if c.isAlpha then .alpha
  else .other

def isWs (c : Char) : Bool := cls c == .ws

end CbiVerif.Fortran
