import CbiVerif.Dups
/-! C16: hash bucketing on top of the confirmation loop: exact classes for ANY hash of the content. -/
namespace CbiVerif.Dups
variable {F C H : Type} [DecidableEq F] [DecidableEq C] [DecidableEq H]

/-- find_duplicates: bucket by `hash ∘ content`, confirm inside buckets with more than one file -/
def findDups (content : F → C) (hash : C → H) (files : List F) : List (List F) :=
  ((files.map (hash ∘ content)).eraseDups).flatMap fun h =>
    let bucket := files.filter (fun f => hash (content f) == h)
    if bucket.length > 1 then confirm content bucket.length bucket else []

theorem findDups_sound (content : F → C) (hash : C → H) (files : List F) :
    ∀ g ∈ findDups content hash files, 2 ≤ g.length ∧ ∀ a ∈ g, ∀ b ∈ g, content a = content b := by
  intro g hg
  simp only [findDups, List.mem_flatMap] at hg
  obtain ⟨h, _, hg⟩ := hg
  split at hg
  · exact ⟨confirm_size content _ _ g hg, confirm_mem_same content _ _ g hg⟩
  · simp at hg

theorem findDups_complete (content : F → C) (hash : C → H) (files : List F)
    (a b : F) (ha : a ∈ files) (hb : b ∈ files) (hab : a ≠ b) (hc : content a = content b) :
    ∃ g ∈ findDups content hash files, a ∈ g ∧ b ∈ g := by
  let h := hash (content a)
  have hmem : h ∈ (files.map (hash ∘ content)).eraseDups := by
    rw [List.mem_eraseDups]
    exact List.mem_map.mpr ⟨a, ha, rfl⟩
  have hA : a ∈ files.filter (fun f => hash (content f) == h) := List.mem_filter.mpr ⟨ha, by simp [h]⟩
  have hB : b ∈ files.filter (fun f => hash (content f) == h) := List.mem_filter.mpr ⟨hb, by simp [h, hc]⟩
  have hlen : (files.filter (fun f => hash (content f) == h)).length > 1 := by
    apply Classical.byContradiction
    intro hcon
    match hl : files.filter (fun f => hash (content f) == h) with
    | [] => rw [hl] at hA; simp at hA
    | [x] => rw [hl] at hA hB; simp at hA hB; exact hab (hA.trans hB.symm)
    | x :: y :: r => rw [hl] at hcon; simp at hcon
  obtain ⟨g, hg, hag, hbg⟩ := confirm_complete content _ _ (Nat.le_refl _) a b hA hB hab hc
  refine ⟨g, ?_, hag, hbg⟩
  simp only [findDups, List.mem_flatMap]
  exact ⟨h, hmem, by simp only [hlen, if_true]; exact hg⟩

end CbiVerif.Dups
