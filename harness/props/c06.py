"""C06 — every counted line lands in exactly one platform set; all reports agree.

Implementation (real code, from core.REPO):
  finder.ParserState.get_setmap, report.summary, report.files / FileTree.insert / _print (--prune, --levels),
  coverage.__main__._compute, and the three command-line front ends `codebasin`, `codebasin.tree`,
  `codebasin.coverage compute` run as subprocesses.
Model (Lean, driver op "c06"): CbiVerif.SM.getSetmap / fileSetmap, CbiVerif.FTm.filesTree / print / figures,
  CbiVerif.Summary.rows, CbiVerif.Cov.compute — the definitions the theorems of Props/C06.lean are about.
Property oracle (this file, independent of the code and of the Lean model): the per-line attribution
  {file: {line: platform set}}; every report is recomputed from it with exact Fractions.

Five input streams:
  fab  fabricated analysis states (real ParserState / CodeNode objects filled by hand) over a real directory
       skeleton with nested directories and file symlinks: volume for get_setmap / summary / files;
  gen  generated C code bases (harness/gen/codebase.py + extra symlinks and deep directories) analysed in-process,
       all reports called in-process (StringIO), coverage `_compute` called in-process;
  cli  a subset of the gen code bases additionally run through the three CLIs (thread pool of subprocesses);
  txt  (harness/props/c06_text.py) generated code bases (C-family and free-form Fortran files) WITHOUT includes and links, given to the model as SOURCE TEXT:
       the composed pipeline C05 parser model -> C01 associator per -D list -> platform sets -> get_setmap / coverage
       (driver op "c06text", theorems of Props/C06Compose.lean) against finder.find, get_setmap, summary and the real
       coverage `_compute`; the oracle there is the C05 specification's counted lines + the C01 reference machine;
       the texts are written with LF, CRLF or lone-CR line endings (the model takes the universal-newline image);
  inc  (harness/props/c06_inc.py + harness/gen/c06mix.py) code bases WITH #include / -include, C / C++ and Fortran units
       sharing headers, per-platform forced configuration headers, CRLF / lone CR / Latin-1 / UTF-8 bytes: the per-line
       attribution is judged against `gcc -E` / `gfortran -cpp -E` of every compile command (marker lines) and against
       each platform analysed alone; every report and the coverage export (partition + SHA-512 of the bytes) against that.
The gen / cli code bases also carry byte-level variety (CRLF, lone CR, Latin-1 / UTF-8 comment bytes, no final newline):
the content hash of the coverage export is the SHA-512 of the BYTES on disk, whatever the parser's text-mode image is.
       (driver op "c06text", theorems of Props/C06Compose.lean; Fortran files through the C17 parser model, theorems of
       Props/C06Fortran.lean) against finder.find, get_setmap, summary and the real coverage `_compute`; the oracle there
       is the C05 resp. C17 specification's counted lines + the C01 reference machine.
"""
from __future__ import annotations

import argparse
import collections
import concurrent.futures
import contextlib
import hashlib
import io
import json
import os
import random
import re
from fractions import Fraction

from harness import core
from harness.gen import codebase as G
from harness.props import c06_inc, c06_text

TOL = Fraction(5, 1000) + Fraction(1, 10 ** 9)
PLATS = ["cpu", "gpu", "fpga", "arm", "dsp", "npu"]


# --------------------------------------------------------------------------
# small helpers
# --------------------------------------------------------------------------
def frac(s):
    if s is None:
        return None
    n, d = s.split("/")
    return Fraction(int(n), int(d))


def close(printed: str, exact) -> bool:
    """a printed 2-decimal figure against the exact rational (None = nan)"""
    printed = printed.strip()
    if exact is None:
        return printed == "nan"
    if printed == "nan":
        return False
    try:
        return abs(Fraction(printed) - exact) <= TOL
    except (ValueError, ZeroDivisionError):
        return False


def fmt(q):
    return "nan" if q is None else f"{float(q):.4f}"


def human(x: int) -> str:
    """report._human_readable, re-stated"""
    d = len(str(x))
    if d <= 3:
        return str(x)
    if d <= 6:
        return f"{x / 10 ** 3:.1f}k"
    if d <= 9:
        return f"{x / 10 ** 6:.1f}M"
    if d <= 12:
        return f"{x / 10 ** 9:.1f}G"
    return "******"


def key_of(ps):
    return tuple(sorted(ps))


def sort_keys(keys):
    return sorted(keys, key=lambda k: (len(k), list(k)))


def row_name(k):
    return "{" + ", ".join(k) + "}"


# ---- figures from a Counter {key tuple: count} (the property's definitions, exact)
def figures(cnt, root_plats):
    """(letters, sloc, coverage, avg) of a node whose lines are counted in `cnt`, in a tree whose root uses `root_plats`"""
    plats = sorted(set(p for k in cnt for p in k))
    allp = sorted(root_plats)
    letters = "".join(chr(65 + i) if p in plats else "-" for i, p in enumerate(allp))
    total = sum(cnt.values())
    sel = allp if allp else plats
    if total == 0:
        cov = None
    else:
        cov = Fraction(100 * sum(c for k, c in cnt.items() if any(p in sel for p in k)), total)
    if not sel or total == 0:
        avg = None
    else:
        avg = sum(Fraction(100 * sum(c for k, c in cnt.items() if p in k), total) for p in sel) / len(sel)
    return letters, total, cov, avg


# --------------------------------------------------------------------------
# parsing of the printed reports
# --------------------------------------------------------------------------
TREE_ROW = re.compile(r"^\[([A-Z-]*) \|\s*(\S+) \|\s*(\S+) \|\s*(\S+)\] (.*)$")
TREE_REST = re.compile(r"^((?:[| ] )*)([|\\]?)(o|-o|--) (.*)$")


def parse_tree(out):
    """-> (legend [platform], rows [dict(letters, sloc, cov, avg, text, depth, dir, name, line)]) or None if malformed"""
    out = G.ANSI.sub("", out)
    legend, rows = [], []
    for line in out.splitlines():
        m = re.match(r"^([A-Z]): (.*)$", line)
        if m and not rows:
            legend.append(m.group(2))
            continue
        m = TREE_ROW.match(line)
        if not m:
            continue
        mm = TREE_REST.match(m.group(5))
        if not mm:
            return None
        pre, conn, stub, name = mm.groups()
        rows.append(dict(letters=m.group(1), sloc=m.group(2), cov=m.group(3), avg=m.group(4), text=pre + conn + stub,
                         depth=len(pre) // 2 + (1 if conn else 0), dir=stub.endswith("o"), name=name, line=line))
    return legend, rows


def rows_with_paths(rows, root):
    """attach the path below the root (tuple of components) to every parsed row; returns None when the shape is broken"""
    stack = []
    out = []
    for i, r in enumerate(rows):
        if i == 0:
            if r["depth"] != 0 or not r["dir"]:
                return None
            out.append(dict(r, path=(), link=None))
            continue
        d = r["depth"]
        if d < 1 or d > len(stack) + 1:
            return None
        stack = stack[: d - 1]
        name, link = r["name"], None
        if r["dir"]:
            if not name.endswith("/"):
                return None
            name = name[:-1]
        elif " -> " in name:
            name, link = name.split(" -> ", 1)
        stack.append(name)
        out.append(dict(r, path=tuple(stack), link=link))
    return out


# --------------------------------------------------------------------------
# the analysis result in the shape the model takes, and the per-line attribution
# --------------------------------------------------------------------------
def analysis_result(cb, st, root):
    """[(relpath components, is_symlink, [(platform set, num_lines, lines)])] in the enumeration order of the code base"""
    from codebasin.preprocessor import CodeNode

    files = []
    for f in cb:
        tree, m = st.get_tree(f), st.get_map(f)
        nodes = [[sorted(m[n]), int(n.num_lines), [int(x) for x in n.lines]] for n in tree.walk() if isinstance(n, CodeNode)]
        files.append({"path": os.path.relpath(f, root).split(os.sep), "link": os.path.islink(f), "nodes": nodes})
    return files


def attribution_of(files):
    """{path tuple: (is_link, {line: key})} and the list of well-formedness problems of the analysis result"""
    att, problems = {}, []
    for f in files:
        d = {}
        for ps, n, lines in f["nodes"]:
            if n != len(lines):
                problems.append(f"{'/'.join(f['path'])}: node with num_lines={n} but {len(lines)} lines")
            for ln in lines:
                if ln in d:
                    problems.append(f"{'/'.join(f['path'])}: line {ln} in two nodes")
                d[ln] = key_of(ps)
        att[tuple(f["path"])] = (f["link"], d)
    return att, problems


def expected_setmap(att):
    cnt = collections.Counter()
    for _, (link, d) in att.items():
        if not link:
            cnt.update(d.values())
    return cnt


# --------------------------------------------------------------------------
# comparison of one printed summary / tree / coverage export with oracle and model
# --------------------------------------------------------------------------
class Verdict:
    def __init__(self):
        self.spec = []  # implementation contradicts the property (oracle)
        self.model = []  # implementation differs from the Lean model

    def s(self, msg):
        if len(self.spec) < 6:
            self.spec.append(msg)

    def m(self, msg):
        if len(self.model) < 6:
            self.model.append(msg)


def check_summary(v, where, out, exp_cnt, model):
    """`out` = printed summary, exp_cnt = Counter from the attribution, model = driver reply"""
    rows, total, _ = G.parse_summary(out)
    if total is None or (not rows and exp_cnt):
        v.m(f"{where}: summary output cannot be parsed (layout changed?)")
        return [], total
    got = [(key_of(k), c, pct) for k, (c, pct) in rows.items()]
    sloc = sum(exp_cnt.values())
    want = [(k, exp_cnt[k]) for k in sort_keys(exp_cnt)]
    if [(k, c) for k, c, _ in got] != want:
        v.s(f"{where}: summary rows {[(row_name(k), c) for k, c, _ in got]} but the lines give {[(row_name(k), c) for k, c in want]}")
    else:
        for k, c, pct in got:
            if not close(pct, Fraction(100 * c, sloc)):
                v.s(f"{where}: row {row_name(k)} prints {pct}% for {c}/{sloc}")
    if total != sloc:
        v.s(f"{where}: Total SLOC {total} but {sloc} counted lines")
    if model is not None:
        ms = model["summary"]
        if ms is None:
            v.m(f"{where}: model predicts ZeroDivisionError, implementation printed a table")
        else:
            if [(row_name(k), c) for k, c, _ in got] != [(n, c) for n, c, _ in ms["rows"]] or total != ms["total"]:
                v.m(f"{where}: summary rows/total differ from the model: {got} / {total} vs {ms}")
            elif any(not close(pct, frac(p)) for (_, _, pct), (_, _, p) in zip(got, ms["rows"])):
                v.m(f"{where}: summary percentages differ from the model")
    return got, total


def check_tree(v, where, out, root, att, prune, levels, model_tree, full_lines=None, summary_cnt=None):
    """one printed tree against the attribution (property) and the model rows.
    Returns the list of row lines (for the levels comparison)."""
    parsed = parse_tree(out)
    if parsed is None:
        v.m(f"{where}: tree output cannot be parsed (layout changed?)")
        return None
    legend, rows = parsed
    prow = rows_with_paths(rows, root)
    if not rows or prow is None:
        v.m(f"{where}: tree output has no rows / a shape the harness cannot read (layout changed?)")
        return None
    lines = [r["line"] for r in rows]
    if rows[0]["name"] != root + "/":
        v.s(f"{where}: first row is not the root directory")
    # files that must be listed
    used = {p: any(k for k in d.values()) for p, (_, d) in att.items()}
    listed_files = [p for p in att if (used[p] or not prune)]
    # counts per listed non-link file, root platforms
    root_cnt = collections.Counter()
    for p in listed_files:
        link, d = att[p]
        if not link:
            root_cnt.update(d.values())
    root_plats = sorted(set(x for k in root_cnt for x in k))
    if legend != root_plats:
        v.s(f"{where}: legend {legend} but the listed files use {root_plats}")
    if levels is None:
        frows = [r for r in prow if not r["dir"]]
        got_files = sorted(r["path"] for r in frows)
        if got_files != sorted(listed_files):
            missing = sorted(set(listed_files) - set(got_files))
            extra = sorted(set(got_files) - set(listed_files))
            dup = [p for p, c in collections.Counter(got_files).items() if c > 1]
            v.s(f"{where}: files listed != files {'some platform uses' if prune else 'of the code base'}: "
                f"missing {['/'.join(p) for p in missing]}, unexpected {['/'.join(p) for p in extra]}, repeated {['/'.join(p) for p in dup]}")
    # every row's figures
    for r in prow:
        if r["dir"]:
            cnt = collections.Counter()
            for p in listed_files:
                link, d = att[p]
                if not link and p[: len(r["path"])] == r["path"]:
                    cnt.update(d.values())
            if levels is None:
                # "the sums over the files listed beneath it" — also literally over the printed file rows
                beneath = [q for q in prow if not q["dir"] and q["link"] is None and q["path"][: len(r["path"])] == r["path"]]
                if all(q["sloc"].isdigit() for q in beneath) and r["sloc"].isdigit():
                    if int(r["sloc"]) != sum(int(q["sloc"]) for q in beneath):
                        v.s(f"{where}: directory {'/'.join(r['path']) or '<root>'} shows {r['sloc']} SLOC but the files listed beneath it add up to {sum(int(q['sloc']) for q in beneath)}")
        else:
            if r["path"] not in att:
                continue
            link, d = att[r["path"]]
            cnt = collections.Counter(d.values())
            if (r["link"] is not None) != link:
                v.s(f"{where}: {'/'.join(r['path'])} symlink marking wrong")
            elif link and r["link"] != os.path.realpath(os.path.join(root, *r["path"])):
                v.s(f"{where}: symlink {'/'.join(r['path'])} printed with target {r['link']}")
        letters, sloc, cov, avg = figures(cnt, root_plats)
        if r["letters"] != letters or r["sloc"] != human(sloc) or not close(r["cov"], cov) or not close(r["avg"], avg):
            v.s(f"{where}: row {'/'.join(r['path']) or '<root>'} prints [{r['letters']} | {r['sloc']} | {r['cov']} | {r['avg']}] "
                f"but its lines give [{letters} | {human(sloc)} | {fmt(cov)} | {fmt(avg)}]")
    # the unpruned root is the summary
    if not prune and summary_cnt is not None:
        if human(sum(summary_cnt.values())) != prow[0]["sloc"]:
            v.s(f"{where}: unpruned root shows {prow[0]['sloc']} SLOC, the summary total is {sum(summary_cnt.values())}")
    # levels only hide
    if levels is not None and full_lines is not None:
        fl = parse_tree("\n".join(full_lines))[1]
        want = [r["line"] for r in fl if r["depth"] <= levels]
        if lines != want:
            v.s(f"{where}: rows with --levels {levels} are not the unlimited rows of depth <= {levels}")
    # model
    if model_tree is not None:
        if legend != model_tree["legend"]:
            v.m(f"{where}: legend {legend} vs model {model_tree['legend']}")
        mrows = model_tree["rows"]
        if len(mrows) != len(prow):
            v.m(f"{where}: {len(prow)} rows vs {len(mrows)} in the model")
        else:
            for r, m in zip(prow, mrows):
                name = m["name"]
                if m["dir"]:
                    name += "/"
                elif m["link"]:
                    name += " -> " + (r["link"] or "")
                ok = (r["text"] == m["text"] and r["depth"] == m["depth"] and r["dir"] == m["dir"] and r["name"] == name
                      and (r["link"] is not None) == (m["link"] and not m["dir"]) and r["letters"] == m["letters"]
                      and r["sloc"] == human(m["sloc"]) and close(r["cov"], frac(m["cov"])) and close(r["avg"], frac(m["avg"])))
                if not ok:
                    v.m(f"{where}: row {r['line']!r} vs model {json.dumps({k: m[k] for k in ('text', 'name', 'letters', 'sloc', 'cov', 'avg', 'link')})}")
                    break
    return lines


def check_coverage(v, where, cov, root, files1, model):
    """coverage export (parsed JSON) against the single-platform analysis result `files1`"""
    att1, _ = attribution_of(files1)
    want = {}
    for p, (is_link, d) in att1.items():
        if is_link:
            continue  # a link to a member has no record of its own: the member's record carries the lines once (C15)
        want["/".join(p)] = (sorted(ln for ln, k in d.items() if k), sorted(ln for ln, k in d.items() if not k))
    got = {}
    for rec in cov:
        if rec["file"] in got:
            v.s(f"{where}: coverage lists {rec['file']} twice")
        got[rec["file"]] = rec
    if sorted(got) != sorted(want):
        v.s(f"{where}: coverage lists {sorted(got)} but the code base is {sorted(want)}")
    for f, rec in got.items():
        if f not in want:
            continue
        u, un = want[f]
        if sorted(rec["used_lines"]) != u or sorted(rec["unused_lines"]) != un:
            v.s(f"{where}: coverage of {f}: used {rec['used_lines']} unused {rec['unused_lines']}; the attribution gives used {u} unused {un}")
        if len(set(rec["used_lines"]) | set(rec["unused_lines"])) != len(rec["used_lines"]) + len(rec["unused_lines"]):
            v.s(f"{where}: coverage of {f} lists a line twice")
        with open(os.path.join(root, f), "rb") as fh:
            h = hashlib.sha512(fh.read()).hexdigest()
        if rec["id"] != h:
            v.s(f"{where}: content hash of {f} is not the SHA-512 of its bytes")
    if model is not None:
        mc = [("/".join(r["path"]), r["used"], r["unused"]) for r in model["coverage"]]
        gc = [(r["file"], r["used_lines"], r["unused_lines"]) for r in cov]
        # record order (sorted by file name since the D29 repair) is C14's subject; here the records are compared as a set
        if sorted(mc) != sorted(gc):
            v.m(f"{where}: coverage records differ from the model (first: {next(((a, b) for a, b in zip(gc, mc) if a != b), (len(gc), len(mc)))})")


def check_setmap(v, where, setmap, exp_cnt, model):
    got = {key_of(k): c for k, c in setmap.items()}
    if {k: c for k, c in got.items() if c} != dict(exp_cnt):
        v.s(f"{where}: get_setmap = { {row_name(k): c for k, c in got.items()} } but the lines give { {row_name(k): c for k, c in exp_cnt.items()} }")
    if model is not None:
        ms = {tuple(k): c for k, c in model["setmap"]}
        if ms != got:
            v.m(f"{where}: get_setmap {got} vs model {ms}")
        sp = model["spec"]
        if sp["wf"] and ({tuple(k): c for k, c in sp["rows"]} != dict(exp_cnt) or sp["sloc"] != sum(exp_cnt.values())):
            v.m(f"{where}: Lean spec rows differ from the harness oracle")


# --------------------------------------------------------------------------
# running the real code in-process
# --------------------------------------------------------------------------
def impl_summary(setmap):
    from codebasin import report

    buf = io.StringIO()
    try:
        report.summary(setmap, stream=buf)
    except ZeroDivisionError:
        return None
    return buf.getvalue()


def impl_files(cb, st, prune, levels):
    from codebasin import report

    buf = io.StringIO()
    with contextlib.redirect_stdout(io.StringIO()):
        report.files(cb, st, stream=buf, prune=prune, levels=levels)
    return buf.getvalue()


def impl_coverage(root, dbpath, out):
    import codebasin.coverage.__main__ as cov

    args = argparse.Namespace(ifile=dbpath, ofile=out, source_dir=root, excludes=[])
    try:
        with contextlib.redirect_stdout(io.StringIO()):
            cov._compute(args)
    except SystemExit as e:
        if e.code not in (0, None):
            raise RuntimeError(f"coverage compute exited with {e.code}")
    with open(out) as f:
        return json.load(f)


VARIANTS = [(False, None), (True, None)]


def variants_for(rng, depth_max):
    """(prune, levels) combinations printed for one code base: both unlimited ones first"""
    vs = list(VARIANTS)
    ls = list(range(1, max(2, depth_max + 1)))
    vs.append((False, rng.choice(ls)))
    vs.append((True, rng.choice(ls)))
    return vs


def ask_model(drv, root, files, variants):
    if drv is None:
        return None
    return drv.ask({"op": "c06", "root": root, "files": files, "variants": [[p, l] for p, l in variants]})


def model_brief(model):
    """the driver reply in a readable, compact form (for --replay)"""
    if model is None:
        return None
    return {
        "setmap": {row_name(k): c for k, c in model["setmap"]},
        "summary": model["summary"],
        "trees": [[f"[{r['letters']} | {r['sloc']} | {r['cov']} | {r['avg']}] {r['text']} {r['name']}" for r in t["rows"]]
                  for t in model["trees"]],
        "coverage": [["/".join(r["path"]), r["used"], r["unused"]] for r in model["coverage"]],
        "spec": model["spec"],
    }


def nontrivial_key(files, exp_cnt):
    """non-trivial: >= 2 directories levels or a link, >= 2 distinct platform sets of which one non-empty, an unused line"""
    deep = any(len(f["path"]) >= 2 for f in files)
    sets = set(exp_cnt)
    if deep and len(sets) >= 2 and any(sets) and () in sets:
        return hashlib.sha1(json.dumps(files, sort_keys=True).encode()).hexdigest()
    return None


def record(ctx, v, case, stream):
    if v.spec:
        ctx.violation(f"[{stream}] " + "; ".join(v.spec[:3]), case)
    if v.model:
        ctx.corr_break("c06:" + stream, case, v.model[:3], "see replay")


# --------------------------------------------------------------------------
# stream 1: fabricated analysis states over a real directory skeleton
# --------------------------------------------------------------------------
class FakeTree:
    def __init__(self, nodes):
        self.nodes = nodes

    def walk(self):
        return iter(self.nodes)


def make_skeleton(rng, root):
    """create empty source files + file symlinks under root; returns (files [rel], links [(rel, target rel)])"""
    dirs = [""]
    for _ in range(rng.randint(1, 5)):
        base = rng.choice(dirs)
        d = os.path.join(base, rng.choice(["a", "b", "src", "inc", "x1", "lib"]))
        if d not in dirs and d.count(os.sep) < 4:
            dirs.append(d)
    files = []
    for i in range(rng.randint(1, 8)):
        p = os.path.join(rng.choice(dirs), f"f{i}.{rng.choice(['c', 'h', 'cpp', 'hpp'])}")
        files.append(p)
    links = []
    for i in range(rng.randint(0, 3)):
        tgt = rng.choice(files + [l for l, _ in links])
        d = rng.choice(dirs + ["links", "links/more"])
        links.append((os.path.join(d, f"l{i}.{rng.choice(['c', 'h', 'txt'])}"), tgt))
    for p in files:
        full = os.path.join(root, p)
        os.makedirs(os.path.dirname(full), exist_ok=True)
        open(full, "w").close()
    for ln, tgt in links:
        full = os.path.join(root, ln)
        os.makedirs(os.path.dirname(full), exist_ok=True)
        os.symlink(os.path.relpath(os.path.join(root, tgt), os.path.dirname(full)), full)
    return files, links


def fabricate(rng, files, zero=False):
    """random node lists per real file: [(platform list, num_lines, lines)]; with `zero` some nodes have no line at all"""
    nplat = rng.randint(0, 6)
    names = PLATS[:nplat]
    style = rng.random()
    out = {}
    for f in files:
        nodes, ln = [], 1
        if rng.random() < 0.12:
            out[f] = nodes  # a file without code (comment only)
            continue
        for _ in range(rng.randint(1, 6)):
            if style < 0.15:
                ps = []  # nobody uses anything
            elif style < 0.3:
                ps = list(names)
            else:
                ps = [p for p in names if rng.random() < rng.choice([0.15, 0.5, 0.85])]
            n = rng.choice([1, 1, 2, 3, 7, rng.randint(1, 40)])
            if zero and rng.random() < 0.6:
                n = 0
            ln += rng.randint(0, 3)
            nodes.append([sorted(ps), n, list(range(ln, ln + n))])
            ln += n
        out[f] = nodes
    return out


def fab_state(root, fab):
    """a real ParserState holding hand-made CodeNodes and associations"""
    from codebasin import finder
    from codebasin.preprocessor import CodeNode

    st = finder.ParserState(False)
    for rel, nodes in fab.items():
        real = os.path.realpath(os.path.join(root, rel))
        objs, amap = [], collections.defaultdict(set)
        for ps, n, lines in nodes:
            node = CodeNode(lines[0] if lines else -1, lines[-1] if lines else -1, n, None, lines=list(lines))
            objs.append(node)
            amap[node] = set(ps)
        st.trees[real] = FakeTree(objs)
        st.maps[real] = amap
    return st


def run_fab_one(ctx, drv, rng, root, files, links, origin):
    from codebasin import CodeBase

    # nodes without lines cannot come out of the parser (a logical line is emitted only when one of its physical lines
    # is counted): kept out of the stream, so that a change that differs only there raises no alarm
    zero = False
    fab = fabricate(rng, files, zero)
    st = fab_state(root, fab)
    cb = CodeBase(root)
    result = analysis_result(cb, st, root)
    att, problems = attribution_of(result)
    exp_cnt = expected_setmap(att)
    depth_max = max((len(f["path"]) for f in result), default=1)
    variants = variants_for(rng, depth_max)
    model = ask_model(drv, root, result, variants)
    case = {"kind": "fab", "files": files, "links": links, "fab": fab, "variants": variants, "origin": origin, "zero": zero}
    v = Verdict()
    for p in problems:
        v.m("fabricated result not well-formed: " + p)
    setmap = st.get_setmap(cb)
    check_setmap(v, "get_setmap", setmap, exp_cnt, model)
    out = impl_summary(setmap)
    if out is None:
        if sum(exp_cnt.values()) != 0 or not setmap:
            v.s("summary raises ZeroDivisionError although the code base has counted lines")
        elif model is not None and model["summary"] is not None:
            v.m("summary raises ZeroDivisionError, the model prints a table")
    else:
        check_summary(v, "summary", out, exp_cnt, model)
    full = {}
    for i, (prune, levels) in enumerate(variants):
        out = impl_files(cb, st, prune, levels)
        lines = check_tree(v, f"files(prune={prune}, levels={levels})", out, root, att, prune, levels,
                           model["trees"][i] if model else None, full_lines=full.get(prune), summary_cnt=exp_cnt)
        if levels is None:
            full[prune] = lines
    if zero:
        v.spec = []
        ctx.dist["fab:zero-line nodes (model comparison only)"] += 1
    ctx.count(key=f"fab:platforms={len(set(p for k in exp_cnt for p in k))}", nontrivial_key=nontrivial_key(result, exp_cnt))
    ctx.dist["fab:links=%d" % len(links)] += 1
    ctx.sample({"kind": "fab", "files": result[:3], "variants": variants}, cap=2)
    record(ctx, v, case, "fab")


def run_fab(ctx, drv, n_skeletons, per_skeleton, seconds=None):
    import time

    t0 = time.time()
    for k in range(n_skeletons):
        if seconds is not None and time.time() - t0 > seconds:
            ctx.notes.append(f"fab stream stopped by its time box ({seconds}s) after {k} of {n_skeletons} skeletons")
            break
        seed = ctx.rng.randrange(1 << 30)
        rng = random.Random(seed)
        with core.Scratch() as d:
            root = os.path.realpath(d)
            files, links = make_skeleton(rng, root)
            for j in range(per_skeleton):
                run_fab_one(ctx, drv, rng, root, files, links, f"fab:{seed}:{j}")


# --------------------------------------------------------------------------
# stream 2/3: generated code bases, in-process and through the CLIs
# --------------------------------------------------------------------------
def gen_desc(rng):
    """description of a code base: the shared generator + more symlinks, a deep directory, 0..4 platforms"""
    nplat = rng.choice([0, 1, 1, 2, 2, 3, 3, 4])
    desc = G.gen_codebase(rng, None, nplat=nplat, symlinks=rng.random() < 0.6, write=False)
    members = desc["sources"] + desc["headers"]
    if rng.random() < 0.5:
        p = "deep/er/and/deeper/d0.c"
        desc["texts"][p] = G.body(rng, 2, desc["headers"], p, [8], True, None, None)
        desc["sources"].append(p)
        for name, entries in desc["platforms"].items():
            if rng.random() < 0.6:
                entries.append({"file": p, "directory": ".", "arguments": ["gcc", "-DA=1", "-I", "include", "-c", p]})
    extra = []
    if rng.random() < 0.5:
        extra.append((f"links/only_{rng.randint(0, 9)}.c", rng.choice(members)))  # a directory holding only a symlink
    if rng.random() < 0.3:
        extra.append(("alias.txt", rng.choice(members)))  # membership is decided on the resolved path
    if rng.random() < 0.3 and (desc["links"] or extra):
        extra.append(("src/chain.h", rng.choice(desc["links"] + extra)[0]))  # symlink to a symlink
    if rng.random() < 0.2:
        extra.append(("dangling.c", "does/not/exist.c"))
    if rng.random() < 0.2 and "notes.txt" in [os.path.basename(t) for t in desc["texts"]]:
        extra.append(("fake.c", next(t for t in desc["texts"] if os.path.basename(t) == "notes.txt")))
    if rng.random() < 0.35:
        # a link inside the tree to a source file kept outside it: the target is not in the code base, so the link is not a
        # member and no report counts it
        desc["outside"] = {"ext.c": ["int outside_a;", "int outside_b;", "#ifdef A", "int outside_c;", "#endif"]}
        extra.append((rng.choice(["ext_link.c", "src/ext_link.c", "links/ext_link.c"]), "../outside/ext.c"))
    desc["links"] = desc["links"] + extra
    # byte-level variety (drawn last: the description up to here is the one older replays / seeds produced): files whose
    # text-mode image (universal newlines, errors="replace" decoding) is not their bytes
    desc["bytes"] = {}
    if rng.random() < 0.6:
        cand = [p for p in desc["texts"] if p.rsplit(".", 1)[-1] in ("c", "cpp", "cc", "h", "hpp")]
        for p in rng.sample(cand, min(len(cand), rng.randint(1, 3))):
            eol = rng.choice(["crlf", "crlf", "cr", "lf"])
            enc = rng.choice(["ascii", "latin-1", "latin-1", "utf-8"])
            body = desc["texts"][p]
            if enc != "ascii":
                word = rng.choice(["/* caf\u00e9 */", "// na\u00efve \u00fc\u00df", "/* d\u00e9j\u00e0 vu",  "// \u00a9 1998"])
                extra_lines = [word, "   still the comment */"] if word.startswith("/* d") else [word]
                if rng.random() < 0.5 or not body:
                    body[:0] = extra_lines
                else:
                    body += extra_lines
            desc["bytes"][p] = {"eol": eol, "enc": enc, "final_nl": not (body and rng.random() < 0.15)}
    # a twin: a second file with the same content next to a member (byte-identical, or identical up to the line endings /
    # comment bytes chosen above); a twin of a source gets compile commands of its own, a twin of a header is used by nobody -
    # every file has a record of its own in every report, whatever other files contain
    desc["twins"] = []
    if rng.random() < 0.3:
        cand = [p for p in desc["texts"] if p.rsplit(".", 1)[-1] in ("c", "cpp", "cc", "h", "hpp")]
        src = rng.choice(cand)
        twin = os.path.join(os.path.dirname(src), "twin_" + os.path.basename(src))
        desc["texts"][twin] = list(desc["texts"][src])
        if src in desc["bytes"] and rng.random() < 0.7:
            desc["bytes"][twin] = dict(desc["bytes"][src])
        desc["twins"].append([twin, src])
        if src in desc["sources"]:
            desc["sources"].append(twin)
            for name, entries in desc["platforms"].items():
                if rng.random() < 0.5:
                    defs = [f"-D{n}={rng.randint(0, 1)}" for n in G.NAMES if rng.random() < 0.5]
                    entries.append({"file": twin, "directory": ".", "arguments": ["gcc"] + defs + ["-I", "include", "-c", twin]})
    return desc


def materialise(root, desc):
    for name, body in (desc.get("outside") or {}).items():
        os.makedirs(os.path.join(os.path.dirname(root), "outside"), exist_ok=True)
        with open(os.path.join(os.path.dirname(root), "outside", name), "w") as f:
            f.write("\n".join(body) + "\n")
    G.write_codebase(root, desc)
    for p, b in (desc.get("bytes") or {}).items():
        eol = {"lf": "\n", "crlf": "\r\n", "cr": "\r"}[b["eol"]]
        lines = desc["texts"][p]
        text = eol.join(lines) + (eol if lines and b["final_nl"] else "")
        with open(os.path.join(root, p), "wb") as f:
            f.write(text.encode("utf-8" if b["enc"] == "ascii" else b["enc"]))
    if not desc["platforms"]:
        with open(os.path.join(root, "analysis.toml"), "w") as f:
            f.write("[platform]\n")
    # the log file of `codebasin` is created in the root: create it first so that directory enumeration is stable
    open(os.path.join(root, "cbi.log"), "a").close()


def cli_jobs(root, outdir, variants, plat):
    jobs = [("summary", "codebasin", ["-R", "summary", "analysis.toml"], root)]
    for i, (prune, levels) in enumerate(variants):
        args = (["--prune"] if prune else []) + (["--levels", str(levels)] if levels is not None else []) + ["analysis.toml"]
        jobs.append((f"tree{i}", "codebasin.tree", args, root))
    if plat is not None:
        jobs.append(("coverage", "codebasin.coverage",
                     ["compute", "-S", root, "-o", os.path.join(outdir, "coverage.json"), os.path.join(root, f"{plat}.json")], outdir))
    return jobs


def run_gen_one(ctx, drv, desc, origin, pool=None, replaying=False):
    """analyse one generated code base in-process, compare every report; with `pool` also run the CLIs"""
    g = gen_steps(ctx, drv, desc, origin, pool, replaying)
    return finish(g)


def finish(g):
    try:
        while True:
            next(g)
    except StopIteration as e:
        return e.value


def gen_steps(ctx, drv, desc, origin, pool=None, replaying=False):
    """generator: runs the in-process part (and submits the CLI jobs), yields, then collects the CLI results"""
    info = {}
    with core.Scratch() as d, core.Scratch() as outdir:
        root = os.path.join(os.path.realpath(d), "cb")      # the tree has a sibling directory `outside`
        os.makedirs(root)
        outdir = os.path.realpath(outdir)
        materialise(root, desc)
        plats = list(desc["platforms"])
        rng = random.Random(hashlib.sha1(json.dumps(desc, sort_keys=True).encode()).hexdigest())
        cb, st = G.analyse(root, plats)
        result = analysis_result(cb, st, root)
        att, problems = attribution_of(result)
        exp_cnt = expected_setmap(att)
        depth_max = max((len(f["path"]) for f in result), default=1)
        variants = variants_for(rng, depth_max)
        cov_plat = rng.choice(plats) if plats else None
        futures = {}
        if pool is not None:
            for name, mod, args, cwd in cli_jobs(root, outdir, variants, cov_plat):
                futures[name] = pool.submit(core.run_cli, mod, args, cwd)
        model = ask_model(drv, root, result, variants)
        case = {"kind": "gen", "desc": desc, "origin": origin, "cli": pool is not None}
        v = Verdict()
        for p in problems:
            v.s("analysis result: " + p)
        # ---- in-process
        setmap = st.get_setmap(cb)
        check_setmap(v, "get_setmap", setmap, exp_cnt, model)
        out = impl_summary(setmap)
        if out is None:
            v.s("summary raises ZeroDivisionError")
        else:
            check_summary(v, "summary", out, exp_cnt, model)
        full = {}
        for i, (prune, levels) in enumerate(variants):
            out = impl_files(cb, st, prune, levels)
            lines = check_tree(v, f"files(prune={prune}, levels={levels})", out, root, att, prune, levels,
                               model["trees"][i] if model else None, full_lines=full.get(prune), summary_cnt=exp_cnt)
            if levels is None:
                full[prune] = lines
        files1 = model1 = None
        if cov_plat is not None:
            cb1, st1 = G.analyse(root, [cov_plat])
            files1 = analysis_result(cb1, st1, root)
            model1 = ask_model(drv, root, files1, [])
            cov = impl_coverage(root, os.path.join(root, f"{cov_plat}.json"), os.path.join(outdir, "cov_inproc.json"))
            check_coverage(v, f"coverage({cov_plat})", cov, root, files1, model1)
            # coverage agrees with the multi-platform attribution restricted to that platform
            for p, (_, d1) in attribution_of(files1)[0].items():
                dm = att.get(p, (None, {}))[1]
                if {ln for ln, k in d1.items() if k} != {ln for ln, k in dm.items() if cov_plat in k}:
                    v.s(f"coverage({cov_plat}): used lines of {'/'.join(p)} differ from the lines the full analysis gives that platform")
        record(ctx, v, case, "gen")
        info["in-process"] = {"contradicts_property": v.spec, "differs_from_model": v.model}
        # ---- the command-line front ends
        yield info
        if pool is not None:
            vc = Verdict()
            res = {k: f.result() for k, f in futures.items()}
            for k, (rc, so, se) in res.items():
                if rc != 0:
                    vc.s(f"cli {k} exited with {rc}: {se[-200:]}")
            if res["summary"][0] == 0:
                check_summary(vc, "cli summary", res["summary"][1], exp_cnt, model)
            fullc = {}
            for i, (prune, levels) in enumerate(variants):
                rc, so, _ = res[f"tree{i}"]
                if rc != 0:
                    continue
                lines = check_tree(vc, f"cli tree(prune={prune}, levels={levels})", so, root, att, prune, levels,
                                   model["trees"][i] if model else None, full_lines=fullc.get(prune), summary_cnt=exp_cnt)
                if levels is None:
                    fullc[prune] = lines
            if "coverage" in res and res["coverage"][0] == 0:
                with open(os.path.join(outdir, "coverage.json")) as f:
                    covc = json.load(f)
                check_coverage(vc, f"cli coverage({cov_plat})", covc, root, files1, model1)
            record(ctx, vc, case, "cli")
            info["command line"] = {"contradicts_property": vc.spec, "differs_from_model": vc.model}
            ctx.count(key="cli:runs=%d" % len(res))
        nplat = len(plats)
        ctx.count(key=f"gen:platforms={nplat}", nontrivial_key=nontrivial_key(result, exp_cnt))
        ctx.dist["gen:links=%d" % sum(1 for f in result if f["link"])] += 1
        ctx.dist["gen:sloc<%d" % (10 * (sum(exp_cnt.values()) // 10 + 1))] += 1
        for b in (desc.get("bytes") or {}).values():
            ctx.dist["gen:file bytes eol=%s,%s" % (b["eol"], b["enc"])] += 1
        for twin, src in desc.get("twins") or []:
            same = (desc.get("bytes") or {}).get(twin) == (desc.get("bytes") or {}).get(src)
            ctx.dist["gen:twin file " + ("byte-identical" if same else "identical up to line endings / comment bytes")] += 1
        ctx.sample({"kind": "gen", "files": [dict(f, nodes=f["nodes"][:3]) for f in result[:3]], "setmap": {row_name(k): c for k, c in exp_cnt.items()}}, cap=4)
        if replaying:
            info["implementation"] = {
                "get_setmap": {row_name(key_of(k)): c for k, c in setmap.items()},
                "summary": (impl_summary(setmap) or "ZeroDivisionError").splitlines(),
                "files": impl_files(cb, st, False, None).splitlines(),
                "files --prune": impl_files(cb, st, True, None).splitlines(),
            }
            info["spec (per-line attribution)"] = {row_name(k): c for k, c in exp_cnt.items()}
            info["model"] = model_brief(model)
            info["variants (prune, levels)"] = variants
    return info


def run_gen(ctx, drv, n_inproc, n_cli, seconds=None):
    import time

    t0 = time.time()
    pending = collections.deque()
    with concurrent.futures.ThreadPoolExecutor(max_workers=15) as pool:
        try:
            for i in range(n_inproc + n_cli):
                if seconds is not None and time.time() - t0 > seconds:
                    ctx.notes.append(f"gen stream stopped by its time box ({seconds}s) after {i} of {n_inproc + n_cli} code bases")
                    break
                seed = ctx.rng.randrange(1 << 30)
                desc = gen_desc(random.Random(seed))
                g = gen_steps(ctx, drv, desc, f"gen:{seed}", pool if i < n_cli else None)
                next(g)  # in-process part done, CLI jobs (if any) submitted
                pending.append(g)
                while len(pending) > (10 if i < n_cli else 0):
                    finish(pending.popleft())
            while pending:
                finish(pending.popleft())
        finally:
            for g in pending:
                g.close()


# --------------------------------------------------------------------------
def set_rule(ctx):
    ctx.rule = ("inputs = analysis results [(path, is_symlink, [(platform set, num_lines, lines)])] of (a) fabricated states over "
                "real directory skeletons (<= 8 files, <= 3 symlinks incl. chains and link-only directories, depth <= 5, 0..6 platforms) "
                "and (b) generated C code bases (shared generator + deep directory, extra/chained/dangling symlinks, 0..4 platforms) "
                "analysed by finder.find. Non-trivial = distinct analysis results with a file below a sub-directory, >= 2 platform "
                "sets of which one is non-empty, and at least one line no platform uses. "
                "(c) stream txt: 1..4 generated texts - C-family files (C01 conditional programs decorated with comments, continuations, "
                "literals) and free-form Fortran files (.f90/.F90: C17 generator - continued statements, character literals, comment / "
                "sentinel / blank lines, nested conditionals; rarely a fixed-form .f file, for which the analysis raises), a third of the "
                "code bases C only, the others mixed or Fortran only; no #include; x 0..4 platforms with 0..2 compile commands (-D lists) "
                "per file, given to the model as text; "
                "non-trivial there = spec side defined, >= 2 platform sets of which one non-empty, a file with a conditional "
                "directive and an uncounted physical line inside its extent. "
                "(d) stream inc: 1..4 C / C++ / free-form Fortran units + 1..3 shared headers (guards, #pragma once, nested includes) + "
                "1..3 forced configuration headers (-include, found through -I) + unused files x 1..4 platforms whose commands "
                "share or do not share their -D / -I lists; LF / CRLF / lone-CR files, Latin-1 / UTF-8 comment bytes; expected "
                "attribution from gcc -E / gfortran -cpp -E per command; non-trivial there = >= 2 platform sets of which one "
                "non-empty and a forced include or a header included from both languages. Files of streams (b) and (c) also vary "
                "in line endings and comment bytes; stream (b) also has twin files (same content as a member, byte-identical or "
                "identical up to line endings).")
    ctx.assumptions += [
        "printed percentages / coverages accepted when within 0.005 + 1e-9 of the exact rational",
        "SLOC figures < 1000 per row (so _human_readable is the identity); larger ones compared through a re-statement of _human_readable",
        "platform sets canonicalised to sorted name lists (frozenset equality = list equality)",
        "directory enumeration order (Path.rglob) is stable between the in-process analysis and the CLI runs on the same directory",
        "the per-line attribution and node list (num_lines, lines) come from the real parser/associator (properties C01-C05 cover them); "
        "C06 checks that num_lines = len(lines) and that no line belongs to two nodes",
        "content hash = SHA-512 of the file's bytes on disk (what hashlib.file_digest(f, 'sha512') computes), also for files with "
        "CRLF / lone-CR line endings or bytes that are not UTF-8",
        "stream inc: a platform uses a code line iff `gcc -E -P` (`gfortran -cpp -E -P` for Fortran units) of one of its compile "
        "commands, run in the entry's directory with the same -D / -I / -include, lets the line's marker through; a directive line "
        "iff the group that contains it is processed (ISO C 6.10.1), told by the first marker of that group; counted lines are "
        "known by construction (one statement per marker, comments and blank lines apart; a header inside the code base is read in "
        "the language of its own extension - .h / .hpp / .inc: C comments - also when a Fortran unit includes it, which is what "
        "find() does by parsing every code-base file up front); a command the preprocessor rejects or "
        "that times out makes the oracle unavailable (case skipped and counted), never a violation; gfortran takes no -include",
        "stream txt: code bases without #include / -include / symbolic links (cross-file attribution is C04's layer); every "
        "configuration entry names a code-base file; ASCII texts with \\n newlines; platform names distinct; front end chosen by "
        "the file extension (C family / free-form Fortran; asm sources are not generated and not modelled); for a Fortran file the "
        "spec side is C17's reference scanner under C17's guard; inside it the grouping of the counted lines into nodes is proved "
        "for the model (C17.nodes_eq_ref) and compared as well",
    ]


def run(ctx, drv):
    core.import_codebasin()
    set_rule(ctx)
    for f in sorted((core.VERIF / "corpus" / "C06").glob("*.json")):
        replay(ctx, drv, json.loads(f.read_text()))
        ctx.count(key="corpus")
    scale = ctx.budget_scale
    if scale > 1:  # failing-input search: more in-process volume, same CLI volume
        c06_text.run_stream(ctx, drv, ctx.n(150, 500))
        if ctx.violations:
            return
        c06_inc.run_stream(ctx, drv, ctx.n(30, 100))
        if ctx.violations:
            return
        run_fab(ctx, drv, ctx.n(40, 150), 6)
        run_gen(ctx, drv, ctx.n(30, 120), 16)
        return
    # time boxes keep the tier within its budget on a loaded machine (counts in the evidence are what was really run)
    import time

    secs = ctx.extra.setdefault("stream_seconds", {})

    def timed(name, f, *a, **kw):
        t = time.time()
        f(*a, **kw)
        secs[name] = round(time.time() - t, 1)

    timed("fab", run_fab, ctx, drv, ctx.n(80, 900), 6, seconds=18 if not ctx.thorough() else 150)
    timed("gen+cli", run_gen, ctx, drv, ctx.n(120, 2000), ctx.n(20, 200), seconds=45 if not ctx.thorough() else 380)
    timed("txt", c06_text.run_stream, ctx, drv, ctx.n(300, 4000), seconds=20 if not ctx.thorough() else 100)
    timed("inc", c06_inc.run_stream, ctx, drv, ctx.n(45, 700), seconds=12 if not ctx.thorough() else 90)


def search(ctx, drv):
    run(ctx, drv)


def replay(ctx, drv, case):
    core.import_codebasin()
    if case.get("kind") == "txt":
        return c06_text.replay(ctx, drv, case)
    if case.get("kind") == "inc":
        return c06_inc.replay(ctx, drv, case)
    if case.get("kind") == "fab":
        with core.Scratch() as d:
            root = os.path.realpath(d)
            for p in case["files"]:
                full = os.path.join(root, p)
                os.makedirs(os.path.dirname(full), exist_ok=True)
                open(full, "w").close()
            for ln, tgt in case["links"]:
                full = os.path.join(root, ln)
                os.makedirs(os.path.dirname(full), exist_ok=True)
                os.symlink(os.path.relpath(os.path.join(root, tgt), os.path.dirname(full)), full)
            from codebasin import CodeBase

            st = fab_state(root, case["fab"])
            cb = CodeBase(root)
            result = analysis_result(cb, st, root)
            att, _ = attribution_of(result)
            exp_cnt = expected_setmap(att)
            variants = [tuple(x) for x in case["variants"]]
            model = ask_model(drv, root, result, variants)
            v = Verdict()
            setmap = st.get_setmap(cb)
            check_setmap(v, "get_setmap", setmap, exp_cnt, model)
            out = impl_summary(setmap)
            if out is not None:
                check_summary(v, "summary", out, exp_cnt, model)
            trees, full = [], {}
            for i, (prune, levels) in enumerate(variants):
                o = impl_files(cb, st, prune, levels)
                trees.append(o)
                lines = check_tree(v, f"files(prune={prune}, levels={levels})", o, root, att, prune, levels,
                                   model["trees"][i] if model else None, full_lines=full.get(prune), summary_cnt=exp_cnt)
                if levels is None:
                    full[prune] = lines
            record(ctx, v, case, "fab")
            return {"contradicts_property": v.spec, "differs_from_model": v.model,
                    "implementation": {"get_setmap": {row_name(key_of(k)): c for k, c in setmap.items()},
                                       "summary": (out or "ZeroDivisionError").splitlines(),
                                       "files": [t.splitlines() for t in trees]},
                    "spec (per-line attribution)": {row_name(k): c for k, c in exp_cnt.items()},
                    "model": model_brief(model), "variants (prune, levels)": variants}
    with concurrent.futures.ThreadPoolExecutor(max_workers=8) as pool:
        info = run_gen_one(ctx, drv, case["desc"], case.get("origin", "replay"), pool if case.get("cli") else None, replaying=True)
    return info
