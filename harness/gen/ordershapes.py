"""Input shapes for C14 (order independence) whose result is a *union / lookup over several visits of one shared file*.

The C14 schedules (PYTHONHASHSEED, scandir order, file creation order, [platform.*] order) only make a difference when the
analysed code base offers something that can be visited in more than one order.  Three shapes that real code bases have and the
generic generator (`harness.gen.codebase`) never produces:

  multipass   an include file WITHOUT include guard / #pragma once / #define / #include (a "body" file: .inc, .h, .cuh) whose
              conditionals read the macro state of the *compiler pass* (`__CUDA_ARCH__`, `__SYCL_DEVICE_ONLY__`, `__SPIR__`,
              `__NVPTX__`, `_OPENMP`), included from a translation unit compiled by a multi-pass command (nvcc host + device
              passes, several -gencode, icpx -fsycl [-fsycl-targets=a,b]).  The passes of one command share the platform name;
              their order is the iteration order of a `set` of pass names, i.e. it follows the string hash seed.
  indirect    a conditional on a macro that is defined *in terms of another macro* (`#define API_LEVEL BASE_LEVEL`,
              `#define HAS_FAST (BASE_LEVEL >= 3)`, a function-like `AT_LEAST(n)`, a two-level alias) where the inner macro
              gets a different value from every platform's command line (and from every pass: `#define ARCH __CUDA_ARCH__`).
              All platforms visit the same directive node; who comes first follows the order of the [platform.*] tables.
  incomplete  an incomplete compilation database: user includes that no -I option resolves (plain and directory-qualified),
              while the code base holds several files with that base name in per-backend directories, defining different
              macros.  On the unchanged code such an include simply stays unresolved (a warning) - deterministically.

Everything is expressed as additions to a `codebase.gen_codebase` description (texts / platforms), so the shapes ride on
every stream that analyses such a description.  All randomness from the `rng` argument.
"""
from __future__ import annotations

SHAPES = ("multipass", "indirect", "incomplete")

# (directive, reads) - conditionals that only READ the per-pass state
PASS_CONDS = [
    "#ifdef __CUDA_ARCH__",
    "#ifndef __CUDA_ARCH__",
    "#if defined(__CUDA_ARCH__) && __CUDA_ARCH__ >= 800",
    "#if __CUDA_ARCH__ >= 750",
    "#if __CUDA_ARCH__ == 700",                                   # tells the default device architecture from an explicit one
    "#if defined(__CUDA_ARCH__) && __CUDA_ARCH__ < 800",
    "#ifdef __SYCL_DEVICE_ONLY__",
    "#ifndef __SYCL_DEVICE_ONLY__",
    "#if defined(__SYCL_DEVICE_ONLY__) || defined(__CUDA_ARCH__)",
    "#if !defined(__SYCL_DEVICE_ONLY__) && !defined(__CUDA_ARCH__)",
    "#ifdef __SPIR__",
    "#ifdef __NVPTX__",
    "#ifdef _OPENMP",
    "#if C14_ARCH >= 750",          # C14_ARCH is `#define C14_ARCH __CUDA_ARCH__` in the including file
    "#if C14_ON_DEVICE",            # C14_ON_DEVICE is `#define C14_ON_DEVICE defined(...)`-free: (C14_DEV_A + C14_DEV_B)
]

NVCC_FLAGS = [
    [],                                                     # default device pass sm_70 + host pass
    ["--gpu-architecture=sm_80"],
    ["--gpu-architecture", "sm_90"],
    ["-gencode", "arch=compute_70,code=sm_70", "-gencode", "arch=compute_80,code=sm_80"],
    ["-gencode=arch=compute_75,code=sm_75", "--gpu-code=sm_89", "-fopenmp"],
]
ICPX_FLAGS = [
    ["-fsycl"],
    ["-fsycl", "-fsycl-targets=spir64,spir64_gen"],
    ["-fsycl", "-fsycl-targets=nvptx64-nvidia-cuda"],
    ["-fsycl", "-fopenmp", "-fsycl-targets=spir64_x86_64"],
]


def _decls(prefix, n):
    return [f"int {prefix}_{j};" for j in range(n)]


def shape_multipass(rng, desc):
    """unguarded conditional include file + translation units compiled by multi-pass commands"""
    d = "c14_mp"
    hdr = f"body.{rng.choice(['inc', 'inc', 'h', 'cuh', 'inl'])}"
    conds = rng.sample(PASS_CONDS, rng.randint(2, 5))
    body = []
    for i, c in enumerate(conds):
        body += [c] + _decls(f"mp{i}_then", 1 + i % 3)
        if rng.random() < 0.6:
            body += ["#else"] + _decls(f"mp{i}_else", 1 + (i + 1) % 3)
        body += ["#endif"]
    body += ["int mp_every_pass;"]
    style = rng.random()
    if style < 0.12:
        body = ["#ifndef C14_MP_BODY", "#define C14_MP_BODY"] + body + ["#endif"]       # a guarded header for contrast
    elif style < 0.2:
        body = ["#pragma once"] + body
    desc["texts"][f"{d}/{hdr}"] = body
    pre = ["#define C14_ARCH __CUDA_ARCH__", "#if defined(__CUDA_ARCH__)", "#define C14_DEV_A 1", "#else", "#define C14_DEV_A 0", "#endif",
           "#ifdef __SYCL_DEVICE_ONLY__", "#define C14_DEV_B 1", "#else", "#define C14_DEV_B 0", "#endif",
           "#define C14_ON_DEVICE (C14_DEV_A + C14_DEV_B)"]
    for tu in ("kernel.cu", "kernel.cpp"):
        src = list(pre) + [f'#include "{hdr}"', "int mp_after;"]
        if rng.random() < 0.4:
            # the including file reads the state too, through the indirection
            src += ["#if C14_ARCH >= 800", "int mp_tu_new_arch;", "int mp_tu_new_arch2;", "#elif C14_ON_DEVICE", "int mp_tu_device;", "#else",
                    "int mp_tu_host;", "#endif"]
        if rng.random() < 0.3:
            src += [f'#include "{hdr}"']                                               # "body" files are included more than once
        desc["texts"][f"{d}/{tu}"] = src
    names = sorted(desc["platforms"])
    multi = set(rng.sample(names, rng.randint(1, len(names)))) if names else set()
    for p in names:
        if p in multi:
            if rng.random() < 0.55:
                comp, flags, tu = "nvcc", rng.choice(NVCC_FLAGS), "kernel.cu"
            else:
                comp, flags, tu = rng.choice(["icpx", "icx"]), rng.choice(ICPX_FLAGS), "kernel.cpp"
        else:
            comp, flags, tu = rng.choice(["g++", "clang++"]), rng.choice([[], ["-fopenmp"]]), "kernel.cpp"
        desc["platforms"][p].append({"file": f"{d}/{tu}", "directory": ".", "arguments": [comp] + list(flags) + ["-c", f"{d}/{tu}"]})
    return {"header": f"{d}/{hdr}", "passive": style >= 0.2, "multipass_platforms": sorted(multi)}


def shape_indirect(rng, desc):
    """conditionals on macros defined in terms of a macro that every platform sets differently"""
    d = "c14_ind"
    form = rng.choice(["alias", "alias", "expr", "function", "two-level"])
    if form == "alias":
        defs = ["#define C14_API_LEVEL C14_BASE_LEVEL"]
        tests = ["#if C14_API_LEVEL >= 3", "#elif C14_API_LEVEL == 2", "#if C14_API_LEVEL > 1 && C14_API_LEVEL < 4"]
    elif form == "expr":
        defs = ["#define C14_HAS_FAST (C14_BASE_LEVEL >= 3)", "#define C14_HAS_MID (C14_BASE_LEVEL == 2)"]
        tests = ["#if C14_HAS_FAST", "#elif C14_HAS_MID", "#if !C14_HAS_FAST"]
    elif form == "function":
        defs = ["#define C14_AT_LEAST(n) (C14_BASE_LEVEL >= (n))"]
        tests = ["#if C14_AT_LEAST(3)", "#elif C14_AT_LEAST(2)", "#if !C14_AT_LEAST(2)"]
    else:
        defs = ["#define C14_API_LEVEL C14_MID_LEVEL", "#define C14_MID_LEVEL C14_BASE_LEVEL"]
        tests = ["#if C14_API_LEVEL >= 3", "#elif C14_MID_LEVEL == 2", "#if C14_API_LEVEL < 3"]
    hdr = ["#ifndef C14_API_H", "#define C14_API_H"] + defs
    hdr += [tests[0]] + _decls("ind_h_fast", 3) + [tests[1]] + _decls("ind_h_mid", 2) + ["#else"] + _decls("ind_h_slow", 1) + ["#endif"]
    hdr += ["int ind_h_common;", "#endif"]
    desc["texts"][f"{d}/api.h"] = hdr
    ntu = rng.randint(1, 2)
    for t in range(ntu):
        src = ['#include "api.h"', tests[2]] + _decls(f"ind_s{t}_a", 2 + t) + ["#else"] + _decls(f"ind_s{t}_b", 1) + ["#endif"]
        src += [tests[0]] + _decls(f"ind_s{t}_fast", 1) + ["#endif", "int ind_common;"]
        desc["texts"][f"{d}/use{t}.c"] = src
    names = sorted(desc["platforms"])
    # the inner value per platform: both sides of every threshold occur when there are two platforms or more
    levels = [4, 1] + [rng.choice([None, 1, 2, 3, 4]) for _ in names[2:]]
    rng.shuffle(levels)
    values = {}
    for p, lv in zip(names, levels):
        values[p] = lv
        for t in range(ntu):
            args = ["gcc"] + ([f"-DC14_BASE_LEVEL={lv}"] if lv is not None else []) + ["-c", f"{d}/use{t}.c"]
            desc["platforms"][p].append({"file": f"{d}/use{t}.c", "directory": ".", "arguments": args})
    return {"form": form, "levels": values}


def shape_incomplete(rng, desc):
    """unresolvable user includes + several files of that base name in the code base"""
    backends = rng.sample(["cpu", "gpu", "ref"], rng.randint(2, 3))
    npairs = rng.randint(2, 4)
    for j in range(npairs):
        for bi, b in enumerate(backends):
            desc["texts"][f"c14_be/{b}/c14_opt{j}.h"] = ([f"#ifndef C14_OPT{j}_{b.upper()}", f"#define C14_OPT{j}_{b.upper()} 1", f"#define C14_WIDTH{j} {4 << bi}"]
                                                         + _decls(f"opt{j}_{b}", 1 + bi) + ["#endif"])
    ntu = rng.randint(1, 3)
    for t in range(ntu):
        src = []
        for j in range(npairs):
            if rng.random() < 0.7:
                src += [f'#include "c14_opt{j}.h"']                               # base name only
            else:
                src += [f'#include "{rng.choice(backends)}/c14_opt{j}.h"']       # names its directory: exactly one candidate
            for bi, b in enumerate(backends):
                src += [f"#ifdef C14_OPT{j}_{b.upper()}"] + _decls(f"app{t}_{j}_{b}", 1 + (bi + j) % 3) + ["#endif"]
            src += [f"#if C14_WIDTH{j} >= 8"] + _decls(f"app{t}_{j}_wide", 2) + ["#else"] + _decls(f"app{t}_{j}_narrow", 1) + ["#endif"]
        desc["texts"][f"c14_app/m{t}.c"] = src
    names = sorted(desc["platforms"])
    complete = set(p for p in names if rng.random() < 0.25)      # a few platforms have the include paths the others lack
    for p in names:
        inc = []
        if p in complete:
            inc = rng.choice([["-I", f"c14_be/{backends[0]}", "-I", "c14_be"], ["-Ic14_be", "-I", f"c14_be/{backends[-1]}"]])
        for t in range(ntu):
            desc["platforms"][p].append({"file": f"c14_app/m{t}.c", "directory": ".",
                                         "arguments": ["gcc"] + inc + ["-c", f"c14_app/m{t}.c"]})
    return {"backends": backends, "pairs": npairs, "complete_platforms": sorted(complete)}


_GEN = {"multipass": shape_multipass, "indirect": shape_indirect, "incomplete": shape_incomplete}


def add_shapes(rng, desc, force=(), p=0.6):
    """add each shape with probability p (always those named in `force`); returns {shape: parameters} (also stored in desc)"""
    used = {}
    if not desc["platforms"]:
        return used
    for name in SHAPES:
        if name in force or rng.random() < p:
            used[name] = _GEN[name](rng, desc)
    desc["shapes"] = used
    return used
