import CbiVerif.Lemmas.CLexSpec
/-! # C05: the loop of `c_file_source` against the per-line reference scans -/
namespace CbiVerif.CLexSim
open CbiVerif.CClean CbiVerif.CLexRef CbiVerif.CText

/-! ## white space of literals never precedes the first visible character of a logical line -/

def litOK (w : DMode) (k : Cls) : Bool :=
  match dstep w k.kind with
  | none => true
  | some o =>
    w.inLiteral ||
      (leadOK none (refEmits w k o) && ((lead none (refEmits w k o)).isSome || !o.mode.inLiteral))

theorem litOK_all : (allW.all fun w => allC.all fun c => litOK w c) = true := by decide

theorem litOK_each (w : DMode) (k : Cls) : litOK w k = true := by
  have h := litOK_all
  simp only [List.all_eq_true] at h
  exact h w (by cases w <;> simp [allW]) k (by cases k <;> simp [allC])

theorem leadOK_some (k : Cls) (es : List REmit) : leadOK (some k) es = true := by cases es <;> rfl

theorem leadOK_append (v : Option Cls) (xs ys : List REmit) :
    leadOK v (xs ++ ys) = (leadOK v xs && leadOK (lead v xs) ys) := by
  induction xs generalizing v with
  | nil => cases v <;> simp [leadOK, lead, leadOK_some]
  | cons e xs ih =>
    cases v with
    | some k => simp [leadOK_some, lead_some]
    | none =>
      cases e with
      | sp => simpa [leadOK, lead] using ih none
      | ns k =>
        cases hk : k.isWhite
        · simp [leadOK, lead, hk, leadOK_some]
        · simp [leadOK, hk]

theorem chars_lead (ks : List Cls) : ∀ (w w' : DMode) (es : List REmit) (v : Option Cls),
    refChars w ks = some (w', es) → (v = none → w.inLiteral = false) →
    leadOK v es = true ∧ (lead v es = none → w'.inLiteral = false) := by
  induction ks with
  | nil =>
    intro w w' es v h hv
    simp only [refChars, Option.some.injEq, Prod.mk.injEq] at h
    obtain ⟨rfl, rfl⟩ := h
    cases v with
    | none => exact ⟨rfl, fun _ => hv rfl⟩
    | some k => exact ⟨rfl, fun h => by simp [lead] at h⟩
  | cons k ks ih =>
    intro w w' es v h hv
    cases v with
    | some c => exact ⟨leadOK_some c es, fun h => by simp [lead_some] at h⟩
    | none =>
      simp only [refChars] at h
      cases ho : dstep w k.kind with
      | none => simp [ho] at h
      | some o =>
        simp only [ho] at h
        cases hr : refChars o.mode ks with
        | none => simp [hr] at h
        | some r =>
          obtain ⟨w2, es2⟩ := r
          simp only [hr, Option.some.injEq, Prod.mk.injEq] at h
          obtain ⟨rfl, rfl⟩ := h
          have hl := litOK_each w k
          simp only [litOK, ho, hv rfl, Bool.false_or, Bool.and_eq_true, Bool.or_eq_true,
            Bool.not_eq_true'] at hl
          obtain ⟨h1, h2⟩ := hl
          have := ih o.mode w2 es2 (lead none (refEmits w k o)) hr (by
            intro hn
            rcases h2 with h2 | h2
            · simp [hn] at h2
            · exact h2)
          rw [leadOK_append, lead_append]
          exact ⟨by simp [h1, this.1], this.2⟩

theorem line_lead (w w' : DMode) (ks : List Cls) (cont : Bool) (es : List REmit) (ends : Bool) (v : Option Cls)
    (h : refLine w ks cont = some (w', es, ends)) (hv : v = none → w.inLiteral = false) :
    leadOK v es = true ∧ (lead v es = none → w'.inLiteral = false) ∧ (ends = true → w' = .code) := by
  unfold refLine at h
  cases hr : refChars w ks with
  | none => simp [hr] at h
  | some r =>
    obtain ⟨w1, es1⟩ := r
    simp only [hr] at h
    obtain ⟨c1, c2⟩ := chars_lead ks w w1 es1 v hr hv
    cases cont with
    | true =>
      simp only [if_true, Option.some.injEq, Prod.mk.injEq] at h
      obtain ⟨rfl, rfl, rfl⟩ := h
      exact ⟨c1, c2, by simp⟩
    | false =>
      simp only [Bool.false_eq_true, if_false] at h
      cases w1 <;> simp [refNewline] at h <;> obtain ⟨rfl, rfl, rfl⟩ := h <;>
        simp [leadOK_append, c1, DMode.inLiteral] <;> (first | (cases lead v es1 <;> simp [leadOK, Cls.isWhite]) | skip)


/-! ## what `c_file_source` must produce, computed from the per-line reference data -/

/-- per-line reference data: what survives on the line (as buffer actions), whether the logical line ends -/
structure LD where
  es : List REmit
  ends : Bool

def ldOf (sc : Scan) : LD := ⟨renderAll sc.out, sc.out.any Surv.isNl⟩

/-- summary of a logical line: start, stop, counted lines, category -/
abbrev LSum := Nat × Nat × List Nat × Cat

def _root_.CbiVerif.CClean.LLine.sum (l : LLine) : LSum := (l.start, l.stop, l.lines, l.cat)

def expect (v : Option Cls) (start : Nat) (lines : List Nat) (n : Nat) : List LD → List LSum
  | [] => [(start, n + 1, lines, catV v)]
  | d :: ds =>
    if d.ends then
      (start, n + 2, (if anyVisible d.es then lines ++ [n + 1] else lines), catV (lead v d.es)) ::
        expect none (n + 2) [] (n + 1) ds
    else expect (lead v d.es) start (if anyVisible d.es then lines ++ [n + 1] else lines) (n + 1) ds

/-- F-C05-2 does not occur on the line scanned as `sc` -/
def K2free (sc : Scan) : Prop := anyLitWs (renderAll sc.out) = true → anyVisible (renderAll sc.out) = true

theorem ldOf_facts {s : DState} {n : Nat} {r : RawLine} {sc : Scan} {ends : Bool} {body : List Surv}
    (f : LineFacts s n r sc ends body) : ldOf sc = ⟨renderAll body, ends⟩ := by
  have h1 : renderAll sc.out = renderAll body := by
    rw [f.out, renderAll_append]; cases ends <;> simp [renderAll, render_nl]
  have h2 : sc.out.any Surv.isNl = ends := by
    rw [f.out, List.any_append]
    have : body.any Surv.isNl = false := by
      rw [List.any_eq_false]; intro x hx; simp [f.noNl x hx]
    cases ends <;> simp [this, Surv.isNl]
  simp [ldOf, h1, h2]

theorem blank_toC (b : Buf) : b.blank = (catOf b.toC.parts == .blank) := rfl

theorem noFinal_cons (r : RawLine) (rs : List RawLine) (h : noFinalBackslash (r :: rs) = true) (hne : rs ≠ []) :
    noFinalBackslash rs = true := by
  cases rs with
  | nil => exact absurd rfl hne
  | cons r2 rs2 => simpa [noFinalBackslash] using h

/-- **The loop of `c_file_source` produces exactly the logical lines the reference data demand.** -/
theorem srcLoop_expect (rs : List RawLine) : ∀ (s : DState) (n : Nat) (scs : List Scan) (d : Bool) (acc : Acc)
    (v : Option Cls),
    scanPer s (n + 1) rs = some scs → (∀ sc ∈ scs, sc.k1 = false) → (∀ sc ∈ scs, K2free sc) →
    (lastSt s scs).mode = .code → (∀ r ∈ rs, plainLine r = true) → noFinalBackslash rs = true →
    s.mode ≠ .sqSl → Shape acc.cur.toC v → (v = none → s.mode.inLiteral = false) →
    (d = true → ¬(s.mode = .code ∧ rs = [])) →
    (srcLoop (absStack d s.mode) acc n (rs.map toPLine)).1.map LLine.sum
        = expect v acc.start acc.lines n (scs.map ldOf) ∧
      (srcLoop (absStack d s.mode) acc n (rs.map toPLine)).2 = [.top] := by
  induction rs with
  | nil =>
    intro s n scs d acc v h _ _ hlast _ _ _ hsh _ hd
    simp only [scanPer, Option.some.injEq] at h
    subst h
    simp only [lastSt] at hlast
    have hd' : d = false := by
      cases d with
      | false => rfl
      | true => exact absurd ⟨hlast, rfl⟩ (hd rfl)
    simp only [List.map_nil, srcLoop, expect, List.map_cons, LLine.sum, category_toC, cat_of_shape _ _ hsh,
      hlast, hd', absStack]
    simp
  | cons r rs ih =>
    intro s n scs d acc v h hk1 hk2 hlast hplain hnf hsq hsh hv hd
    simp only [scanPer] at h
    cases hdec : decomment s (lineItems (n + 1) r) with
    | none => simp [hdec] at h
    | some sc =>
      simp only [hdec] at h
      cases hrest : scanPer sc.st (n + 1 + 1) rs with
      | none => simp [hrest] at h
      | some rest =>
        simp only [hrest, Option.some.injEq] at h
        subst h
        obtain ⟨ends, body, f⟩ := line_ref s (n + 1) r sc hdec (hplain r (by simp))
        have hk1r : ∀ x ∈ rest, x.k1 = false := fun x hx => hk1 x (by simp [hx])
        simp only [lastSt] at hlast
        -- no `/` is owed at the end of the line
        have hsq' : sc.st.mode ≠ .sqSl := by
          intro hm
          have hpt := f.ptag (fun h => absurd h hsq) hm
          rcases sqSl_carry rs sc.st (n + 1 + 1) rest hrest hm (by omega) with h1 | h1
          · simp only [List.any_eq_true] at h1
            obtain ⟨x, hx, hxk⟩ := h1
            rw [hk1r x hx] at hxk; exact absurd hxk (by simp)
          · rw [hlast] at h1; exact absurd h1 (by simp)
        have hw : holdL s.mode = [] := by simp [holdL, hsq]
        have hw' : holdL sc.st.mode = [] := by simp [holdL, hsq']
        obtain ⟨d', p1, p2, p3, p4⟩ := line_sim d s.mode sc.st.mode (toPLine r) (renderAll body) ends f.ref hw hw'
        obtain ⟨l1, l2, l3⟩ := line_lead s.mode sc.st.mode _ _ (renderAll body) ends v f.ref hv
        have hld := ldOf_facts f
        have hk2' : anyLitWs (renderAll body) = true → anyVisible (renderAll body) = true := by
          have := hk2 sc (by simp)
          unfold K2free at this
          have h1 : renderAll sc.out = renderAll body := by
            have := congrArg LD.es hld; simpa [ldOf] using this
          rwa [h1] at this
        have hcount : (!(procLine (absStack d s.mode) (toPLine r)).2.1.blank) = anyVisible (renderAll body) := by
          rw [blank_toC, p2]
          have := counted_iff (renderAll body) hk2'
          simpa [bne] using this
        have hjoin : Shape (acc.cur.join (procLine (absStack d s.mode) (toPLine r)).2.1).toC (lead v (renderAll body)) := by
          rw [toC_join, p2]; exact shape_join _ v _ hsh l1
        have hplain' : ∀ r' ∈ rs, plainLine r' = true := fun r' hr' => hplain r' (by simp [hr'])
        have hdok : d' = true → ¬(sc.st.mode = .code ∧ rs = []) := by
          intro hd' ⟨hm, hrs⟩
          subst hrs
          cases hends : ends with
          | true => rw [p4 hends] at hd'; exact absurd hd' (by simp)
          | false =>
            -- the last physical line neither ends the logical line nor leaves code mode: impossible
            have href := f.ref
            rw [hends, hm] at href
            unfold refLine at href
            have hcont : (toPLine r).continued = false := by
              have : CLexRef.endsBackslash r.body = false := by simpa [noFinalBackslash] using hnf
              have h2 : CClean.endsBackslash r.body = false := this
              simp [toPLine, h2]
            cases hrc : refChars s.mode (List.map (fun x => x.fst) (toPLine r).chars) with
            | none => simp [hrc] at href
            | some rc =>
              obtain ⟨w1, es1⟩ := rc
              simp only [hrc, hcont, Bool.false_eq_true, if_false] at href
              cases w1 <;> simp [refNewline] at href
        simp only [List.map_cons, srcLoop, hld, expect]
        cases hends : ends with
        | true =>
          rw [hends] at p3 l3
          have hcode : sc.st.mode = .code := l3 rfl
          have hnfr : rs ≠ [] → noFinalBackslash rs = true := fun hne => noFinal_cons r rs hnf hne
          have ih' := ih sc.st (n + 1) rest d' { start := n + 2 } none hrest hk1r
            (fun x hx => hk2 x (by simp [hx])) hlast hplain'
            (by cases rs with
              | nil => rfl
              | cons a b => exact hnfr (by simp))
            hsq' (Or.inl ⟨rfl, rfl⟩) (fun _ => by simp [hcode, DMode.inLiteral]) hdok
          simp only [p3, if_true, List.map_cons, LLine.sum, p1, hcount]
          refine ⟨?_, ih'.2⟩
          rw [ih'.1, category_toC, cat_of_shape _ _ hjoin]
        | false =>
          rw [hends] at p3
          have hne : rs ≠ [] := by
            intro hrs
            subst hrs
            simp only [scanPer, Option.some.injEq] at hrest
            subst hrest
            simp only [lastSt] at hlast
            cases hdd : d' with
            | true => exact hdok hdd ⟨hlast, rfl⟩
            | false =>
              -- same contradiction as above, independent of d'
              have href := f.ref
              rw [hends, hlast] at href
              unfold refLine at href
              have hcont : (toPLine r).continued = false := by
                have : CLexRef.endsBackslash r.body = false := by simpa [noFinalBackslash] using hnf
                have h2 : CClean.endsBackslash r.body = false := this
                simp [toPLine, h2]
              cases hrc : refChars s.mode (List.map (fun x => x.fst) (toPLine r).chars) with
              | none => simp [hrc] at href
              | some rc =>
                obtain ⟨w1, es1⟩ := rc
                simp only [hrc, hcont, Bool.false_eq_true, if_false] at href
                cases w1 <;> simp [refNewline] at href
          have ih' := ih sc.st (n + 1) rest d'
            { cur := acc.cur.join (procLine (absStack d s.mode) (toPLine r)).2.1, start := acc.start,
              lines := if anyVisible (renderAll body) then acc.lines ++ [n + 1] else acc.lines }
            (lead v (renderAll body)) hrest hk1r
            (fun x hx => hk2 x (by simp [hx])) hlast hplain' (noFinal_cons r rs hnf hne) hsq' hjoin l2 hdok
          simp only [p3, Bool.false_eq_true, if_false, p1, hcount]
          exact ih'

end CbiVerif.CLexSim
