import CbiVerif.Spec.CPreproc
/-! # C01 model, part 1: `SourceTree.insert` (codebasin/preprocessor.py)

`SourceTree.insert` is a pointer program over `_latest_node` and `parent` links.
It is modelled as a *zipper*: `spine` is the chain of nodes from `_latest_node`
(head) up to the child of the root (last); each frame holds the node's label and
the children it has received so far.  `rootKids` are the finished children of
the root (`FileNode`).

Quirks that are modelled (not repaired):
* the very first node is inserted under the root whatever its kind
  (`if self._latest_node == self.root`), so a file that *starts* with
  `#else`/`#elif`/`#endif` builds a tree (and the visitor then raises);
* for any later `#elif/#else/#endif`, `walk_to_tree_insertion_point` climbs until a
  start/continue node; when it reaches the root it logs an error, breaks, and the
  following `self._latest_node.parent.add_child` is `None.add_child` →
  `AttributeError`.  That is the `crashed` flag (sticky; `build` then yields `none`).
Core Lean only (linked into the native driver).  `Kind`/`Lbl` (the line list both the
model and the reference consume) live in `Spec/CPreproc.lean`. -/
namespace CbiVerif.Cond

def Lbl.isStart (l : Lbl) : Bool := l.kind == .ifk
def Lbl.isCont (l : Lbl) : Bool := l.kind == .elifk || l.kind == .elsek
def Lbl.isEnd (l : Lbl) : Bool := l.kind == .endk
def Lbl.opens (l : Lbl) : Bool := l.isStart || l.isCont

inductive Tree | node (l : Lbl) (kids : List Tree)
deriving Repr, Inhabited

structure Frame where
  lbl : Lbl
  kids : List Tree   -- children added so far, in order

/-- head of `spine` = `_latest_node`, last = the frame directly under the root. -/
structure Zip where
  rootKids : List Tree
  spine : List Frame
  crashed : Bool := false     -- `None.add_child` (AttributeError) happened

def Zip.empty : Zip := { rootKids := [], spine := [] }

def Frame.close (f : Frame) : Tree := .node f.lbl f.kids

/-- `_latest_node = _latest_node.parent` (the head frame is finished and handed to its parent) -/
def Zip.up (z : Zip) : Zip :=
  match z.spine with
  | [] => z
  | f :: [] => { z with rootKids := z.rootKids ++ [f.close], spine := [] }
  | f :: g :: rest => { z with spine := { g with kids := g.kids ++ [f.close] } :: rest }

/-- `__insert_in_place(new, _latest_node)` -/
def Zip.push (z : Zip) (l : Lbl) : Zip := { z with spine := ⟨l, []⟩ :: z.spine }

/-- `walk_to_tree_insertion_point`: climb until the head is a start/continue node
(or the root is reached: empty spine). -/
def Zip.walk : (fuel : Nat) → Zip → Zip
  | 0, z => z
  | n+1, z =>
    match z.spine with
    | [] => z
    | f :: _ => if f.lbl.opens then z else Zip.walk n z.up

/-- `SourceTree.insert` -/
def Zip.insert (z : Zip) (l : Lbl) : Zip :=
  if z.crashed then z else
  match z.spine with
  | [] => z.push l                       -- `_latest_node == root`
  | f :: _ =>
    if l.isStart then
      if f.lbl.opens then z.push l else z.up.push l
    else if l.isCont || l.isEnd then
      let z' := z.walk z.spine.length
      match z'.spine with
      | [] => { z with crashed := true }  -- reached the root: `root.parent.add_child`
      | _ => z'.up.push l                 -- child of `_latest_node.parent`
    else if f.lbl.opens then z.push l    -- child of latest
    else z.up.push l                     -- sibling of latest

def Zip.closeAll : (fuel : Nat) → Zip → List Tree
  | 0, z => z.rootKids
  | n+1, z => match z.spine with
    | [] => z.rootKids
    | _ => Zip.closeAll n z.up

def insertAll (z : Zip) (ls : List Lbl) : Zip := ls.foldl Zip.insert z

/-- children of the root after inserting all nodes of a file; `none` = the builder raised -/
def build (ls : List Lbl) : Option (List Tree) :=
  let z := insertAll Zip.empty ls
  if z.crashed then none else some (z.closeAll z.spine.length)

/-! ## Structured programs
Every well-nested line list is `b.lines` for exactly one `b : Block`
(`Lemmas/TreeParse.lean` proves the existence half). -/
mutual
inductive Item
  | code (id : Nat)
  | dir (id pay : Nat)
  | cond (id pay : Nat) (body : Block) (rest : Conts)
inductive Block
  | nil
  | cons (i : Item) (b : Block)
inductive Conts
  | endif (id : Nat)
  | elif (id pay : Nat) (body : Block) (rest : Conts)
  | els (id : Nat) (body : Block) (endId : Nat)
end

mutual
def Item.lines : Item → List Lbl
  | .code id => [⟨id, .code, 0⟩]
  | .dir id p => [⟨id, .other, p⟩]
  | .cond id p b r => ⟨id, .ifk, p⟩ :: (b.lines ++ r.lines)
def Block.lines : Block → List Lbl
  | .nil => []
  | .cons i b => i.lines ++ b.lines
def Conts.lines : Conts → List Lbl
  | .endif id => [⟨id, .endk, 0⟩]
  | .elif id p b r => ⟨id, .elifk, p⟩ :: (b.lines ++ r.lines)
  | .els id b e => ⟨id, .elsek, 0⟩ :: (b.lines ++ [⟨e, .endk, 0⟩])
end

-- the tree CBI is meant to build: `#if` holds its group, `#elif/#else/#endif` are its siblings
mutual
def Item.trees : Item → List Tree
  | .code id => [.node ⟨id, .code, 0⟩ []]
  | .dir id p => [.node ⟨id, .other, p⟩ []]
  | .cond id p b r => .node ⟨id, .ifk, p⟩ b.trees :: r.trees
def Block.trees : Block → List Tree
  | .nil => []
  | .cons i b => i.trees ++ b.trees
def Conts.trees : Conts → List Tree
  | .endif id => [.node ⟨id, .endk, 0⟩ []]
  | .elif id p b r => .node ⟨id, .elifk, p⟩ b.trees :: r.trees
  | .els id b e => [.node ⟨id, .elsek, 0⟩ b.trees, .node ⟨e, .endk, 0⟩ []]
end

end CbiVerif.Cond
