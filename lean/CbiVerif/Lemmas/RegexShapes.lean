import CbiVerif.Spec.RegexShapes
import CbiVerif.Lemmas.CompilersRe
import CbiVerif.Props.C12Regex
/-! all-values lemmas: literal patterns through the parser, comma-joined option values through `str.split`, the
    `prefix$value` templates, the nvcc closed form on comma-joined architecture lists (helpers for `Props/C12RegexComplete.lean`) -/
namespace CbiVerif.Regex
open CbiVerif.Compilers

/-! ## the parser on metacharacter-free patterns -/

theorem parseLoop_plain (fuel : Nat) (c : Char) (rest : List Char) (f : Frame) (stack : List Frame) (ng : Nat)
    (h : isMeta c = false) :
    parseLoop (fuel + 1) (c :: rest) f stack ng = parseLoop fuel rest (f.push (.chr c) true) stack ng := by
  have hm : "()|[\\.$*+?^{}]".toList = ['(', ')', '|', '[', '\\', '.', '$', '*', '+', '?', '^', '{', '}', ']'] := by decide
  simp only [isMeta, hm, List.contains_eq_mem, List.mem_cons, List.not_mem_nil, or_false, decide_eq_false_iff_not, not_or] at h
  obtain ⟨h1, h2, h3, h4, h5, h6, h7, h8, h9, h10, h11, h12, h13, h14⟩ := h
  rw [parseLoop]
  split <;> simp_all
  all_goals (intros; simp_all)

theorem parseLoop_lit (ng : Nat) : ∀ (p : List Char), (∀ c ∈ p, isMeta c = false) → ∀ (fuel : Nat) (f : Frame),
    p.length < fuel → f.kind = none → f.alts = [] →
    parseLoop fuel p f [] ng = .ok (seqOf (f.cur.reverse.map (·.1) ++ p.map .chr), ng) := by
  intro p
  induction p with
  | nil =>
    intro _ fuel f hl hk ha
    obtain ⟨k, rfl⟩ : ∃ k, fuel = k + 1 := ⟨fuel - 1, by simp at hl; omega⟩
    simp [parseLoop, Frame.close, altOf, hk, ha]
  | cons c p ih =>
    intro hp fuel f hl hk ha
    obtain ⟨k, rfl⟩ : ∃ k, fuel = k + 1 := ⟨fuel - 1, by simp at hl; omega⟩
    rw [parseLoop_plain k c p f [] ng (hp c (by simp))]
    rw [ih (fun x hx => hp x (by simp [hx])) k _ (by simp at hl; omega) (by simpa [Frame.push] using hk) (by simpa [Frame.push] using ha)]
    simp [Frame.push]

/-! ## `str.split(c)` on a `c`-joined list of `c`-free fields -/

theorem splitAux_field (c : Char) : ∀ (f : List Char), c ∉ f → ∀ (fuel : Nat) (tail cur : List Char),
    splitAux [c] (fuel + f.length) (f ++ tail) cur = splitAux [c] fuel tail (f.reverse ++ cur) := by
  intro f
  induction f with
  | nil => intro _ fuel tail cur; rfl
  | cons x f ih =>
    intro hc fuel tail cur
    have hx : (c == x) = false := by
      have : c ≠ x := fun e => hc (by simp [e])
      simpa using this
    have := ih (fun h => hc (by simp [h])) fuel tail (x :: cur)
    simp only [List.length_cons, ← Nat.add_assoc, List.cons_append, splitAux, dropPrefix?, hx, List.reverse_cons, List.append_assoc]
    simpa using this

theorem splitAux_join (c : Char) : ∀ (fields : List (List Char)), fields ≠ [] → (∀ f ∈ fields, c ∉ f) →
    ∀ (fuel : Nat) (cur : List Char), (joinWith c fields).length < fuel →
    splitAux [c] fuel (joinWith c fields) cur = (cur.reverse ++ fields.headD []) :: fields.tail := by
  intro fields
  induction fields with
  | nil => intro h; exact absurd rfl h
  | cons f rest ih =>
    intro _ hall fuel cur hl
    have hf : c ∉ f := hall f (by simp)
    cases rest with
    | nil =>
      simp only [joinWith] at hl ⊢
      obtain ⟨k, rfl⟩ : ∃ k, fuel = (k + 1) + f.length := ⟨fuel - f.length - 1, by omega⟩
      have := splitAux_field c f hf (k + 1) [] cur
      simp only [List.append_nil] at this
      rw [this]
      simp [splitAux]
    | cons g r =>
      simp only [joinWith] at hl ⊢
      simp only [List.length_append, List.length_cons] at hl
      obtain ⟨k, rfl⟩ : ∃ k, fuel = (k + 1) + f.length := ⟨fuel - f.length - 1, by omega⟩
      rw [splitAux_field c f hf (k + 1) _ cur]
      simp only [splitAux, dropPrefix?, beq_self_eq_true, if_true]
      rw [ih (by simp) (fun x hx => hall x (by simp [hx])) k [] (by omega)]
      simp

theorem pySplit_join (c : Char) (fields : List (List Char)) (hne : fields ≠ []) (hall : ∀ f ∈ fields, c ∉ f) :
    pySplit (String.ofList (joinWith c fields)) (some (String.singleton c)) = .ok (fields.map String.ofList) := by
  have e : (String.singleton c).toList = [c] := by simp
  simp only [pySplit, e, String.toList_ofList]
  rw [splitAux_join c fields hne hall _ [] (by omega)]
  cases fields with
  | nil => exact absurd rfl hne
  | cons f r => simp

/-! ## `string.Template(prefix + "$value")` -/

theorem substAux_prefix_value (v : List Char) : ∀ (p : List Char), '$' ∉ p → ∀ (fuel : Nat), p.length + 6 < fuel →
    substAux v fuel (p ++ "$value".toList) = .ok (p ++ v) := by
  intro p
  induction p with
  | nil =>
    intro _ fuel hl
    obtain ⟨k, rfl⟩ : ∃ k, fuel = k + 2 := ⟨fuel - 2, by simp at hl; omega⟩
    have e : "$value".toList = ['$', 'v', 'a', 'l', 'u', 'e'] := by decide
    have e2 : "value".toList = ['v', 'a', 'l', 'u', 'e'] := by decide
    simp [e, e2, substAux, Except.map, isIdStart, isIdChar, List.takeWhile, List.dropWhile]
  | cons x p ih =>
    intro hp fuel hl
    obtain ⟨k, rfl⟩ : ∃ k, fuel = k + 1 := ⟨fuel - 1, by simp at hl; omega⟩
    have hx : (x != '$') = true := by
      have : x ≠ '$' := fun e => hp (by simp [e])
      simpa using this
    simp only [List.cons_append, substAux, hx, if_true]
    rw [ih (fun h => hp (by simp [h])) k (by simp at hl; omega)]
    rfl

theorem substitute_prefix_value (p : List Char) (hp : '$' ∉ p) (v : String) :
    substitute (some (String.ofList (p ++ "$value".toList))) v = .ok (String.ofList (p ++ v.toList)) := by
  have hne : (String.ofList (p ++ "$value".toList)).isEmpty = false := by
    have e : "$value".toList = ['$', 'v', 'a', 'l', 'u', 'e'] := by decide
    rw [Bool.eq_false_iff]
    intro h
    simp [String.isEmpty_iff] at h
  simp only [substitute, hne, String.toList_ofList]
  rw [substAux_prefix_value v.toList p hp _ (by simp)]
  rfl

theorem mapM'_ok {α β : Type} (f : α → Except Compilers.PErr β) (g : α → β) : ∀ (l : List α), (∀ x ∈ l, f x = .ok (g x)) →
    mapM' f l = .ok (l.map g) := by
  intro l
  induction l with
  | nil => intro _; rfl
  | cons a t ih =>
    intro h
    simp only [mapM', h a (by simp), ih (fun x hx => h x (by simp [hx])), List.map_cons]

/-! ## the nvcc closed form on comma-joined architecture lists -/

/-- the "what starts here" function of `nvArchs` -/
def nvF : List Char → Option (List Char × Caps) := fun t => (nvAt t).map fun dr => (dr.2, [(1, dr.1)])

theorem searchWith_some (at_ : List Char → Option (List Char × Caps)) (off : Nat) (s s' : List Char) (caps : Caps)
    (h : at_ s = some (s', caps)) : searchWith at_ off s = some (off, s, s', caps) := by
  cases s <;> simp [searchWith, h]

theorem scanWith_nil (n off : Nat) : scanWith nvF n off [] = [] := by
  cases n with
  | zero => rfl
  | succ n =>
    have : nvF [] = none := by decide
    simp [scanWith, searchWith, this]

theorem scanWith_skip (c : Char) (t : List Char) (h1 : c ≠ 's') (h2 : c ≠ 'c') (n off : Nat) :
    scanWith nvF n off (c :: t) = scanWith nvF n (off + 1) t := by
  cases n with
  | zero => rfl
  | succ n =>
    have : nvF (c :: t) = none := by simp [nvF, C12.nvAt_other c t h1 h2]
    simp only [scanWith, searchWith, this]

theorem nvF_archName (e : Bool × List Char) (rest : List Char) (c : Char) (d' : List Char) (hd : e.2 = c :: d')
    (hdig : e.2.all Char.isDigit = true) (hrest : match rest with | [] => True | x :: _ => x.isDigit = false) :
    nvF (archName e ++ rest) = some (rest, [(1, e.2)]) := by
  have h := C12.nvAt_sm e.2 rest c d' hd hdig hrest
  obtain ⟨b, d⟩ := e
  cases b
  · simp only [nvF, archName, Bool.false_eq_true, if_false]; simp only at h; rw [h.1]; rfl
  · simp only [nvF, archName, if_true]; simp only at h; rw [h.2]; rfl

theorem archName_length (e : Bool × List Char) : (archName e ++ rest).length - rest.length = (archName e).length := by
  simp

theorem scanWith_archs : ∀ (es : List (Bool × List Char)), (∀ e ∈ es, e.2 ≠ [] ∧ e.2.all Char.isDigit = true) →
    ∀ (fuel off : Nat), es.length < fuel →
    (scanWith nvF fuel off (joinWith ',' (es.map archName))).map (fun h => capOf h.caps 1) = es.map (·.2) := by
  intro es
  induction es with
  | nil => intro _ fuel off _; simp [joinWith, scanWith_nil]
  | cons e rest ih =>
    intro hall fuel off hl
    obtain ⟨k, rfl⟩ : ∃ k, fuel = k + 1 := ⟨fuel - 1, by simp at hl; omega⟩
    obtain ⟨hne, hdig⟩ := hall e (by simp)
    obtain ⟨c, d', hd⟩ : ∃ c d', e.2 = c :: d' := by
      cases h : e.2 with
      | nil => exact absurd h hne
      | cons c d' => exact ⟨c, d', rfl⟩
    cases rest with
    | nil =>
      have h0 := nvF_archName e [] c d' hd hdig trivial
      simp only [List.append_nil] at h0
      simp [joinWith, scanWith, searchWith_some _ _ _ _ _ h0, scanWith_nil, capOf]
    | cons e2 r =>
      have h0 := nvF_archName e (',' :: joinWith ',' ((e2 :: r).map archName)) c d' hd hdig (by simp)
      simp only [List.map_cons, joinWith] at h0 ⊢
      simp only [scanWith, searchWith_some _ _ _ _ _ h0, List.map_cons, capOf, beq_self_eq_true, if_true]
      rw [scanWith_skip ',' _ (by decide) (by decide)]
      have := ih (fun x hx => hall x (by simp [hx])) k
        (off + ((archName e ++ ',' :: joinWith ',' (archName e2 :: r.map archName)).length -
          (',' :: joinWith ',' (archName e2 :: r.map archName)).length) + 1) (by simp at hl ⊢; omega)
      simp only [List.map_cons] at this
      rw [this]

theorem joinWith_length_ge (c : Char) : ∀ (l : List (List Char)), (∀ x ∈ l, x ≠ []) → l.length ≤ (joinWith c l).length := by
  intro l
  induction l with
  | nil => intro _; simp [joinWith]
  | cons f rest ih =>
    intro h
    cases rest with
    | nil =>
      have : f ≠ [] := h f (by simp)
      cases f with
      | nil => exact absurd rfl this
      | cons a t => simp [joinWith]
    | cons g r =>
      have := ih (fun x hx => h x (by simp [hx]))
      simp only [joinWith, List.length_append, List.length_cons] at this ⊢
      omega

theorem nvArchs_join (es : List (Bool × List Char)) (hall : ∀ e ∈ es, e.2 ≠ [] ∧ e.2.all Char.isDigit = true) :
    nvArchs (joinWith ',' (es.map archName)) = es.map (·.2) := by
  have hlen := joinWith_length_ge ',' (es.map archName) (by
    intro x hx
    obtain ⟨e, _, rfl⟩ := List.mem_map.mp hx
    obtain ⟨b, d⟩ := e
    cases b <;> simp [archName])
  simp only [List.length_map] at hlen
  exact scanWith_archs es hall _ 0 (by omega)

/-! ## printing a flat expression and parsing it back -/

theorem parseLoop_escMeta (fuel : Nat) (c : Char) (rest : List Char) (f : Frame) (stack : List Frame) (ng : Nat)
    (h : isMeta c = true) :
    parseLoop (fuel + 1) ('\\' :: c :: rest) f stack ng = parseLoop fuel rest (f.push (.chr c) true) stack ng := by
  have hm : "()|[\\.$*+?^{}]".toList = ['(', ')', '|', '[', '\\', '.', '$', '*', '+', '?', '^', '{', '}', ']'] := by decide
  simp only [isMeta, hm, List.contains_eq_mem, List.mem_cons, List.not_mem_nil, or_false, decide_eq_true_eq] at h
  rcases h with h | h | h | h | h | h | h | h | h | h | h | h | h | h <;> subst h <;> rfl

theorem parseLoop_atom (fuel : Nat) (a : Re) (pa : List Char) (h : ppAtom a = some pa) (rest : List Char) (f : Frame) (stack : List Frame) (ng : Nat) :
    parseLoop (fuel + 1) (pa ++ rest) f stack ng = parseLoop fuel rest (f.push a true) stack ng := by
  cases a with
  | chr c =>
    simp only [ppAtom, Option.some.injEq] at h
    by_cases hc : isMeta c = true
    · simp only [hc, if_true] at h; subst h; exact parseLoop_escMeta fuel c rest f stack ng hc
    · simp only [hc] at h; subst h; exact parseLoop_plain fuel c rest f stack ng (by simpa using hc)
  | any => simp only [ppAtom, Option.some.injEq] at h; subst h; rfl
  | cls neg items =>
    cases neg with
    | true => simp [ppAtom] at h
    | false =>
      match items, h with
      | [it], h =>
        simp only [ppAtom, Option.map_eq_some_iff] at h
        obtain ⟨e, he, rfl⟩ := h
        cases it <;> simp [escOf] at he <;> subst he <;> rfl
      | [], h => simp [ppAtom] at h
      | _ :: _ :: _, h => simp [ppAtom] at h
  | _ => simp [ppAtom] at h


theorem parseLoop_quant (fuel : Nat) (q : Char) (hq : q = '*' ∨ q = '+' ∨ q = '?') (rest : List Char) (f : Frame) (stack : List Frame) (ng : Nat)
    (r : Re) (cur' : List (Re × Bool)) (hcur : f.cur = (r, true) :: cur') (hn : nullable r = false) :
    parseLoop (fuel + 1) (q :: rest) f stack ng = parseLoop fuel rest { f with cur := (quantify q r, false) :: cur' } stack ng := by
  rcases hq with h | h | h <;> subst h <;> simp [parseLoop, hcur, hn]

theorem ppAtom_nonnull (a : Re) (pa : List Char) (h : ppAtom a = some pa) : nullable a = false := by
  cases a <;> simp [ppAtom] at h <;> rfl

def steps : Re → Nat
  | .star _ => 2 | .plus _ => 2 | .opt _ => 2 | _ => 1

def flagOf : Re → Bool
  | .star _ => false | .plus _ => false | .opt _ => false | .eol => false | _ => true

theorem ppAtom_len (a : Re) (pa : List Char) (h : ppAtom a = some pa) : 1 ≤ pa.length := by
  cases a with
  | chr c => simp only [ppAtom, Option.some.injEq] at h; subst h; split <;> simp
  | any => simp only [ppAtom, Option.some.injEq] at h; subst h; simp
  | cls neg items =>
    cases neg with
    | true => simp [ppAtom] at h
    | false =>
      match items, h with
      | [it], h =>
        simp only [ppAtom, Option.map_eq_some_iff] at h
        obtain ⟨e, _, rfl⟩ := h
        simp
      | [], h => simp [ppAtom] at h
      | _ :: _ :: _, h => simp [ppAtom] at h
  | _ => simp [ppAtom] at h

theorem parseLoop_qitem (fuel : Nat) (q : Char) (hq : q = '*' ∨ q = '+' ∨ q = '?') (a : Re) (pa : List Char) (ha : ppAtom a = some pa)
    (rest : List Char) (f : Frame) (stack : List Frame) (ng : Nat) :
    parseLoop (fuel + 2) ((pa ++ [q]) ++ rest) f stack ng =
      parseLoop fuel rest { f with cur := (quantify q a, false) :: f.cur } stack ng ∧ 2 ≤ (pa ++ [q]).length := by
  refine ⟨?_, by have := ppAtom_len a pa ha; simp; omega⟩
  simp only [List.append_assoc]
  rw [parseLoop_atom _ a pa ha, List.singleton_append,
    parseLoop_quant fuel q hq rest _ stack ng a f.cur rfl (ppAtom_nonnull a pa ha)]
  rfl

theorem parseLoop_item (fuel : Nat) (r : Re) (pr : List Char) (h : ppItem r = some pr) (rest : List Char) (f : Frame) (stack : List Frame) (ng : Nat) :
    parseLoop (fuel + steps r) (pr ++ rest) f stack ng = parseLoop fuel rest { f with cur := (r, flagOf r) :: f.cur } stack ng ∧ steps r ≤ pr.length := by
  have atomCase : ∀ (a : Re), steps a = 1 → flagOf a = true → ppAtom a = some pr →
      parseLoop (fuel + steps a) (pr ++ rest) f stack ng = parseLoop fuel rest { f with cur := (a, flagOf a) :: f.cur } stack ng ∧ steps a ≤ pr.length := by
    intro a hs hfl ha
    rw [hs, hfl]
    exact ⟨parseLoop_atom fuel a pr ha rest f stack ng, ppAtom_len a pr ha⟩
  cases r with
  | star a =>
    simp only [ppItem, Option.map_eq_some_iff] at h
    obtain ⟨pa, ha, rfl⟩ := h
    exact parseLoop_qitem fuel '*' (Or.inl rfl) a pa ha rest f stack ng
  | plus a =>
    simp only [ppItem, Option.map_eq_some_iff] at h
    obtain ⟨pa, ha, rfl⟩ := h
    exact parseLoop_qitem fuel '+' (Or.inr (Or.inl rfl)) a pa ha rest f stack ng
  | opt a =>
    simp only [ppItem, Option.map_eq_some_iff] at h
    obtain ⟨pa, ha, rfl⟩ := h
    exact parseLoop_qitem fuel '?' (Or.inr (Or.inr rfl)) a pa ha rest f stack ng
  | eol => simp only [ppItem, Option.some.injEq] at h; subst h; exact ⟨rfl, by simp [steps]⟩
  | chr c => exact atomCase _ rfl rfl h
  | any => exact atomCase _ rfl rfl h
  | cls neg items => exact atomCase _ rfl rfl h
  | _ => simp [ppItem, ppAtom] at h

def totalSteps (l : List Re) : Nat := (l.map steps).sum

theorem parseLoop_flat (stack : List Frame) (ng : Nat) : ∀ (items : List Re) (p : List Char), ppFlat items = some p →
    ∀ (fuel : Nat) (f : Frame), parseLoop (fuel + totalSteps items) p f stack ng =
      parseLoop fuel [] { f with cur := (items.map fun r => (r, flagOf r)).reverse ++ f.cur } stack ng ∧ totalSteps items ≤ p.length := by
  intro items
  induction items with
  | nil =>
    intro p h fuel f
    simp only [ppFlat, Option.some.injEq] at h
    subst h
    exact ⟨rfl, by simp [totalSteps]⟩
  | cons r rs ih =>
    intro p h fuel f
    simp only [ppFlat] at h
    cases hr : ppItem r with
    | none => simp [hr] at h
    | some pr =>
      cases hrs : ppFlat rs with
      | none => simp [hr, hrs] at h
      | some prs =>
        simp only [hr, hrs, Option.some.injEq] at h
        subst h
        obtain ⟨e1, l1⟩ := parseLoop_item (fuel + totalSteps rs) r pr hr prs f stack ng
        obtain ⟨e2, l2⟩ := ih prs hrs fuel { f with cur := (r, flagOf r) :: f.cur }
        refine ⟨?_, by simp [totalSteps] at l2 ⊢; omega⟩
        have : fuel + totalSteps (r :: rs) = fuel + totalSteps rs + steps r := by simp [totalSteps]; omega
        rw [this, e1, e2]
        simp

theorem parse_flat (items : List Re) (p : List Char) (h : ppFlat items = some p) : parse (String.ofList p) = .ok (seqOf items, 0) := by
  obtain ⟨e, l⟩ := parseLoop_flat [] 0 items p h (p.length + 1 - totalSteps items) {}
  simp only [parse, String.toList_ofList]
  rw [show p.length + 1 = p.length + 1 - totalSteps items + totalSteps items by omega, e]
  obtain ⟨k, hk⟩ : ∃ k, p.length + 1 - totalSteps items = k + 1 := ⟨p.length - totalSteps items, by omega⟩
  rw [hk]
  simp [parseLoop, Frame.close, altOf, Function.comp_def]


end CbiVerif.Regex
