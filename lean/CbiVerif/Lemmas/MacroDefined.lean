import CbiVerif.Model.MacroExpand
/-! # C03 `defined`: one loop iteration replaces `defined X` / `defined ( X )` by `1`/`0` read from the table, for every
    table; `X` itself is consumed (never looked up for expansion) and the read position ends up behind the result. -/
namespace CbiVerif.MX
open CbiVerif.PP

theorem getElem?_mid {α} (P R : List α) (a : α) : (P ++ a :: R)[P.length]? = some a := by simp
theorem set_mid' {α} (P R : List α) (a x : α) : (P ++ a :: R).set P.length x = P ++ x :: R := by simp

theorem eol_mid (P R : List (Option Tok)) (a : Option Tok) (pr : Bool) :
    (⟨P ++ a :: R, P.length, pr⟩ : Helper).eol = false := by
  simp [Helper.eol]

theorem popAll_noneol (adv : Bool) (top : Helper) (rest : List Helper) (ne : NoExp) (h : top.eol = false) :
    popAll adv top rest ne = .ok top rest ne := by
  cases rest <;> simp [popAll, h]

theorem peekDown_noneol (h : Helper) (rest : List Helper) (he : h.eol = false) :
    peekDown (h :: rest) = (h.toks[h.pos]?).join := by
  simp [peekDown, he]

theorem peekDown_mid (P R : List (Option Tok)) (a : Tok) (pr : Bool) (rest : List Helper) :
    peekDown (⟨P ++ some a :: R, P.length, pr⟩ :: rest) = some a := by
  rw [peekDown_noneol _ _ (eol_mid P R (some a) pr)]
  simp

theorem consume_mid (adv : Bool) (P R : List (Option Tok)) (a : Tok) (pr : Bool) (rest : List Helper) (ne : NoExp) :
    consume adv ⟨P ++ some a :: R, P.length, pr⟩ rest ne = .ok a ⟨P ++ none :: R, P.length + 1, pr⟩ rest ne := by
  simp [consume, popAll_noneol adv _ rest ne (eol_mid P R (some a) pr)]

theorem replaceTop_mid (adv : Bool) (P R : List (Option Tok)) (a : Option Tok) (pr : Bool) (rest : List Helper) (ne : NoExp)
    (F : List Frame) (x : Tok) :
    replaceTop adv ⟨P ++ a :: R, P.length, pr⟩ rest ne F x = .cont ⟨⟨P ++ some x :: R, P.length + 1, pr⟩ :: rest, ne, F, none⟩ := by
  simp [replaceTop, popAll_noneol adv _ rest ne (eol_mid P R a pr)]

/-- re-focus a stream one position to the right -/
theorem shift (P R : List (Option Tok)) (a : Option Tok) (pr : Bool) :
    (⟨P ++ a :: R, P.length + 1, pr⟩ : Helper) = ⟨(P ++ [a]) ++ R, (P ++ [a]).length, pr⟩ := by
  simp

def numTok (v : String) (pw : Bool) : Tok := ⟨.num, v, pw, true⟩

/-- `defined X` (after `defined` was consumed) -/
theorem stepDefined_plain (adv : Bool) (tbl : Table) (s : MS) (P R : List (Option Tok)) (pr : Bool) (rest : List Helper) (x : Tok)
    (hx : x.kind = .ident) (hxp : x.text ≠ "(") :
    stepDefined adv tbl s ⟨P ++ some x :: R, P.length, pr⟩ rest
      = .cont ⟨⟨P ++ some (numTok (isDefined tbl x.text) x.pw) :: R, P.length + 1, pr⟩ :: rest, s.noExp, s.frames, none⟩ := by
  have hxp' : (x.text == "(") = false := by simpa using hxp
  have hxk : (x.kind != TKind.ident) = false := by simp [hx]
  simp only [stepDefined, peekDown_mid, hxp', Bool.false_eq_true, if_false, hxk, replaceTop_mid, numTok]

/-- `defined ( X )` (after `defined` was consumed) -/
theorem stepDefined_paren (adv : Bool) (tbl : Table) (s : MS) (P R : List (Option Tok)) (pr : Bool) (rest : List Helper) (lp x rp : Tok)
    (hlp : lp.text = "(") (hx : x.kind = .ident) (hrp : rp.text = ")") :
    stepDefined adv tbl s ⟨P ++ some lp :: some x :: some rp :: R, P.length, pr⟩ rest
      = .cont ⟨⟨P ++ none :: none :: some (numTok (isDefined tbl x.text) x.pw) :: R, P.length + 3, pr⟩ :: rest, s.noExp, s.frames, none⟩ := by
  have hxk : (x.kind != TKind.ident) = false := by simp [hx]
  have hrp' : (rp.text != ")") = false := by simp [hrp]
  simp only [stepDefined, peekDown_mid, hlp, beq_self_eq_true, if_true, consume_mid]
  rw [shift, consume_mid, shift]
  simp only [peekDown_mid, hrp', Bool.false_eq_true, if_false, hxk, replaceTop_mid, numTok]
  simp

/-- **`defined X`**: for every table and every context (prefix, lower streams, disabled names, suspended calls) -/
theorem step_defined_plain (c : Cfg) (tbl : Table) (P R : List (Option Tok)) (S : List Helper) (D : NoExp) (F : List Frame) (pr : Bool)
    (dt x : Tok) (hd : dt.kind = .ident) (hdt : dt.text = "defined") (hx : x.kind = .ident) (hxp : x.text ≠ "(") :
    step c tbl ⟨⟨P ++ some dt :: some x :: R, P.length, pr⟩ :: S, D, F, none⟩
      = .cont ⟨⟨P ++ none :: some (numTok (isDefined tbl x.text) x.pw) :: R, P.length + 2, pr⟩ :: S, D, F, none⟩ := by
  have hnl : ¬ (P.length ≥ (P ++ some dt :: some x :: R).length) := by simp
  have hk : (dt.kind != TKind.ident) = false := by simp [hd]
  simp only [step, hnl, if_false, getElem?_mid, hk, Bool.false_eq_true, hdt, beq_self_eq_true, if_true, set_mid']
  rw [shift, stepDefined_plain c.adv tbl _ _ R pr S x hx hxp]
  simp

/-- **`defined ( X )`** -/
theorem step_defined_paren (c : Cfg) (tbl : Table) (P R : List (Option Tok)) (S : List Helper) (D : NoExp) (F : List Frame) (pr : Bool)
    (dt lp x rp : Tok) (hd : dt.kind = .ident) (hdt : dt.text = "defined") (hlp : lp.text = "(") (hx : x.kind = .ident) (hrp : rp.text = ")") :
    step c tbl ⟨⟨P ++ some dt :: some lp :: some x :: some rp :: R, P.length, pr⟩ :: S, D, F, none⟩
      = .cont ⟨⟨P ++ none :: none :: none :: some (numTok (isDefined tbl x.text) x.pw) :: R, P.length + 4, pr⟩ :: S, D, F, none⟩ := by
  have hnl : ¬ (P.length ≥ (P ++ some dt :: some lp :: some x :: some rp :: R).length) := by simp
  have hk : (dt.kind != TKind.ident) = false := by simp [hd]
  simp only [step, hnl, if_false, getElem?_mid, hk, Bool.false_eq_true, hdt, beq_self_eq_true, if_true, set_mid']
  rw [shift, stepDefined_paren c.adv tbl _ _ R pr S lp x rp hlp hx hrp]
  simp

end CbiVerif.MX
