import CbiVerif.Lemmas.FCPass
import CbiVerif.Lemmas.FLineKinds
/-!
`dLoop` (the C pass) on accepted texts = one logical line per non-blank physical line, and
the resulting run of `fLoop` agrees with the reference on the *physical* lines.
-/
namespace CbiVerif.Fortran
open Tbl
set_option linter.unusedSimpArgs false

/-- the C pass on one physical line that starts at TOPLEVEL and is not spliced -/
def dLine (l : List Char) : Except FErr (List DMode × OSL) :=
  match dProcess [.top] {} l with
  | .error e => .error e
  | .ok (st1, ob1) => if st1.head? != some .blockC then dNewline st1 ob1 else .ok (st1, ob1)

/-- text-level side condition of one line (from `textOK`) -/
def LineOK (l : List Char) : Prop :=
  (∀ c ∈ l, c ≠ '\\') ∧ (isDirectiveLine l = true → hasSlashStar l = false)

theorem isDirText_ext (p q : List Char) (h : isDirText p = true) : isDirText (p ++ q) = true := by
  unfold isDirText category at *
  rcases p with _ | ⟨a, _ | ⟨b, r⟩⟩
  · simp at h
  · by_cases ha : a = ' '
    · simp [ha] at h
    · by_cases hh : a = '#'
      · subst hh; cases q <;> simp
      · simp [ha, hh] at h
  · simpa using h

theorem dNewline_end (st : List DMode) (ob : OSL) (h : EndSt st) :
    st.head? ≠ some .blockC ∧ ∃ ob', dNewline st ob = .ok ([.top], ob') ∧ Ext ob ob' := by
  rcases h with (h | h | h | h | h) | h | h <;> subst h <;>
    refine ⟨by simp, ?_⟩
  · exact ⟨ob, rfl, ext_refl ob⟩
  · exact ⟨ob, rfl, ext_refl ob⟩
  · exact ⟨ob, rfl, ext_refl ob⟩
  · exact ⟨_, rfl, ext_add ob _⟩
  · exact ⟨_, rfl, ext_add ob _⟩
  · exact ⟨_, rfl, ext_add ob _⟩
  · exact ⟨_, rfl, ext_add ob _⟩

theorem hasSlashStar_tail (c : Char) (cs : List Char) (h : hasSlashStar (c :: cs) = false) :
    hasSlashStar cs = false := by
  simp only [hasSlashStar, Bool.or_eq_false_iff] at h; exact h.2

/-- a directive line: leading blanks, `#`, then the directive states -/
theorem dProcess_dirline (l : List Char) : ∀ (ob : OSL), ob.OnlySp → isDirectiveLine l = true →
    (∀ c ∈ l, c ≠ '\\') → hasSlashStar l = false →
    ∃ st' ob', dProcess [.top] ob l = .ok (st', ob') ∧ EndSt st' ∧ isDirText ob'.parts = true := by
  induction l with
  | nil => intro ob _ h; simp [isDirectiveLine] at h
  | cons c cs ih =>
    intro ob ho hd hb hss
    have hc : c ≠ '\\' := hb c (by simp)
    have hb' : ∀ x ∈ cs, x ≠ '\\' := fun x hx => hb x (by simp [hx])
    have hss' := hasSlashStar_tail c cs hss
    simp only [isDirectiveLine] at hd
    by_cases hs : pyIsSpace c = true
    · simp only [hs, if_true] at hd
      have hne : c ≠ '#' := fun hh => by rw [hh] at hs; exact absurd hs (by decide)
      have h1 : dStep1 [.top] ob c = .ok ([.top], ob.add (emitChar c), false, false) := by
        simp [dStep1, hc, hne]
      simp only [dProcess, h1, Bool.false_eq_true, if_false]
      exact ih _ (onlySp_add ob _ ho (by rw [emitChar_vis]; simp [hs]) (emitChar_lit c)) hd hb' hss'
    · simp only [hs, Bool.false_eq_true, if_false, beq_iff_eq] at hd
      subst hd
      have hbl : ob.blank = true := blank_of_onlySp ob ho
      have h1 : dStep1 [.top] ob '#' = .ok ([.dir, .top], ob.add (.ns '#'), false, false) := by
        simp [dStep1, hbl]
      simp only [dProcess, h1, Bool.false_eq_true, if_false]
      obtain ⟨st', ob', e1, e2, e3⟩ := dProcess_dir cs [.dir, .top] (ob.add (.ns '#')) (Or.inl rfl) hb' hss'
        (by intro h; simp at h)
      refine ⟨st', ob', e1, e2, ?_⟩
      obtain ⟨q, hq⟩ := e3
      rw [hq]
      apply isDirText_ext
      rcases ho with ⟨hp, _⟩ | ⟨hp, _⟩ <;> simp [OSL.add, hp, isDirText, category]

theorem dLine_dir (l : List Char) (hd : isDirectiveLine l = true) (h : LineOK l) :
    ∃ ob, dLine l = .ok ([.top], ob) ∧ isDirText ob.parts = true := by
  obtain ⟨st', ob', e1, e2, e3⟩ := dProcess_dirline l {} onlySp_empty hd h.1 (h.2 hd)
  obtain ⟨n1, ob2, n2, n3⟩ := dNewline_end st' ob' e2
  refine ⟨ob2, ?_, ?_⟩
  · unfold dLine; rw [e1]; simp only [bne_iff_ne, ne_eq, n1, not_false_eq_true, if_true]; exact n2
  · obtain ⟨q, hq⟩ := n3; rw [hq]; exact isDirText_ext _ _ e3

theorem dLine_code (l : List Char) (hd : isDirectiveLine l = false) (h : LineOK l) :
    dLine l = .ok ([.top], ({} : OSL).addAll (l.map emitChar)) := by
  unfold dLine
  rw [dProcess_code l {} h.1 (Or.inr ⟨onlySp_empty, hd⟩)]
  rfl

theorem code_blank_iff (l : List Char) : ∀ ob : OSL, ob.OnlySp →
    (ob.addAll (l.map emitChar)).blank = isBlankLine l := by
  induction l with
  | nil => intro ob ho; simp [OSL.addAll, blank_of_onlySp ob ho, isBlankLine, dropWs]
  | cons c cs ih =>
    intro ob ho
    simp only [List.map_cons, OSL.addAll, List.foldl_cons]
    by_cases hs : pyIsSpace c = true
    · have := ih (ob.add (emitChar c)) (onlySp_add ob _ ho (by rw [emitChar_vis]; simp [hs]) (emitChar_lit c))
      simp only [OSL.addAll] at this
      rw [this]
      simp [isBlankLine, dropWs, cls_of_space c hs]
    · have hk : cls c ≠ .ws := by
        intro hk
        have := isWs_eq_pyIsSpace c
        simp [isWs, hk] at this
        exact hs this
      have hv : (ob.add (emitChar c)).hasVis = true := by
        rw [hasVis_add, emitChar_vis]; simp [hs]
      have hb : (List.foldl OSL.add (ob.add (emitChar c)) (List.map emitChar cs)).hasVis = true := by
        have := hasVis_addAll (ob.add (emitChar c)) (List.map emitChar cs)
        simp only [OSL.addAll] at this
        rw [this, hv]; rfl
      rw [blank_of_hasVis _ hb]
      simp [isBlankLine, dropWs, hk]

/-- what the C pass yields for the lines `n+1, n+2, …` -/
def cpass (n : Nat) : List (List Char) → List CL
  | [] => []
  | l :: ls =>
    (match dLine l with
     | .ok (_, ob) => if ob.blank then [] else [⟨[n + 1], ob.parts⟩]
     | .error _ => []) ++ cpass (n + 1) ls

theorem getLast_ne (l : List Char) (h : ∀ c ∈ l, c ≠ '\\') : (l.getLast? == some '\\') = false := by
  cases hl : l.getLast? with
  | none => rfl
  | some x =>
    have hx : x ∈ l := List.mem_of_getLast? hl
    have := h x hx
    simp [this]

theorem join_empty_parts (ob : OSL) : (({} : OSL).join ob).parts = ob.parts := by
  unfold OSL.join
  rcases hp : ob.parts with _ | ⟨p, ps⟩ <;> simp

theorem emitCL_blank (cur : OSL) (lines : List Nat) (h : cur.blank = true) : emitCL cur lines = [] := by
  unfold emitCL; simp only [OSL.blank, beq_iff_eq] at h; simp [h]

theorem emitCL_nonblank (cur : OSL) (lines : List Nat) (h : cur.blank = false) :
    emitCL cur lines = [⟨lines, cur.parts⟩] := by
  unfold emitCL
  have : ¬ (category cur.parts = Cat.blank) := by
    intro hh; simp [OSL.blank, hh] at h
  simp [this]

/-- **the C pass on an accepted text** -/
theorem dLoop_ok (phys : List (List Char × Bool)) : ∀ (n : Nat), (∀ p ∈ phys, LineOK p.1) →
    dLoop [.top] {} [] n phys = .ok (cpass n (phys.map (·.1))) := by
  induction phys with
  | nil => intro n _; simp [dLoop, cpass, emitCL, category]
  | cons p rest ih =>
    intro n hok
    obtain ⟨content, hasNl⟩ := p
    have hl : LineOK content := hok (content, hasNl) (by simp)
    have hrest : ∀ p ∈ rest, LineOK p.1 := fun p hp => hok p (by simp [hp])
    have hcont := getLast_ne content hl.1
    -- the line's own result
    have hline : ∃ ob, dLine content = .ok ([.top], ob) := by
      by_cases hd : isDirectiveLine content = true
      · obtain ⟨ob, e, _⟩ := dLine_dir content hd hl; exact ⟨ob, e⟩
      · exact ⟨_, dLine_code content (by simpa using hd) hl⟩
    obtain ⟨ob, hob⟩ := hline
    simp only [dLoop, hcont, Bool.and_false, Bool.false_eq_true, if_false, Bool.not_false, Bool.true_and,
      List.map_cons, cpass, hob]
    unfold dLine at hob
    cases hp : dProcess [.top] {} content with
    | error e => simp [hp] at hob
    | ok r =>
      obtain ⟨st1, ob1⟩ := r
      simp only [hp] at hob ⊢
      rw [hob]
      simp only [List.head?_cons, bne_iff_ne, ne_eq, Option.some.injEq, reduceCtorEq, not_false_eq_true,
        if_true, ih (n + 1) hrest, Except.map]
      have hj : (({} : OSL).join ob).blank = ob.blank := by
        simp [OSL.blank, join_empty_parts]
      cases hb : ob.blank with
      | true =>
        simp only [if_true]
        rw [emitCL_blank _ _ (by rw [hj, hb])]
      | false =>
        simp only [Bool.false_eq_true, if_false, List.nil_append]
        rw [emitCL_nonblank _ _ (by rw [hj, hb]), join_empty_parts]

end CbiVerif.Fortran
