import CbiVerif.Lemmas.LexRoundtrip
/-!
# Layouts of a token list (C02: from the TEXT of an `#if` expression to its tokens)

A *layout* says which white space is written before the first token and after every token.  It is *admissible* for a token
list when every run consists of white-space characters of `Lexer.whitespace` (blank, tab, newline, carriage return) and an
EMPTY run stands only between two tokens that are `separable`: the first character of the second token may follow the
first token without changing how the lexer reads it (`follows`, decided from the REGENERATED operator / punctuator /
exponent lists).  `layout w ts` is the text, `flagged w ts` the tokens the lexer must return (kinds, texts, and
`prev_white` set exactly where the layout has a non-empty run).  `Lemmas/LexLayout.lean` proves
`tokenize (layout w ts) = flagged w ts`; the driver (op `layoutx`) executes these same definitions.

Core Lean only (imports the core-only definitions `spellChars`, `lexOK` … of `Lemmas/LexRoundtrip.lean`).
-/
namespace CbiVerif.LexLayout
open CbiVerif.PP CbiVerif.LexRT

/-- no spelling of the list continues `s` followed by `c` -/
def noExt (lits : List String) (s : List Char) (c : Char) : Bool :=
  lits.all fun l => !(s ++ [c]).isPrefixOf l.toList

/-- May the character `c` directly follow the token `t` in the text without changing how the lexer reads `t`?
    * pp-number: `c` is no letter, digit, `_` or `.`, and the last character of the number with `c` is no exponent
      (`1e` followed by `+` would be read as one number `1e+…`);
    * identifier: `c` is no letter, digit or `_`;
    * character constant: anything (it ends at its closing quote);
    * operator / punctuator: no entry of `Lexer.operator` (`Lexer.punctuator`) continues the spelling with `c`
      (`<` followed by `<` or `=` would be read as `<<`, `<=`). -/
def follows (t : Tok) (c : Char) : Bool :=
  match t.kind with
  | .num => !wordChar c && c != '.' && !exponents.contains (String.ofList [t.text.toList.getLast?.getD '0', c])
  | .ident => !identChar c
  | .chr => true
  | .op => noExt operators t.text.toList c
  | .punct => noExt operators t.text.toList c && noExt punctuators t.text.toList c
  | _ => false

/-- `t2` may be written directly after `t1`, with no white space between them -/
def separable (t1 t2 : Tok) : Bool :=
  match spellChars t2 with
  | c :: _ => follows t1 c
  | [] => false

/-- white space before the first token and after each token (the last entry: trailing white space) -/
structure Layout where
  lead : List Char
  gaps : List (List Char)
deriving Repr, DecidableEq

/-- the tokens, each followed by its run -/
def body : List (List Char) → List Tok → List Char
  | g :: gs, t :: ts => spellChars t ++ (g ++ body gs ts)
  | _, _ => []

/-- the text of the token list in layout `w` -/
def layout (w : Layout) (ts : List Tok) : String := String.ofList (w.lead ++ body w.gaps ts)

def gapsOK : List (List Char) → List Tok → Bool
  | [], [] => true
  | g :: gs, t :: ts =>
    g.all isWs && (match ts with | t2 :: _ => !g.isEmpty || separable t t2 | [] => true) && gapsOK gs ts
  | _, _ => false

/-- one run per token, white-space characters only, an empty run only between separable tokens -/
def admissible (w : Layout) (ts : List Tok) : Bool := w.lead.all isWs && gapsOK w.gaps ts

def flag (p : Bool) : List (List Char) → List Tok → List Tok
  | g :: gs, t :: ts => ⟨t.kind, t.text, p, true⟩ :: flag (!g.isEmpty) gs ts
  | _, _ => []

/-- what the lexer returns for `layout w ts`: `prev_white` is set exactly after a non-empty run -/
def flagged (w : Layout) (ts : List Tok) : List Tok := flag (!w.lead.isEmpty) w.gaps ts

/-! ### the C side: where ISO C's own lexer would join two tokens

`separable` speaks about the lexer of the code.  ISO C (translation phase 3, longest match over the punctuators of C11 6.4.6,
comment openers, encoding prefixes of character constants) joins a few more pairs than the code does: `+ +` (`++`), `- -`
(`--`), `- >`, `/ /`, `/ *`, `< :`, `L '…'` ….  A layout that writes such a pair without white space is read by the code as
the two tokens, but it is not a spelling of those two tokens in C; `cAdmissible` excludes it. -/

/-- C11 6.4.6 punctuators of more than one character, and the comment openers -/
def cMulti : List String :=
  ["->", "++", "--", "<<", ">>", "<=", ">=", "==", "!=", "&&", "||", "*=", "/=", "%=", "+=", "-=", "<<=", ">>=", "&=", "^=",
   "|=", "##", "...", "<:", ":>", "<%", "%>", "%:", "%:%:", "//", "/*"]

/-- ISO C would read the end of `t1` and the start of `t2`, written without white space, as part of ONE token -/
def cGlue (t1 t2 : Tok) : Bool :=
  match spellChars t2 with
  | c :: _ =>
    ((t1.kind == .op || t1.kind == .punct) && cMulti.any fun l => (t1.text.toList ++ [c]).isPrefixOf l.toList) ||
    (t1.kind == .ident && (c == '\'' || c == '"'))
  | [] => false

def cGapsOK : List (List Char) → List Tok → Bool
  | g :: gs, t :: t2 :: ts => (!g.isEmpty || !cGlue t t2) && cGapsOK gs (t2 :: ts)
  | _, _ => true

/-- admissible for the code's lexer AND a spelling of the same tokens for ISO C -/
def cAdmissible (w : Layout) (ts : List Tok) : Bool := admissible w ts && cGapsOK w.gaps ts

/-- the layout of `lexer_roundtrip`: one blank before the first and after every token -/
def blanks (n : Nat) : Layout := ⟨[' '], List.replicate n [' ']⟩

/-- the tightest layout: white space only where two neighbours are not separable -/
def tightGaps : List Tok → List (List Char)
  | [] => []
  | [_] => [[]]
  | t :: t2 :: ts => (if separable t t2 then [] else [' ']) :: tightGaps (t2 :: ts)
def tight (ts : List Tok) : Layout := ⟨[], tightGaps ts⟩

end CbiVerif.LexLayout
