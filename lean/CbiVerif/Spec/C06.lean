import CbiVerif.Model.Setmap
/-!
C06 — reference semantics written from the property text: *"each counted line of each code-base file is
attributed to exactly one platform set, namely the set of all platforms that use it, so the rows of the summary
table are the sums of those lines, their total is the SLOC of the code base"*.

The reference works on the flat list of counted lines (one entry per physical line, with the platform set that
attributed it); it knows nothing about nodes, dicts or insertion order.  Core Lean only.
-/
namespace CbiVerif.SM

/-- the per-line attribution of a file: every counted physical line with the platform set of its node -/
def lineAttr (f : FileRec) : List (Nat × Key) :=
  f.nodes.flatMap fun n => n.lines.map fun l => (l, n.plats)

/-- all counted lines of the code base (symlinks stand for their targets and are not counted again) -/
def allLines (fs : List FileRec) : List (Nat × Key) :=
  (fs.filter fun f => !f.link).flatMap lineAttr

/-- **spec**: the row of platform set `k` = number of counted lines whose platform set is exactly `k` -/
def specCount (fs : List FileRec) (k : Key) : Nat := (allLines fs).countP fun p => p.2 = k

/-- **spec**: SLOC of the code base -/
def specSloc (fs : List FileRec) : Nat := (allLines fs).length

end CbiVerif.SM
