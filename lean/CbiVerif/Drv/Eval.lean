import Lean.Data.Json
import CbiVerif.Model.EvalBridge
import CbiVerif.Model.ExpandPP
import CbiVerif.PP.Define
/-! driver ops for C02.

`evalx`  {text, defs:[..], env:[names], ast?}  →
   { model : {ok:{v,u,rest}} | {exc:..} ,          -- Eval.cbiExpr on the lexed + expanded tokens (flags erased)
     truth : bool | null,                            -- Eval.cbiEval
     spec  : {v,u} | null,  grammatical, consts_ok, escaped_char, big_unsuffixed,
     render_match }                                  -- the tokens evaluated == EvalBridge.render env ast
   `spec…render_match` only when an `ast` is supplied.
`evaltoks` {toks:[[kind,text],..]} → model on an explicit token list (no lexer / expander).
-/
open Lean CbiVerif.PP
namespace CbiVerif.Drv.Eval
open CbiVerif.CExpr CbiVerif.EvalBridge

def errName : CbiVerif.Climb.EErr → String
  | .parse => "ParseError"
  | .other 0 => "ModelOutOfFuel"
  | .other 1 => "OverflowError"
  | .other 2 => "TypeError"
  | .other 3 => "ValueError"
  | .other n => s!"Other{n}"

def ppErrName (e : CbiVerif.PP.Err) : String :=
  match e with
  | .runtime _ => "RuntimeError" | .parse _ => "ParseError" | .index => "IndexError" | .type_ => "TypeError"
  | .overflow => "OverflowError" | .other m => m

def str (j : Json) (k : String) : String := (j.getObjValAs? String k).toOption.getD ""
def boolOf (j : Json) (k : String) : Bool := (j.getObjValAs? Bool k).toOption.getD false
def arr (j : Json) (k : String) : List Json := ((j.getObjValAs? (Array Json) k).toOption.getD #[]).toList

def decDigit (j : Json) : Digit :=
  match j with
  | Json.arr a => ⟨Fin.ofNat 16 ((a[0]!).getNat?.toOption.getD 0), (a[1]!).getBool?.toOption.getD false⟩
  | _ => default

def decLit (j : Json) : Lit :=
  let base := match str j "base" with | "oct" => Base.oct | "hex" => .hex | "bin" => .bin | _ => .dec
  let suf := arr j "suf"
  let us := match (suf[0]?.bind (·.getStr?.toOption)).getD "" with | "u" => USuf.u | "U" => .U | _ => .none
  let len := match (suf[1]?.bind (·.getStr?.toOption)).getD "" with | "l" => LSuf.l | "L" => .L | "ll" => .ll | "LL" => .LL | _ => .none
  let uf := (suf[2]?.bind (·.getBool?.toOption)).getD false
  ⟨base, boolOf j "pu", (arr j "digits").map decDigit, ⟨us, len, uf⟩⟩

def firstChar (s : String) : Char := s.toList.headD ' '

def decChr (j : Json) : CExpr.CharLit :=
  match str j "c" with
  | "simple" => .simple (firstChar (str j "ch"))
  | "octal" => .octal ((arr j "ds").map fun d => Fin.ofNat 8 (d.getNat?.toOption.getD 0))
  | "hex" => .hex ((arr j "ds").map decDigit)
  | _ => .plain (firstChar (str j "ch"))

def decUn : String → UnOp
  | "-" => .neg | "+" => .pos | "!" => .lnot | _ => .bnot
def decBin (s : String) : BinOp := (BinOp.all.find? (fun o => o.sym == s)).getD .add

partial def decAst (j : Json) : CExpr.Ast :=
  let sub (k : String) : CExpr.Ast := match j.getObjVal? k with | .ok x => decAst x | _ => .ident "?"
  match str j "k" with
  | "lit" => .lit (decLit j)
  | "chr" => .chr (decChr j)
  | "ident" => .ident (str j "n")
  | "defd" => .defd (str j "n") (boolOf j "p")
  | "paren" => .paren (sub "a")
  | "un" => .un (decUn (str j "op")) (sub "a")
  | "bin" => .bin (decBin (str j "op")) (sub "l") (sub "r")
  | _ => .tern (sub "c") (sub "t") (sub "e")

def valJson (u : Bool) (v : Int) : Json := Json.mkObj [("v", toString v), ("u", u)]

def modelJson (ts : List Tok) : Json × Json :=
  let ts := ts.map CbiVerif.Eval.eraseFlags
  let m := match CbiVerif.Eval.cbiExpr ts with
    | .ok (v, rest) => Json.mkObj [("ok", Json.mkObj [("v", toString v.v), ("u", v.unsigned), ("rest", rest.length)])]
    | .error e => Json.mkObj [("exc", errName e)]
  let t := match CbiVerif.Eval.cbiEval ts with
    | .ok b => Json.bool b
    | .error _ => Json.null
  (m, t)

def sameToks (a b : List Tok) : Bool :=
  a.length == b.length && (a.zip b).all fun (x, y) => x.kind == y.kind && x.text == y.text

def handleEvalx (j : Json) : Json :=
  let defs := (j.getObjValAs? (Array String) "defs").toOption.getD #[]
  let text := str j "text"
  let envNames := ((j.getObjValAs? (Array String) "env").toOption.getD #[]).toList
  let env : Env := fun n => envNames.contains n
  let rec build (ds : List String) (tbl : Table) : Except Err Table :=
    match ds with
    | [] => .ok tbl
    | d :: r => match macroFromDefinitionString d with
      | .ok m => build r (if (tbl.get m.name).isSome then tbl else tbl ++ [(m.name, m)])
      | .error e => .error e
  let toksE : Except String (List Tok) :=
    match build defs.toList [] with
    | .error e => .error (ppErrName e)
    | .ok tbl =>
      match runExpandT tbl (tokenize text) with
      | .ok ts => .ok ts
      | .error e => .error (ppErrName e)
      | .sig s => .error ("sig:" ++ s)
  let specPart (toks : Option (List Tok)) : List (String × Json) :=
    match j.getObjVal? "ast" with
    | .ok aj =>
      let a := decAst aj
      let sv := match cEval env a with
        | some v => valJson v.unsigned v.toInt
        | none => Json.null
      [("spec", sv), ("grammatical", a.grammatical), ("consts_ok", a.constsOK),
       ("escaped_char", usesEscapedChar a), ("big_unsuffixed", usesBigUnsuffixed a),
       ("utype", a.utype),
       ("render_match", match toks with | some ts => sameToks ts (render env a) | none => false),
       ("src_match", sameToks (tokenize text) (renderSrc a))]
    | _ => []
  match toksE with
  | .error e => Json.mkObj ([("model", Json.mkObj [("exc", e), ("stage", "expand")]), ("truth", Json.null)] ++ specPart none)
  | .ok ts =>
    let (m, t) := modelJson ts
    Json.mkObj ([("model", m), ("truth", t)] ++ specPart (some ts))

def decKind : String → TKind
  | "num" => .num | "chr" => .chr | "str" => .str | "ident" => .ident | "op" => .op | "punct" => .punct | _ => .unknown

def handleEvalToks (j : Json) : Json :=
  let ts : List Tok := (arr j "toks").map fun t =>
    match t with
    | Json.arr a => ⟨decKind ((a[0]!).getStr?.toOption.getD ""), (a[1]!).getStr?.toOption.getD "", false, true⟩
    | _ => default
  let (m, t) := modelJson ts
  Json.mkObj [("model", m), ("truth", t)]

def handlers : List (String × (Json → Json)) := [("evalx", handleEvalx), ("evaltoks", handleEvalToks)]

end CbiVerif.Drv.Eval
