"""C07 — coverage, average coverage, distance, divergence equal their definitions.

Implementation: codebasin.report.{coverage, average_coverage, distance, divergence, extract_platforms}
Model (Lean):   CbiVerif.Metrics (exact rationals, NaN = null), driver op "metrics"
Independent oracle: the definitions evaluated on an explicit multiset of lines (Python Fractions).
"""
from __future__ import annotations

import itertools
import math
from fractions import Fraction

from harness import core

NAMES = ["A", "B", "C", "D", "E", "F", "G", "H"]
# naming schemes for the random stream: plain letters, names that are substrings / prefixes of each other,
# names with characters that matter to printing ("{", ",", space) and non-ASCII
NAME_POOLS = [
    NAMES,
    ["cpu", "cpu-avx512", "gpu", "gpu-fp64", "a", "ab", "abc", "b"],
    ["x", "xx", "xxx", "x x", "x,y", "{x}", "ü", "X"],
    ["p0", "p1", "p10", "p11", "p2", "p", "0", "1"],
]
TOL = 1e-9


def frac(s):
    if s is None:
        return None
    n, d = s.split("/")
    return Fraction(int(n), int(d))


def close(f, q):
    """float result f vs exact q (None = NaN)"""
    if q is None:
        return isinstance(f, float) and math.isnan(f)
    if not isinstance(f, (int, float)) or (isinstance(f, float) and math.isnan(f)):
        return False
    return abs(Fraction(f) - q) <= Fraction(TOL) * max(1, abs(q))


# ---- the property's definitions on line multisets (independent of the code and of the Lean model)
def oracle(sm, ps):
    total = sum(c for _, c in sm)
    allp = sorted(set(p for k, _ in sm for p in k))
    sel = list(ps) if ps else allp
    out = {}
    used = sum(c for k, c in sm if any(p in sel for p in k))
    out["coverage"] = None if total == 0 else Fraction(100 * used, total)
    if not sel or total == 0:
        out["avg"] = None
    else:
        out["avg"] = sum(Fraction(100 * sum(c for k, c in sm if p in k), total) for p in sel) / len(sel)

    def dist(p, q):
        u = sum(c for k, c in sm if p in k or q in k)
        i = sum(c for k, c in sm if p in k and q in k)
        return None if u == 0 else 1 - Fraction(i, u)

    out["matrix"] = [[dist(p, q) for q in allp] for p in allp]
    pairs = list(itertools.combinations(allp, 2))
    ds = [dist(p, q) for p, q in pairs]
    out["divergence"] = None if not pairs or any(d is None for d in ds) else sum(ds) / len(pairs)
    out["plats"] = allp
    return out


def impl(report, sm, ps):
    setmap = {}
    for k, c in sm:
        setmap[frozenset(k)] = setmap.get(frozenset(k), 0) + c
    allp = sorted(report.extract_platforms(setmap))
    out = {"plats": allp}

    def call(f, *a):
        try:
            return f(*a)
        except Exception as e:  # noqa
            return f"EXC:{type(e).__name__}"

    out["coverage"] = call(report.coverage, setmap, set(ps) if ps else None)
    out["avg"] = call(report.average_coverage, setmap, set(ps) if ps else None)
    out["divergence"] = call(report.divergence, setmap)
    out["matrix"] = [[call(report.distance, setmap, p, q) for q in allp] for p in allp]
    return out, setmap


def check_case(ctx, drv, report, sm, ps, origin):
    case = {"setmap": [[list(k), c] for k, c in sm], "platforms": list(ps), "origin": origin}
    got, setmap = impl(report, sm, ps)
    want = oracle(sm, ps)
    total = sum(c for _, c in sm)
    nplat = len(want["plats"])
    ctx.count(key=f"platforms={nplat}", nontrivial_key=None)
    ctx.dist["nan_cov" if want["coverage"] is None else "def_cov"] += 1
    ctx.dist["nan_div" if want["divergence"] is None else "def_div"] += 1
    if total > 0 and nplat >= 2 and want["divergence"] not in (None, 0) and want["coverage"] not in (None, 0, 100):
        ctx.nontrivial.add(repr(sorted((tuple(sorted(k)), c) for k, c in setmap.items())) + repr(sorted(ps)))
    ctx.sample(case)
    # --- implementation vs the property's definitions
    bad = []
    if got["plats"] != want["plats"]:
        bad.append(f"extract_platforms {got['plats']} != {want['plats']}")
    for key in ("coverage", "avg", "divergence"):
        if not close(got[key], want[key]):
            bad.append(f"{key}: implementation {got[key]!r}, definition {want[key]}")
    if got["plats"] == want["plats"]:
        for i, p in enumerate(want["plats"]):
            for j, q in enumerate(want["plats"]):
                g, w = got["matrix"][i][j], want["matrix"][i][j]
                if not close(g, w):
                    bad.append(f"distance({p},{q}): implementation {g!r}, definition {w}")
                # symmetric, zero on the diagonal, range
                g2 = got["matrix"][j][i]
                if isinstance(g, float) and isinstance(g2, float) and not (g == g2 or (math.isnan(g) and math.isnan(g2))):
                    bad.append(f"distance not symmetric for ({p},{q}): {g} vs {g2}")
                if i == j and isinstance(g, float) and not math.isnan(g) and g != 0:
                    bad.append(f"distance({p},{p}) = {g} != 0")
    for key, lo, hi in (("coverage", 0, 100), ("avg", 0, 100), ("divergence", 0, 1)):
        v = got[key]
        if isinstance(v, float) and not math.isnan(v) and not (lo - TOL <= v <= hi + TOL):
            bad.append(f"{key} = {v} outside [{lo},{hi}]")
    if bad:
        ctx.violation("; ".join(bad[:4]), case)
    # documented NaN for "no platforms" in coverage(): recorded reading difference
    if total > 0 and nplat == 0 and isinstance(got["coverage"], float) and not math.isnan(got["coverage"]):
        ctx.classify(case, "coverage() of a setmap without platforms is not NaN",
                     [("F-C07-1", lambda c: True)])
    # --- model vs implementation (correspondence)
    if drv is not None:
        m = drv.ask({"op": "metrics", "setmap": case["setmap"], "platforms": case["platforms"]})
        mm = {"coverage": frac(m["coverage"]), "avg": frac(m["avg"]), "divergence": frac(m["divergence"])}
        diffs = [k for k in mm if not close(got[k], mm[k])]
        if m["plats"] != got["plats"]:
            diffs.append("plats")
        else:
            for i in range(len(m["plats"])):
                for j in range(len(m["plats"])):
                    if not close(got["matrix"][i][j], frac(m["matrix"][i][j])):
                        diffs.append(f"distance[{i}][{j}]")
        if diffs:
            ctx.corr_break("metrics", case, {k: repr(got[k]) for k in ("coverage", "avg", "divergence", "matrix")}, m)
        # model vs definitions: a disagreement here means the model itself left the spec
        md = [k for k in mm if mm[k] != want[k]]
        if md:
            ctx.notes.append(f"model != definition on {case} for {md}")


def history(ctx, report, sm, rng):
    """The metrics are functions of the table: a query must not change the table, and the answer must not
    depend on which queries were made before on the same dict object."""
    import collections as _c

    def build():
        d = _c.defaultdict(int) if rng.random() < 0.5 else {}
        for k, c in sm:
            d[frozenset(k)] = d.get(frozenset(k), 0) + c
        return d

    fresh = build()
    plats = sorted(set(p for k in fresh for p in k))
    queries = [("coverage", lambda d: report.coverage(d)), ("average_coverage", lambda d: report.average_coverage(d)),
               ("divergence", lambda d: report.divergence(d)), ("extract_platforms", lambda d: sorted(report.extract_platforms(d)))]
    if len(plats) >= 2:
        a, b = plats[0], plats[-1]
        queries.append((f"distance({a},{b})", lambda d: report.distance(d, a, b)))
    if rng.random() < 0.3:
        import io
        queries.append(("summary", lambda d: (report.summary(d, io.StringIO()), None)[1]))

    def same(x, y):
        if isinstance(x, float) and isinstance(y, float):
            return (math.isnan(x) and math.isnan(y)) or x == y
        return x == y

    try:
        base = {name: q(build()) for name, q in queries}  # each on a fresh table
        shared = build()
        snapshot = dict(shared)
        order = queries[:]
        rng.shuffle(order)
        order = order + order[:2]
        for name, q in order:
            got = q(shared)
            ctx.count(key="history")
            if not same(got, base[name]):
                ctx.violation(f"{name} answers {got!r} after earlier queries on the same table but {base[name]!r} on a fresh one",
                              {"setmap": [[list(k), c] for k, c in sm], "queries": [n for n, _ in order]})
                return
            if dict(shared) != snapshot:
                ctx.violation(f"query {name} modified the caller's table",
                              {"setmap": [[list(k), c] for k, c in sm], "queries": [n for n, _ in order]})
                return
    except Exception as e:  # noqa
        if sum(c for _, c in sm) > 0:
            ctx.violation(f"query sequence raises {type(e).__name__}: {e}", {"setmap": [[list(k), c] for k, c in sm]})


def metamorphic(ctx, report, sm, rng):
    """rename / reorder / scale invariance on the implementation itself."""
    setmap = {}
    for k, c in sm:
        setmap[frozenset(k)] = setmap.get(frozenset(k), 0) + c
    allp = sorted(set(p for k in setmap for p in k))

    def metrics(smap, ren=lambda x: x):
        try:
            plats = sorted(report.extract_platforms(smap))
            return (
                report.coverage(smap), report.average_coverage(smap), report.divergence(smap),
                {(p, q): report.distance(smap, p, q) for p in plats for q in plats},
            )
        except Exception as e:  # noqa
            return f"EXC:{type(e).__name__}"

    def same(a, b):
        if isinstance(a, float) and isinstance(b, float):
            return (math.isnan(a) and math.isnan(b)) or abs(a - b) <= TOL * max(1, abs(a))
        return a == b

    base = metrics(setmap)
    if isinstance(base, str):
        return
    # reorder entries
    items = list(setmap.items())
    rng.shuffle(items)
    m2 = metrics(dict(items))
    # scale
    k = rng.choice([2, 3, 7, 1000])
    m3 = metrics({s: c * k for s, c in setmap.items()})
    # rename (injective)
    perm = allp[:]
    rng.shuffle(perm)
    ren = {p: "z" + q for p, q in zip(allp, perm)}
    m4 = metrics({frozenset(ren[p] for p in s): c for s, c in setmap.items()})
    for label, mx in (("reordering entries", m2), ("scaling counts by %d" % k, m3), ("renaming platforms", m4)):
        ctx.count(key="metamorphic:" + label.split()[0])
        if isinstance(mx, str):
            ctx.violation(f"{label} raises {mx}", {"setmap": [[sorted(s), c] for s, c in setmap.items()], "transform": label})
            continue
        ok = all(same(a, b) for a, b in zip(base[:3], mx[:3]))
        if label.startswith("renaming"):
            ok = ok and all(same(base[3][(p, q)], mx[3][(ren[p], ren[q])]) for (p, q) in base[3])
        else:
            ok = ok and all(same(base[3][k2], mx[3][k2]) for k2 in base[3])
        if not ok:
            ctx.violation(f"metrics change under {label}", {"setmap": [[sorted(s), c] for s, c in setmap.items()], "transform": label, "ren": ren})


def clustering_case(ctx, report, sm, scratch):
    """the distance matrix printed by the clustering report: cell (p, q) is the Jaccard distance of p and q to two decimals"""
    import io

    setmap = {}
    for k, c in sm:
        setmap[frozenset(k)] = setmap.get(frozenset(k), 0) + c
    want = oracle(sm, [])
    plats = want["plats"]
    if len(plats) < 2 or any(d is None for row in want["matrix"] for d in row):
        return
    case = {"setmap": [[list(k), c] for k, c in sm], "origin": "clustering-report", "report": "clustering"}
    buf = io.StringIO()
    try:
        report.clustering(str(scratch / "dendrogram.png"), setmap, stream=buf)
    except Exception as e:  # noqa
        ctx.violation(f"clustering report raises {type(e).__name__}: {e}", case)
        return
    finally:
        try:
            from matplotlib import pyplot as _plt
            _plt.close("all")   # the report leaves its figure open; the harness makes hundreds of them
        except Exception:  # noqa
            pass
    ctx.count(key=f"clustering-report:platforms={len(plats)}")
    rows = [[c.strip() for c in ln.strip().strip("│").split("│")] for ln in buf.getvalue().splitlines() if ln.strip().startswith("│")]
    header = rows[0][1:] if rows else []
    if not rows or sorted(header) != sorted(plats) or [r[0] for r in rows[1:]] != header:
        ctx.corr_break("clustering-report layout", case, rows[:2], {"header": plats})
        return
    # the cell in the row labelled p and the column labelled q is the distance of p and q, whatever order the labels are in
    idx = {p: k for k, p in enumerate(plats)}
    bad = []
    for i, p in enumerate(header):
        for j, q in enumerate(header):
            w = want["matrix"][idx[p]][idx[q]]
            try:
                cell = Fraction(rows[1 + i][1 + j])
            except (ValueError, IndexError):
                bad.append(f"cell ({p},{q}) is {rows[1 + i][1 + j:2 + j]}")
                continue
            if abs(cell - w) > Fraction(5, 1000) + Fraction(TOL):
                bad.append(f"printed distance({p},{q}) = {rows[1 + i][1 + j]}, the Jaccard distance of their line sets is {w} = {float(w):.4f}")
    if bad:
        ctx.violation("clustering report: " + "; ".join(bad[:3]), case)


def summary_case(ctx, report, sm):
    """the metric lines printed by the summary report equal the definitions (two decimals)"""
    import io
    import re

    setmap = {}
    for k, c in sm:
        setmap[frozenset(k)] = setmap.get(frozenset(k), 0) + c
    if sum(setmap.values()) == 0:
        return
    want = oracle(sm, [])
    case = {"setmap": [[list(k), c] for k, c in sm], "origin": "summary-report", "report": "summary"}
    buf = io.StringIO()
    try:
        report.summary(setmap, buf)
    except Exception as e:  # noqa
        ctx.violation(f"summary report raises {type(e).__name__}: {e}", case)
        return
    ctx.count(key="summary-report" + ("" if any(not k for k in setmap) else ":no-unused-row"))
    text = buf.getvalue()
    bad = []
    for label, key in (("Code Divergence", "divergence"), ("Coverage (%)", "coverage"), ("Avg. Coverage (%)", "avg")):
        m = re.search(r"^" + re.escape(label) + r": (\S+)$", text, re.M)
        if not m:
            ctx.corr_break("summary-report layout", case, text[-300:], label)
            return
        w = want[key]
        if w is None:
            if m.group(1) != "nan":
                bad.append(f"{label}: printed {m.group(1)}, the definition is undefined (NaN)")
        else:
            try:
                ok = abs(Fraction(m.group(1)) - w) <= Fraction(5, 1000) + Fraction(TOL)
            except ValueError:
                ok = False
            if not ok:
                bad.append(f"{label}: printed {m.group(1)}, the definition gives {w} = {float(w):.4f}")
    m = re.search(r"^Total SLOC: (\d+)$", text, re.M)
    if not m or int(m.group(1)) != sum(setmap.values()):
        bad.append(f"Total SLOC: printed {m.group(1) if m else None}, the table holds {sum(setmap.values())} lines")
    if bad:
        ctx.violation("summary report: " + "; ".join(bad[:3]), case)


def tables_exhaustive(nplat, counts):
    names = NAMES[:nplat]
    subsets = [tuple(s) for r in range(nplat + 1) for s in itertools.combinations(names, r)]
    for combo in itertools.product([None] + counts, repeat=len(subsets)):
        yield [(list(s), c) for s, c in zip(subsets, combo) if c is not None]


def random_table(rng):
    nplat = rng.randint(0, 8)
    pool = rng.choice(NAME_POOLS)
    names = rng.sample(pool, nplat)
    n = rng.randint(0, 12)
    sm = []
    for _ in range(n):
        k = [p for p in names if rng.random() < rng.choice([0.2, 0.5, 0.8])]
        c = rng.choice([0, 1, 2, 3, 5, 10, 999, 10 ** 6, 10 ** 12, rng.randint(0, 10 ** 12)])
        sm.append((k, c))
    return sm


def subsets_of(plats, rng, limit):
    subs = [list(s) for r in range(len(plats) + 1) for s in itertools.combinations(plats, r)]
    if len(subs) > limit:
        subs = [[]] + rng.sample(subs, limit - 1)
    return subs


def run(ctx, drv):
    cb = core.import_codebasin()
    from codebasin import report

    ctx.rule = ("tables = lists of (platform set, count); exhaustive over <=2 platforms with counts {absent,0,1,2,5} "
                "(quick) / <=3 platforms with counts {absent,0,1,5} (thorough) x every platforms-argument subset; "
                "random tables up to 8 platforms, counts up to 1e12. Non-trivial = distinct (table, platforms argument) "
                "with >= 2 platforms, divergence defined and non-zero, coverage strictly between 0 and 100.  Clustering report: 40 (quick) / 400 "
                "(thorough) tables over 2-7 platforms (plain letters, or names such as p2 / p10 / node2 / node10 whose natural and lexicographic "
                "orders differ); every printed cell is compared, by its row and column labels, with the exact Jaccard distance.")
    ctx.assumptions += [
        "float result accepted when within 1e-9 relative of the exact rational (IEEE rounding is not modelled)",
        "reading of 'NaN exactly when undefined': coverage NaN iff no lines; average coverage NaN iff no lines or no platforms; "
        "distance NaN iff neither platform has a line; divergence NaN iff < 2 platforms or some pair has no line",
    ]
    # corpus first
    import json
    for f in sorted((core.VERIF / "corpus" / "C07").glob("*.json")):
        c = json.loads(f.read_text())
        check_case(ctx, drv, report, [(k, n) for k, n in c["setmap"]], c.get("platforms", []), "corpus:" + f.name)
    # exhaustive
    for nplat, counts in ([(1, [0, 1, 2, 5]), (2, [0, 1, 2, 5])] + ([(3, [0, 1, 5])] if ctx.thorough() or ctx.budget_scale > 1 else [])):
        for sm in tables_exhaustive(nplat, counts):
            plats = sorted(set(p for k, _ in sm for p in k))
            for ps in subsets_of(plats, ctx.rng, 8 if nplat < 3 else 3):
                check_case(ctx, drv, report, sm, ps, f"exhaustive{nplat}")
    ctx.exhaustive = True
    # random
    for i in range(ctx.n(4000, 30000)):
        sm = random_table(ctx.rng)
        plats = sorted(set(p for k, _ in sm for p in k))
        ps = [p for p in plats if ctx.rng.random() < 0.5] if ctx.rng.random() < 0.7 else []
        check_case(ctx, drv, report, sm, ps, "random")
        if i % 3 == 0:
            metamorphic(ctx, report, sm, ctx.rng)
        if i % 4 == 1:
            history(ctx, report, sm, ctx.rng)
        if i % 3 == 2:
            summary_case(ctx, report, sm if ctx.rng.random() < 0.5 else [(k, c) for k, c in sm if k])
    # the clustering report's printed distance matrix (2-7 platforms, distinct pair distances)
    with core.Scratch() as scratch:
        for i in range(ctx.n(40, 400)):
            # plain letters, or names whose natural and lexicographic orders differ (p2 / p10): labels and cells must agree
            # … or hyphenated names whose concatenations collide ("cpu" + "omp-gpu" vs "cpu-omp" + "gpu")
            pool = ctx.rng.choice([NAMES, NAMES, ["p0", "p1", "p10", "p11", "p2", "p9", "node2", "node10"],
                                   ["cpu", "cpu-omp", "gpu", "omp-gpu", "omp", "cpu-omp-gpu", "a", "a-a"]])
            names = sorted(ctx.rng.sample(pool, ctx.rng.choice([2, 3, 4, 4, 5, 5, 6, 7])))
            sm = [([p], ctx.rng.randint(1, 9)) for p in names]
            for _ in range(ctx.rng.randint(2, 10)):
                sm.append(([p for p in names if ctx.rng.random() < 0.5], ctx.rng.choice([0, 1, 2, 3, 5, 10, 40])))
            clustering_case(ctx, report, sm, scratch)


def search(ctx, drv):
    run(ctx, drv)


def replay(ctx, drv, case):
    core.import_codebasin()
    from codebasin import report

    sm = [(k, n) for k, n in case["setmap"]]
    if case.get("report") == "summary":
        c2 = core.Ctx(ctx.prop, "quick", 0)
        summary_case(c2, report, sm)
        return {"violations": [w for w, _ in c2.violations], "definition": {k: str(v) for k, v in oracle(sm, []).items() if k != "matrix"}}
    if case.get("report") == "clustering":
        c2 = core.Ctx(ctx.prop, "quick", 0)
        with core.Scratch() as scratch:
            clustering_case(c2, report, sm, scratch)
        return {"violations": [w for w, _ in c2.violations], "definition": oracle(sm, [])}
    got, _ = impl(report, sm, case.get("platforms", []))
    out = {"implementation": got, "definition": oracle(sm, case.get("platforms", []))}
    if drv is not None:
        out["model"] = drv.ask({"op": "metrics", "setmap": case["setmap"], "platforms": case.get("platforms", [])})
    return out
