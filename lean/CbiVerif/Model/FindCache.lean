import CbiVerif.Model.Exclude
import CbiVerif.Model.FindFold
/-!
C08 — `finder.find` with its real shared state, as an instance of the state-threading fold
`FindFold.findS`.

The state `σ` carried from one compile command to the next (over all platforms) is the explicit
parse cache of `Model/Exclude.lean` (`ParserState.trees` + `ParserState.langs`):
`Cache = List (file × language class × parsed tree)`.  One step (`cstep`) is the body of the inner
loop of `finder.find` for ONE database entry, executed by the total, fuelled engine
`Exclude.runEntry` (fresh `Platform`, `-D`, `-I`, `-include` files, then the file itself) on the
cache it is handed; it returns what the command visited and logged, and the cache it leaves behind.
Nothing of `Exclude`'s engine is duplicated here.

The cache-free single-command analysis `analyse` is the same entry run by the reference engine
`Exclude.runEntryRef`, which has no cache at all: a file is parsed whenever it is reached, in a class
that depends on the file and its includer only (extension class, else the includer's).

`findC` is `finder.find`: pre-parse of the code base and of every compiled file (by extension), then
`findS cstep` over platforms × commands.  `findRefG` is the same with `findG analyse`, i.e. the
generic fold the 20 composition theorems of `Props/C08.lean` are about.

The one way in which the shared cache is observable in the code as it is (finding F-C08-1 = D19):
a file that is not pre-parsed keeps the language class of whichever command reached it first.  The
engine logs every such use (`MixEv`); `mixLog` collects the log of a whole run and `NoMix` says it is
empty — a decidable condition on (semantics, fuel, code base, configuration).

Core Lean only (runs in the native driver: op `c08find`, field `cached`).
-/
namespace CbiVerif.FindCache
open CbiVerif.PP CbiVerif.FindFold CbiVerif.Exclude

/-- a node of a parsed file: (canonical path, index in parse order) -/
abbrev NodeKey := String × Nat

/-- what a finished single-command association state shows to the outer loop -/
def outOf (l : Local) : Except Err (Out NodeKey Warn) :=
  match l.err with
  | some er => .error er
  | none => .ok { keys := l.assoc.map (·.1), warns := l.warns }

/-- one database entry run on the shared cache `c`: fresh `Platform`, fresh association state (the
accumulation over commands is `FindFold.associate`'s), empty mixing log -/
def entryX (S : Sem) (n : Nat) (c : Cache) (e : Entry) : XW :=
  runEntry S n "" e { cache := c }

/-- the step of the state-threading fold: σ = the parse cache -/
def cstep (S : Sem) (n : Nat) (c : Cache) (e : Entry) : Except Err (Out NodeKey Warn × Cache) :=
  match outOf (entryX S n c e).loc with
  | .error er => .error er
  | .ok o => .ok (o, (entryX S n c e).cache)

/-- the step logged a language-mixing event -/
def mixedStep (S : Sem) (n : Nat) (c : Cache) (e : Entry) : Bool :=
  !(entryX S n c e).mixed.isEmpty

/-- the cache-free analysis of ONE database entry from a fresh state -/
def analyse (S : Sem) (n : Nat) (e : Entry) : Except Err (Out NodeKey Warn) :=
  outOf (runEntryRef S n "" e {})

/-- "Build a tree for each unique file for all platforms" -/
def prep (S : Sem) (cb : List String) (cfg : Config Entry) : XW :=
  preparse S (cb ++ entryFiles cfg) {}

/-- `finder.find(rootdir, codebase, configuration)` with the shared parse cache -/
def findC (S : Sem) (n : Nat) (cb : List String) (cfg : Config Entry) : Except Err (Acc NodeKey Warn) :=
  match (prep S cb cfg).loc.err with
  | some er => .error er
  | none =>
    match findS (cstep S n) (prep S cb cfg).cache cfg with
    | .ok (a, _) => .ok a
    | .error er => .error er

/-- the cache the run leaves behind (for reporting the node lists) -/
def finalCache (S : Sem) (n : Nat) (cb : List String) (cfg : Config Entry) : Cache :=
  match findS (cstep S n) (prep S cb cfg).cache cfg with
  | .ok (_, c) => c
  | .error _ => (prep S cb cfg).cache

/-- the same run without any cache: the generic fold over the cache-free analysis -/
def findRefG (S : Sem) (n : Nat) (cb : List String) (cfg : Config Entry) : Except Err (Acc NodeKey Warn) :=
  match (prep S cb cfg).loc.err with
  | some er => .error er
  | none => findG (analyse S n) cfg

/-- the mixing events of the commands `es`, run in this order from cache `c` (the run stops at the
first command that raises) -/
def mixJobs (S : Sem) (n : Nat) : List Entry → Cache → List MixEv
  | [], _ => []
  | e :: es, c =>
    (entryX S n c e).mixed ++
      (match outOf (entryX S n c e).loc with
       | .error _ => []
       | .ok _ => mixJobs S n es (entryX S n c e).cache)

/-- all language-mixing events of a run of `findC` -/
def mixLog (S : Sem) (n : Nat) (cb : List String) (cfg : Config Entry) : List MixEv :=
  mixJobs S n ((jobs cfg).map (·.2)) (prep S cb cfg).cache

/-- no file was used under a class other than the one that depends on the file and its includer only -/
def NoMix (S : Sem) (n : Nat) (cb : List String) (cfg : Config Entry) : Prop :=
  mixLog S n cb cfg = []

instance (S : Sem) (n : Nat) (cb : List String) (cfg : Config Entry) : Decidable (NoMix S n cb cfg) :=
  inferInstanceAs (Decidable (mixLog S n cb cfg = []))

/-! ### the instance the driver runs -/

/-- the semantics op `c08find` runs for the field `cached`: `Exclude.sem fs`, the same record op `c10find` runs
(`Platform.process_include` applies to `-include` files as well: `Exclude.findForced`) -/
def semC (fs : FSMap) : Sem := sem fs

end CbiVerif.FindCache
