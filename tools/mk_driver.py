#!/venv/bin/python
"""mk_driver.py [agent ...] : regenerate lean/Driver.lean's imports and handlerTable as the union of the
current file and the agents' copies (/tmp/ag_<agent>/verif/lean/Driver.lean)."""
import re, sys
def parse(path):
    s = open(path).read()
    imps = re.findall(r"^import (CbiVerif\.Drv\.\S+)", s, re.M)
    hs = re.findall(r"(CbiVerif\.Drv\.[A-Za-z0-9_.]+\.handlers)", s)
    return imps, hs
imps, hs = parse("/verif/lean/Driver.lean")
for a in sys.argv[1:]:
    i2, h2 = parse(f"/tmp/ag_{a}/verif/lean/Driver.lean")
    imps += [i for i in i2 if i not in imps]; hs += [h for h in h2 if h not in hs]
s = open("/verif/lean/Driver.lean").read()
head = "import Lean.Data.Json\n" + "".join(f"import {i}\n" for i in imps)
body = s[s.index("/-! Native JSON-lines driver"):]
a = body.index("def handlerTable"); b = body.index("def handle (j : Json)")
table = "def handlerTable : List (String × (Json → Json)) :=\n  (ppOps.map fun o => (o, handlePP)) ++\n" + " ++\n".join("  " + h for h in hs) + "\n\n"
open("/verif/lean/Driver.lean", "w").write(head + body[:a] + table + body[b:])
print(len(imps), "driver modules")
