/-! # Text → physical lines (shared by the C05 model and specification)

A decoded source text is a `List Char`.  Python's text-mode file iteration (after
universal-newline decoding) yields the pieces between `'\n'` characters; every piece
but possibly the last one carries its newline.  This file only fixes what a
*physical line* and its number are; what a trailing backslash means is decided
separately by the model (`c_file_source`) and by the specification (`splice`). -/
namespace CbiVerif.CText

/-- one physical line: its characters without the newline, and whether a newline followed -/
structure RawLine where
  body : List Char
  nl : Bool
deriving Repr, DecidableEq, Inhabited

/-- `cur` holds the characters of the current piece in reverse order -/
def rawLinesAux : List Char → List Char → List RawLine
  | [], cur => if cur.isEmpty then [] else [⟨cur.reverse, false⟩]
  | c :: cs, cur => if c == '\n' then ⟨cur.reverse, true⟩ :: rawLinesAux cs [] else rawLinesAux cs (c :: cur)

/-- `for line in fp` -/
def rawLines (t : List Char) : List RawLine := rawLinesAux t []

/-- universal-newline decoding done by `open(path)` (text mode, `newline=None`):
    `\r\n` and a lone `\r` become `\n` -/
def univNewlines : List Char → List Char
  | [] => []
  | '\r' :: '\n' :: cs => '\n' :: univNewlines cs
  | '\r' :: cs => '\n' :: univNewlines cs
  | c :: cs => c :: univNewlines cs

end CbiVerif.CText
