import CbiVerif.Model.FSource
import CbiVerif.PP.Analyse
/-!
Conditional selection in a Fortran source.

The node list of a Fortran source (`fortranSource` = `c_file_source(directives_only=True)` feeding
`fortran_file_source`, then `group` = the loop of `FileParser.parse_file`) enters the
language-independent layer exactly like the node list of a C source: every directive node goes
through `DirectiveParser.parse` (`PP.parseDirective`, the one used by `PP.parseFile`), every code
node becomes a `.code` node, and the resulting `PNode` list is handed to the ONE definition of
tree building + association of C01, `PP.analyseNodes` (`Cond.build`, `Cond.model`, `Cond.semCBI`);
the reference is the ONE flat ISO C machine, `PP.referenceNodes` (`Cond.reference`, `Cond.semC`).
Nothing of the conditional layer is re-implemented here.  Core Lean only.
-/
namespace CbiVerif.Fortran

/-- the three `RuntimeError`s of `fortran_file_source` / `c_file_source`, as the error type of the C path -/
def errOf : FErr → PP.Err
  | .notTop => .runtime "Parser must end at top level without 'relaxed' mode."
  | .eofBackslash => .runtime "file seems to end in \\ with no newline!"
  | .inconsistent => .runtime "Inconsistent parser state."

/-- `FileParser.parse_file`: a directive logical line goes through `DirectiveParser(...).parse()`,
a run of code lines is one `CodeNode` -/
def pnodeOf (n : Node) : Except PP.Err PP.PNode :=
  if n.isDir then PP.parseDirective (String.ofList (n.body.headD [])) n.lines
  else .ok { kind := .code, lines := n.lines }

/-- Fortran source → node list in source order (what `FileParser.parse_file` builds for `.f90/.F90`) -/
def fortranPNodes (text : String) : Except PP.Err (List PP.PNode) :=
  match fortranSource text with
  | .error e => .error (errOf e)
  | .ok lls => (group lls).mapM pnodeOf

/-- MODEL: per node (kind, lines, attributed) of a Fortran file analysed with `-D` definitions:
the C01 model `PP.analyseNodes` on the Fortran node list -/
def analyseFortran (text : String) (defs : List String) : Except PP.Err (List PP.Row) :=
  fortranPNodes text >>= (PP.analyseNodes · defs)

/-- SPEC: the flat ISO C conditional-stack machine `PP.referenceNodes` on the same node list -/
def referenceFortran (text : String) (defs : List String) : Except PP.Err PP.RefResult :=
  fortranPNodes text >>= (PP.referenceNodes · defs)

/-- physical lines of the attributed rows (all node kinds), in source order -/
def attributedLines (rows : List PP.Row) : List Nat :=
  (rows.filter (·.2.2)).flatMap (·.2.1)

end CbiVerif.Fortran
